// gmlc-extract: LibTooling fact extractor for the static checks in /verif.
//
// For one translation unit it writes a JSON fact file holding
//   * records   : every class defined under the roots (fields, methods, aliases)
//   * patterns  : every function definition with a body under the roots
//                 (template patterns included) - used by the completeness audit
//   * functions : every NON-dependent function definition under the roots
//                 (instantiations, plain functions, lambda call operators) with
//                 its statement table and its clang::CFG (implicit destructors,
//                 temporary destructors, initialisers, every sub-expression)
//   * diagnostics: every error clang produced, with its instantiation notes
//
// usage: gmlc-extract -o out.json --root /repo/gmlc [--root DIR]... file.cpp -- <flags>
//
// Nothing here is specific to one property; all rules live in /verif/rules.

#include "clang/AST/ASTConsumer.h"
#include "clang/AST/ASTContext.h"
#include "clang/AST/DeclCXX.h"
#include "clang/AST/DeclTemplate.h"
#include "clang/AST/ExprCXX.h"
#include "clang/AST/Mangle.h"
#include "clang/AST/ParentMapContext.h"
#include "clang/AST/RecursiveASTVisitor.h"
#include "clang/AST/StmtCXX.h"
#include "clang/Analysis/CFG.h"
#include "clang/Basic/Diagnostic.h"
#include "clang/Basic/SourceManager.h"
#include "clang/Frontend/CompilerInstance.h"
#include "clang/Frontend/FrontendAction.h"
#include "clang/Tooling/CompilationDatabase.h"
#include "clang/Tooling/Tooling.h"
#include "llvm/Support/CommandLine.h"
#include "llvm/Support/JSON.h"
#include "llvm/Support/raw_ostream.h"

#include <map>
#include <set>
#include <string>
#include <vector>

using namespace clang;
namespace json = llvm::json;

static std::vector<std::string> gRoots;
static std::string gOut;

namespace {

struct DiagRec {
    std::string level, msg, file;
    unsigned line = 0;
    std::vector<std::string> notes;
};

class Collector: public DiagnosticConsumer {
  public:
    std::vector<DiagRec> diags;
    void HandleDiagnostic(DiagnosticsEngine::Level L,
                          const Diagnostic& Info) override
    {
        DiagnosticConsumer::HandleDiagnostic(L, Info);
        llvm::SmallString<256> buf;
        Info.FormatDiagnostic(buf);
        std::string file;
        unsigned line = 0;
        if (Info.hasSourceManager() && Info.getLocation().isValid()) {
            auto& SM = Info.getSourceManager();
            auto P = SM.getPresumedLoc(SM.getExpansionLoc(Info.getLocation()));
            if (P.isValid()) {
                file = P.getFilename();
                line = P.getLine();
            }
        }
        if (L == DiagnosticsEngine::Note) {
            if (!diags.empty()) {
                diags.back().notes.push_back(
                    file + ":" + std::to_string(line) + ": " + buf.str().str());
            }
            return;
        }
        DiagRec d;
        d.level = (L >= DiagnosticsEngine::Error) ? "error" : "warning";
        d.msg = buf.str().str();
        d.file = file;
        d.line = line;
        diags.push_back(std::move(d));
    }
};

class Extractor {
  public:
    ASTContext& Ctx;
    SourceManager& SM;
    PrintingPolicy PP;
    json::Array records, patterns, functions;
    std::set<const FunctionDecl*> doneFns;
    std::set<const CXXRecordDecl*> doneRecs;
    std::vector<const FunctionDecl*> queue;

    explicit Extractor(ASTContext& C):
        Ctx(C), SM(C.getSourceManager()), PP(C.getLangOpts())
    {
        PP.SuppressTagKeyword = true;
        PP.Bool = true;
        PP.SuppressUnwrittenScope = true;
        PP.FullyQualifiedName = true;
        PP.PrintCanonicalTypes = true;
    }

    // ---------------------------------------------------------------- util
    static std::string idOf(const void* p)
    {
        char b[32];
        snprintf(b, sizeof b, "%llx", (unsigned long long)(uintptr_t)p);
        return b;
    }
    std::string fileOf(SourceLocation L, bool spelling = true)
    {
        if (L.isInvalid()) return "";
        SourceLocation X = spelling ? SM.getSpellingLoc(L) : SM.getExpansionLoc(L);
        auto P = SM.getPresumedLoc(X);
        if (!P.isValid()) return "";
        llvm::SmallString<256> path(P.getFilename());
        SM.getFileManager().makeAbsolutePath(path);
        llvm::sys::path::remove_dots(path, true);
        return path.str().str();
    }
    unsigned lineOf(SourceLocation L, bool spelling = true)
    {
        if (L.isInvalid()) return 0;
        SourceLocation X = spelling ? SM.getSpellingLoc(L) : SM.getExpansionLoc(L);
        auto P = SM.getPresumedLoc(X);
        return P.isValid() ? P.getLine() : 0;
    }
    unsigned colOf(SourceLocation L)
    {
        if (L.isInvalid()) return 0;
        auto P = SM.getPresumedLoc(SM.getSpellingLoc(L));
        return P.isValid() ? P.getColumn() : 0;
    }
    bool underRoots(SourceLocation L)
    {
        std::string f = fileOf(L, true);
        if (f.empty()) return false;
        for (auto& r : gRoots) {
            if (f.compare(0, r.size(), r) == 0) return true;
        }
        return false;
    }
    std::string ty(QualType T)
    {
        if (T.isNull()) return "";
        return T.getCanonicalType().getAsString(PP);
    }
    std::string tyAsWritten(QualType T)
    {
        if (T.isNull()) return "";
        PrintingPolicy P2(Ctx.getLangOpts());
        P2.SuppressTagKeyword = true;
        P2.Bool = true;
        return T.getAsString(P2);
    }
    std::string qname(const NamedDecl* D)
    {
        if (!D) return "";
        std::string s;
        llvm::raw_string_ostream os(s);
        D->printQualifiedName(os, PP);
        return os.str();
    }
    // qualified name of the class template (no template arguments)
    std::string recTemplateName(const CXXRecordDecl* R)
    {
        if (!R) return "";
        if (auto* S = dyn_cast<ClassTemplateSpecializationDecl>(R)) {
            return S->getSpecializedTemplate()->getQualifiedNameAsString();
        }
        if (auto* D = R->getDescribedClassTemplate()) {
            return D->getQualifiedNameAsString();
        }
        // nested class of a template: strip template args by walking contexts
        std::string s;
        std::vector<std::string> parts;
        const DeclContext* DC = R;
        while (DC && !DC->isTranslationUnit()) {
            if (auto* ND = dyn_cast<NamedDecl>(DC)) {
                if (auto* NS = dyn_cast<NamespaceDecl>(ND)) {
                    if (!NS->isAnonymousNamespace() && !NS->isInline())
                        parts.push_back(NS->getNameAsString());
                    else if (NS->isAnonymousNamespace())
                        parts.push_back("(anonymous)");
                } else if (auto* RD = dyn_cast<CXXRecordDecl>(ND)) {
                    if (RD->isLambda())
                        parts.push_back("(lambda)");
                    else
                        parts.push_back(RD->getNameAsString());
                } else if (auto* FD = dyn_cast<FunctionDecl>(ND)) {
                    parts.push_back(FD->getNameAsString() + "()");
                } else {
                    parts.push_back(ND->getNameAsString());
                }
            }
            DC = DC->getParent();
        }
        for (auto it = parts.rbegin(); it != parts.rend(); ++it) {
            if (!s.empty()) s += "::";
            s += *it;
        }
        return s;
    }
    // full name of a class including template arguments (canonical type spelling)
    std::string recFull(const CXXRecordDecl* R)
    {
        if (!R) return "";
        if (R->isDependentContext() || R->isLambda()) return qname(R);
        return ty(Ctx.getRecordType(R));
    }
    static const FunctionDecl* patternOf(const FunctionDecl* FD)
    {
        if (auto* P = FD->getTemplateInstantiationPattern()) return P;
        return FD;
    }
    static const CXXRecordDecl* patternOfRec(const CXXRecordDecl* R)
    {
        if (auto* P = R->getTemplateInstantiationPattern()) return P;
        return R;
    }
    std::string locStr(SourceLocation L)
    {
        return fileOf(L) + ":" + std::to_string(lineOf(L));
    }

    // ------------------------------------------------------------- callee
    json::Object calleeInfo(const FunctionDecl* FD)
    {
        json::Object o;
        if (!FD) return o;
        o["id"] = idOf(FD->getCanonicalDecl());
        o["name"] = FD->getNameAsString();
        o["qname"] = qname(FD);
        const FunctionDecl* pat = patternOf(FD);
        const FunctionDecl* def = nullptr;
        bool hasBody = FD->hasBody(def);
        (void)hasBody;
        if (auto* MD = dyn_cast<CXXMethodDecl>(FD)) {
            o["rec"] = recTemplateName(MD->getParent());
            o["recq"] = recFull(MD->getParent());
            o["recid"] = idOf(MD->getParent()->getCanonicalDecl());
            o["static"] = MD->isStatic();
            o["virtual"] = MD->isVirtual();
            o["constm"] = MD->isConst();
            if (isa<CXXConstructorDecl>(MD))
                o["kind"] = "ctor";
            else if (isa<CXXDestructorDecl>(MD))
                o["kind"] = "dtor";
            else if (isa<CXXConversionDecl>(MD))
                o["kind"] = "conv";
            else if (MD->isOverloadedOperator())
                o["kind"] = "op";
            else
                o["kind"] = "method";
            if (MD->getParent()->isLambda()) o["lambda"] = true;
        } else {
            o["kind"] = FD->isOverloadedOperator() ? "op" : "free";
            // free function: namespace-qualified name without template args
            o["rec"] = "";
        }
        o["fq"] = FD->getQualifiedNameAsString();
        o["inrepo"] = underRoots(pat->getLocation());
        o["pattern"] = locStr(pat->getLocation());
        o["defined"] = (def != nullptr) || pat->hasBody();
        o["deleted"] = FD->isDeleted();
        o["defaulted"] = FD->isDefaulted();
        o["noexcept"] = isNoexcept(FD);
        o["ret"] = ty(FD->getReturnType());
        json::Array ps;
        for (auto* P : FD->parameters()) ps.push_back(ty(P->getType()));
        o["params"] = std::move(ps);
        if (FD->isOverloadedOperator())
            o["op"] = getOperatorSpelling(FD->getOverloadedOperator());
        return o;
    }
    static bool isNoexcept(const FunctionDecl* FD)
    {
        auto* FPT = FD->getType()->getAs<FunctionProtoType>();
        if (!FPT) return false;
        switch (FPT->getExceptionSpecType()) {
            case EST_BasicNoexcept:
            case EST_NoexceptTrue:
            case EST_NoThrow:
            case EST_DynamicNone:
                return true;
            default:
                return false;
        }
    }

    // ------------------------------------------------------------ records
    void emitRecord(const CXXRecordDecl* R)
    {
        if (!R || !R->isCompleteDefinition()) return;
        R = R->getDefinition();
        if (!R) return;
        if (!doneRecs.insert(R).second) return;
        json::Object o;
        o["id"] = idOf(R->getCanonicalDecl());
        o["qname"] = recFull(R);
        o["tmpl"] = recTemplateName(R);
        o["name"] = R->getNameAsString();
        o["dependent"] = R->isDependentContext();
        o["lambda"] = R->isLambda();
        const CXXRecordDecl* pat = patternOfRec(R);
        o["pattern"] = locStr(pat->getLocation());
        o["file"] = fileOf(pat->getLocation());
        o["line"] = lineOf(pat->getLocation());
        if (auto* S = dyn_cast<ClassTemplateSpecializationDecl>(R)) {
            json::Array ta;
            for (auto& A : S->getTemplateArgs().asArray()) {
                std::string s;
                llvm::raw_string_ostream os(s);
                A.print(PP, os, true);
                ta.push_back(os.str());
            }
            o["targs"] = std::move(ta);
            o["explicit_spec"] = S->isExplicitSpecialization();
        }
        json::Array bases;
        for (auto& B : R->bases()) {
            json::Object b;
            b["type"] = ty(B.getType());
            b["access"] = accessStr(B.getAccessSpecifier());
            if (auto* BR = B.getType()->getAsCXXRecordDecl())
                b["tmpl"] = recTemplateName(BR);
            bases.push_back(std::move(b));
        }
        o["bases"] = std::move(bases);
        json::Array fields;
        for (auto* F : R->fields()) {
            json::Object f;
            f["id"] = idOf(F->getCanonicalDecl());
            f["name"] = F->getNameAsString();
            f["type"] = ty(F->getType());
            f["written"] = tyAsWritten(F->getType());
            f["access"] = accessStr(F->getAccess());
            f["mutable"] = F->isMutable();
            f["const"] = F->getType().isConstQualified();
            f["ref"] = F->getType()->isReferenceType();
            f["has_init"] = F->hasInClassInitializer();
            f["line"] = lineOf(F->getLocation());
            if (F->hasInClassInitializer() && F->getInClassInitializer() &&
                !R->isDependentContext()) {
                f["init"] = briefExpr(F->getInClassInitializer());
            }
            if (auto* FR = F->getType()->getAsCXXRecordDecl())
                f["tmpl"] = recTemplateName(FR);
            fields.push_back(std::move(f));
        }
        o["fields"] = std::move(fields);
        // static data members and aliases
        json::Array aliases, methods, friends;
        for (auto* D : R->decls()) {
            if (auto* TN = dyn_cast<TypedefNameDecl>(D)) {
                json::Object a;
                a["name"] = TN->getNameAsString();
                a["type"] = R->isDependentContext() ?
                    tyAsWritten(TN->getUnderlyingType()) :
                    ty(TN->getUnderlyingType());
                a["access"] = accessStr(TN->getAccess());
                aliases.push_back(std::move(a));
            } else if (auto* UD = dyn_cast<UsingDecl>(D)) {
                json::Object a;
                a["name"] = UD->getNameAsString();
                a["using"] = true;
                a["access"] = accessStr(UD->getAccess());
                aliases.push_back(std::move(a));
            } else if (auto* FrD = dyn_cast<FriendDecl>(D)) {
                if (auto* ND = FrD->getFriendDecl())
                    friends.push_back(qname(ND));
                else if (auto* TSI = FrD->getFriendType())
                    friends.push_back(tyAsWritten(TSI->getType()));
            }
        }
        auto addMethod = [&](const FunctionDecl* FD, bool isTemplate) {
            json::Object m = calleeInfo(FD);
            m["access"] = accessStr(FD->getAccess());
            m["user_provided"] = false;
            if (auto* MD = dyn_cast<CXXMethodDecl>(FD)) {
                m["user_provided"] = MD->isUserProvided();
                m["implicit"] = MD->isImplicit();
                if (auto* CD = dyn_cast<CXXConstructorDecl>(MD)) {
                    m["copy_ctor"] = CD->isCopyConstructor();
                    m["move_ctor"] = CD->isMoveConstructor();
                    m["default_ctor"] = CD->isDefaultConstructor();
                    m["explicit"] = CD->isExplicit();
                }
                m["copy_assign"] = MD->isCopyAssignmentOperator();
                m["move_assign"] = MD->isMoveAssignmentOperator();
            }
            m["is_template"] = isTemplate;
            m["has_body"] = FD->doesThisDeclarationHaveABody() ||
                (patternOf(FD)->hasBody());
            m["line"] = lineOf(FD->getLocation());
            methods.push_back(std::move(m));
        };
        for (auto* D : R->decls()) {
            if (auto* MD = dyn_cast<CXXMethodDecl>(D)) {
                addMethod(MD, false);
            } else if (auto* FT = dyn_cast<FunctionTemplateDecl>(D)) {
                addMethod(FT->getTemplatedDecl(), true);
            }
        }
        o["aliases"] = std::move(aliases);
        o["methods"] = std::move(methods);
        o["friends"] = std::move(friends);
        if (!R->isDependentContext() && !R->isLambda()) {
            json::Object sm;
            // both queries assert when overload resolution is still needed
            if (!R->needsOverloadResolutionForCopyConstructor())
                sm["copy_ctor_deleted"] = R->defaultedCopyConstructorIsDeleted();
            if (!R->needsOverloadResolutionForMoveConstructor())
                sm["move_ctor_deleted"] = R->defaultedMoveConstructorIsDeleted();
            sm["has_user_copy_ctor"] = R->hasUserDeclaredCopyConstructor();
            sm["has_user_move_ctor"] = R->hasUserDeclaredMoveConstructor();
            sm["has_user_copy_assign"] = R->hasUserDeclaredCopyAssignment();
            sm["has_user_move_assign"] = R->hasUserDeclaredMoveAssignment();
            sm["has_user_dtor"] = R->hasUserDeclaredDestructor();
            sm["trivially_copyable"] = R->isTriviallyCopyable();
            sm["has_simple_copy_ctor"] = R->hasSimpleCopyConstructor();
            sm["has_simple_move_ctor"] = R->hasSimpleMoveConstructor();
            sm["has_simple_copy_assign"] = R->hasSimpleCopyAssignment();
            sm["has_simple_move_assign"] = R->hasSimpleMoveAssignment();
            sm["needs_implicit_copy_ctor"] = R->needsImplicitCopyConstructor();
            sm["needs_implicit_move_ctor"] = R->needsImplicitMoveConstructor();
            o["special"] = std::move(sm);
        }
        records.push_back(std::move(o));
    }
    static const char* accessStr(AccessSpecifier A)
    {
        switch (A) {
            case AS_public:
                return "public";
            case AS_protected:
                return "protected";
            case AS_private:
                return "private";
            default:
                return "none";
        }
    }
    std::string briefExpr(const Expr* E)
    {
        std::string s;
        llvm::raw_string_ostream os(s);
        E->printPretty(os, nullptr, PP);
        return os.str();
    }

    // -------------------------------------------------------------- stmts
    json::Object stmts;  // per function, reset in emitFunction
    std::set<const Stmt*> seen;

    std::string sid(const Stmt* S) { return S ? idOf(S) : std::string(); }

    json::Object declInfo(const ValueDecl* D)
    {
        json::Object o;
        o["id"] = idOf(D->getCanonicalDecl());
        o["name"] = D->getNameAsString();
        o["type"] = ty(D->getType());
        if (isa<DecompositionDecl>(D)) {
            o["name"] = "$sb" + idOf(D->getCanonicalDecl());
            o["decomposition"] = true;
        }
        if (auto* VD = dyn_cast<VarDecl>(D)) {
            if (isa<ParmVarDecl>(VD))
                o["k"] = "param";
            else if (VD->isStaticLocal())
                o["k"] = "static_local";
            else if (VD->isLocalVarDecl())
                o["k"] = "local";
            else if (VD->isStaticDataMember())
                o["k"] = "static_member";
            else
                o["k"] = "global";
            o["ref"] = VD->getType()->isReferenceType();
            if (VD->getTLSKind() != VarDecl::TLS_None) o["tls"] = true;
            if (auto* P = dyn_cast<ParmVarDecl>(VD))
                o["idx"] = (int)P->getFunctionScopeIndex();
        } else if (isa<FieldDecl>(D)) {
            o["k"] = "field";
        } else if (isa<FunctionDecl>(D)) {
            o["k"] = "function";
        } else if (isa<EnumConstantDecl>(D)) {
            o["k"] = "enumconst";
            o["qname"] = qname(D);
        } else if (auto* BD = dyn_cast<BindingDecl>(D)) {
            // a structured binding names a part of the (unnamed) decomposed variable
            o["k"] = "binding";
            if (auto* DD = dyn_cast_or_null<DecompositionDecl>(BD->getDecomposedDecl())) {
                o["decomp"] = idOf(DD->getCanonicalDecl());
                o["decomp_name"] = "$sb" + idOf(DD->getCanonicalDecl());
                o["decomp_type"] = ty(DD->getType().getNonReferenceType());
                int i = 0;
                for (auto* B : DD->bindings()) {
                    if (B == BD) o["bidx"] = i;
                    ++i;
                }
            }
        } else {
            o["k"] = "other";
        }
        return o;
    }

    void addMemOrders(json::Object& o, llvm::ArrayRef<const Expr*> args)
    {
        json::Array mos;
        bool any = false;
        for (auto* A : args) {
            if (!A) continue;
            QualType T = A->getType().getCanonicalType();
            std::string ts = T.getAsString(PP);
            if (ts == "std::memory_order") {
                Expr::EvalResult R;
                if (!A->isValueDependent() && A->EvaluateAsInt(R, Ctx)) {
                    mos.push_back((int64_t)R.Val.getInt().getExtValue());
                    any = true;
                } else {
                    mos.push_back(-1);
                    any = true;
                }
            }
        }
        if (any) o["mo"] = std::move(mos);
    }

    void walk(const Stmt* S)
    {
        if (!S) return;
        if (!seen.insert(S).second) return;
        json::Object o;
        o["k"] = S->getStmtClassName();
        o["l"] = lineOf(S->getBeginLoc());
        o["c"] = colOf(S->getBeginLoc());
        std::string f = fileOf(S->getBeginLoc());
        o["f"] = f;
        std::vector<const Stmt*> kids;
        for (const Stmt* C : S->children()) kids.push_back(C);
        if (auto* E = dyn_cast<Expr>(S)) {
            o["t"] = ty(E->getType());
            o["vk"] = E->isLValue() ? "l" : (E->isXValue() ? "x" : "pr");
        }
        if (auto* DR = dyn_cast<DeclRefExpr>(S)) {
            o["d"] = declInfo(DR->getDecl());
            if (auto* FD = dyn_cast<FunctionDecl>(DR->getDecl()))
                o["fn"] = calleeInfo(FD);
        } else if (auto* ME = dyn_cast<MemberExpr>(S)) {
            auto* MD = ME->getMemberDecl();
            json::Object m;
            m["id"] = idOf(MD->getCanonicalDecl());
            m["name"] = MD->getNameAsString();
            m["is_field"] = isa<FieldDecl>(MD);
            if (auto* FD = dyn_cast<FieldDecl>(MD)) {
                auto* P = dyn_cast<CXXRecordDecl>(FD->getParent());
                m["rec"] = recTemplateName(P);
                m["recq"] = P ? recFull(P) : "";
                m["mutable"] = FD->isMutable();
                m["ftype"] = ty(FD->getType());
            } else if (auto* MM = dyn_cast<CXXMethodDecl>(MD)) {
                m["rec"] = recTemplateName(MM->getParent());
            }
            o["m"] = std::move(m);
            o["arrow"] = ME->isArrow();
            o["base"] = sid(ME->getBase());
        } else if (auto* CE = dyn_cast<CXXConstructExpr>(S)) {
            o["callee"] = calleeInfo(CE->getConstructor());
            json::Array args;
            std::vector<const Expr*> av;
            for (auto* A : CE->arguments()) {
                args.push_back(sid(A));
                av.push_back(A);
            }
            o["args"] = std::move(args);
            o["elidable"] = CE->isElidable();
            o["list_init"] = CE->isListInitialization();
            addMemOrders(o, av);
            if (auto* R = CE->getConstructor()->getParent())
                noteRecord(R);
        } else if (auto* CE = dyn_cast<CallExpr>(S)) {
            const FunctionDecl* FD = CE->getDirectCallee();
            if (FD) {
                o["callee"] = calleeInfo(FD);
                enqueue(FD);
            } else {
                o["callee"] = nullptr;
            }
            o["calleeExpr"] = sid(CE->getCallee());
            json::Array args;
            std::vector<const Expr*> av;
            for (auto* A : CE->arguments()) {
                args.push_back(sid(A));
                av.push_back(A);
            }
            o["args"] = std::move(args);
            addMemOrders(o, av);
            if (auto* MC = dyn_cast<CXXMemberCallExpr>(CE)) {
                o["obj"] = sid(MC->getImplicitObjectArgument());
            }
            if (auto* OC = dyn_cast<CXXOperatorCallExpr>(CE)) {
                o["op"] = getOperatorSpelling(OC->getOperator());
            }
        } else if (auto* CA = dyn_cast<CastExpr>(S)) {
            o["ck"] = CA->getCastKindName();
            if (auto* CF = CA->getConversionFunction()) {
                if (auto* FD = dyn_cast<FunctionDecl>(CF))
                    o["conv"] = calleeInfo(FD);
            }
        } else if (auto* UO = dyn_cast<UnaryOperator>(S)) {
            o["op"] = UnaryOperator::getOpcodeStr(UO->getOpcode()).str();
            o["postfix"] = UO->isPostfix();
        } else if (auto* BO = dyn_cast<BinaryOperator>(S)) {
            o["op"] = BO->getOpcodeStr().str();
        } else if (auto* BL = dyn_cast<CXXBoolLiteralExpr>(S)) {
            o["v"] = BL->getValue();
        } else if (auto* IL = dyn_cast<IntegerLiteral>(S)) {
            o["v"] = (int64_t)IL->getValue().getLimitedValue();
        } else if (isa<CXXNullPtrLiteralExpr>(S) || isa<GNUNullExpr>(S)) {
            o["v"] = nullptr;
        } else if (auto* LE = dyn_cast<LambdaExpr>(S)) {
            auto* cls = LE->getLambdaClass();
            o["cls"] = idOf(cls->getCanonicalDecl());
            json::Array caps;
            auto initIt = LE->capture_init_begin();
            for (auto& C : LE->captures()) {
                json::Object c;
                if (C.capturesThis()) {
                    c["this"] = true;
                } else if (C.capturesVariable()) {
                    c["var"] = declInfo(C.getCapturedVar());
                }
                c["by"] = (C.getCaptureKind() == LCK_ByRef) ? "ref" : "copy";
                if (initIt != LE->capture_init_end()) {
                    c["init"] = sid(*initIt);
                    ++initIt;
                }
                caps.push_back(std::move(c));
            }
            o["caps"] = std::move(caps);
            json::Array ops;
            if (auto* FT = LE->getDependentCallOperator()) {
                for (auto* Sp : FT->specializations()) {
                    ops.push_back(idOf(Sp->getCanonicalDecl()));
                    enqueue(Sp, true);
                }
                o["generic"] = true;
            } else if (auto* CO = LE->getCallOperator()) {
                ops.push_back(idOf(CO->getCanonicalDecl()));
                enqueue(CO, true);
            }
            o["call_ops"] = std::move(ops);
            // do not descend into the body here (it is its own function) but
            // keep capture initialisers
            kids.clear();
            for (auto it = LE->capture_init_begin(); it != LE->capture_init_end();
                 ++it)
                kids.push_back(*it);
        } else if (auto* DS = dyn_cast<DeclStmt>(S)) {
            json::Array ds;
            for (auto* D : DS->decls()) {
                if (auto* VD = dyn_cast<VarDecl>(D)) {
                    json::Object d = declInfo(VD);
                    d["init"] = sid(VD->getInit());
                    d["written"] = tyAsWritten(VD->getType());
                    if (auto* R = VD->getType()->getAsCXXRecordDecl())
                        d["tmpl"] = recTemplateName(R);
                    ds.push_back(std::move(d));
                    if (VD->getInit()) kids.push_back(VD->getInit());
                }
            }
            o["decls"] = std::move(ds);
        } else if (auto* NE = dyn_cast<CXXNewExpr>(S)) {
            o["alloc_type"] = ty(NE->getAllocatedType());
            o["array"] = NE->isArray();
            o["placement"] = (int)NE->getNumPlacementArgs();
            o["init"] = sid(NE->getInitializer());
        } else if (auto* DE = dyn_cast<CXXDeleteExpr>(S)) {
            o["arg"] = sid(DE->getArgument());
            o["array"] = DE->isArrayForm();
        } else if (auto* TS = dyn_cast<CXXTryStmt>(S)) {
            o["try"] = sid(TS->getTryBlock());
            json::Array hs;
            for (unsigned i = 0; i < TS->getNumHandlers(); ++i)
                hs.push_back(sid(TS->getHandler(i)));
            o["handlers"] = std::move(hs);
        } else if (auto* CS = dyn_cast<CXXCatchStmt>(S)) {
            o["all"] = (CS->getExceptionDecl() == nullptr);
            o["body"] = sid(CS->getHandlerBlock());
        } else if (auto* IS = dyn_cast<IfStmt>(S)) {
            o["cond"] = sid(IS->getCond());
            o["then"] = sid(IS->getThen());
            o["else"] = sid(IS->getElse());
        } else if (auto* WS = dyn_cast<WhileStmt>(S)) {
            o["cond"] = sid(WS->getCond());
            o["body"] = sid(WS->getBody());
        } else if (auto* DoS = dyn_cast<DoStmt>(S)) {
            o["cond"] = sid(DoS->getCond());
            o["body"] = sid(DoS->getBody());
        } else if (auto* FS = dyn_cast<ForStmt>(S)) {
            o["init"] = sid(FS->getInit());
            o["cond"] = sid(FS->getCond());
            o["inc"] = sid(FS->getInc());
            o["body"] = sid(FS->getBody());
        } else if (auto* FR = dyn_cast<CXXForRangeStmt>(S)) {
            o["range_init"] = sid(FR->getRangeInit());
            o["body"] = sid(FR->getBody());
            if (auto* LV = FR->getLoopVariable()) o["loopvar"] = declInfo(LV);
        } else if (auto* CO = dyn_cast<AbstractConditionalOperator>(S)) {
            o["cond"] = sid(CO->getCond());
            o["then"] = sid(CO->getTrueExpr());
            o["else"] = sid(CO->getFalseExpr());
        } else if (auto* DA = dyn_cast<CXXDefaultArgExpr>(S)) {
            o["expr"] = sid(DA->getExpr());
            kids.push_back(DA->getExpr());
        } else if (auto* DI = dyn_cast<CXXDefaultInitExpr>(S)) {
            o["expr"] = sid(DI->getExpr());
            kids.push_back(DI->getExpr());
            o["field"] = DI->getField()->getNameAsString();
        } else if (auto* BT = dyn_cast<CXXBindTemporaryExpr>(S)) {
            if (auto* D = BT->getTemporary()->getDestructor())
                o["dtor"] = calleeInfo(D);
        } else if (auto* MT = dyn_cast<MaterializeTemporaryExpr>(S)) {
            o["storage"] = (int)MT->getStorageDuration();
        } else if (auto* TE = dyn_cast<CXXThrowExpr>(S)) {
            o["rethrow"] = (TE->getSubExpr() == nullptr);
        } else if (auto* SL = dyn_cast<StringLiteral>(S)) {
            if (SL->isAscii() || SL->isUTF8()) o["v"] = SL->getString().str();
        } else if (auto* UE = dyn_cast<UnaryExprOrTypeTraitExpr>(S)) {
            (void)UE;
            kids.clear();  // unevaluated
        } else if (isa<CXXNoexceptExpr>(S) || isa<CXXTypeidExpr>(S)) {
            kids.clear();
        } else if (auto* IL = dyn_cast<InitListExpr>(S)) {
            (void)IL;
        }
        json::Array ch;
        for (auto* C : kids) ch.push_back(C ? json::Value(sid(C)) : json::Value(nullptr));
        o["ch"] = std::move(ch);
        stmts[sid(S)] = std::move(o);
        for (auto* C : kids) walk(C);
    }

    void noteRecord(const CXXRecordDecl* R)
    {
        if (!R) return;
        const CXXRecordDecl* P = patternOfRec(R);
        if (underRoots(P->getLocation())) emitRecord(R);
    }

    void enqueue(const FunctionDecl* FD, bool force = false)
    {
        if (!FD) return;
        const FunctionDecl* Def = nullptr;
        if (!FD->hasBody(Def) || !Def) return;
        if (Def->isDependentContext()) return;
        if (!force && !underRoots(patternOf(Def)->getLocation())) return;
        queue.push_back(Def);
    }

    // ---------------------------------------------------------- functions
    void emitPattern(const FunctionDecl* FD)
    {
        json::Object o;
        o["loc"] = locStr(FD->getLocation());
        o["file"] = fileOf(FD->getLocation());
        o["line"] = lineOf(FD->getLocation());
        o["name"] = FD->getNameAsString();
        o["qname"] = FD->getQualifiedNameAsString();
        o["dependent"] = FD->isDependentContext();
        if (auto* MD = dyn_cast<CXXMethodDecl>(FD)) {
            o["rec"] = recTemplateName(MD->getParent());
            o["lambda"] = MD->getParent()->isLambda();
            o["constm"] = MD->isConst();
            o["access"] = accessStr(MD->getAccess());
        }
        o["defaulted"] = FD->isDefaulted();
        json::Array ps;
        for (auto* P : FD->parameters()) ps.push_back(tyAsWritten(P->getType()));
        o["params"] = std::move(ps);
        patterns.push_back(std::move(o));
    }

    json::Object cfgElemDtor(const CXXDestructorDecl* D)
    {
        if (!D) return json::Object();
        return calleeInfo(D);
    }

    void emitFunction(const FunctionDecl* FD)
    {
        if (!doneFns.insert(FD->getCanonicalDecl()).second) return;
        const Stmt* Body = FD->getBody();
        if (!Body) return;
        json::Object o = calleeInfo(FD);
        o["file"] = fileOf(patternOf(FD)->getLocation());
        o["line"] = lineOf(patternOf(FD)->getLocation());
        o["exp_file"] = fileOf(FD->getLocation(), false);
        o["end_line"] = lineOf(patternOf(FD)->getEndLoc());
        if (!isa<CXXConstructorDecl>(FD) && !isa<CXXDestructorDecl>(FD)) {
            ASTNameGenerator NG(Ctx);
            o["mangled"] = NG.getName(FD);
        } else {
            ASTNameGenerator NG(Ctx);
            json::Array ms;
            for (auto& n : NG.getAllManglings(FD)) ms.push_back(n);
            o["mangled_all"] = std::move(ms);
        }
        o["invalid"] = FD->isInvalidDecl();
        {
            // an instantiated body that kept going after an error carries RecoveryExpr / error-flagged expressions
            struct ErrFinder: public RecursiveASTVisitor<ErrFinder> {
                bool found = false;
                bool VisitExpr(Expr* E)
                {
                    if (E->containsErrors()) found = true;
                    return !found;
                }
                bool shouldVisitTemplateInstantiations() const { return true; }
            } EF;
            EF.TraverseStmt(const_cast<Stmt*>(Body));
            o["recovery"] = EF.found;
        }
        o["access"] = accessStr(FD->getAccess());
        o["is_instantiation"] = FD->isTemplateInstantiation();
        if (auto* TA = FD->getTemplateSpecializationArgs()) {
            json::Array ta;
            for (auto& A : TA->asArray()) {
                std::string s;
                llvm::raw_string_ostream os(s);
                A.print(PP, os, true);
                ta.push_back(os.str());
            }
            o["targs"] = std::move(ta);
        }
        json::Array params;
        for (auto* P : FD->parameters()) params.push_back(declInfo(P));
        o["param_decls"] = std::move(params);
        if (auto* MD = dyn_cast<CXXMethodDecl>(FD)) {
            noteRecord(MD->getParent());
            if (MD->getParent()->isLambda()) {
                // enclosing function of the lambda
                const DeclContext* DC = MD->getParent()->getParent();
                while (DC && !isa<FunctionDecl>(DC)) DC = DC->getParent();
                if (DC)
                    o["lambda_parent"] =
                        idOf(cast<FunctionDecl>(DC)->getCanonicalDecl());
            }
        }
        stmts = json::Object();
        seen.clear();
        walk(Body);
        json::Array inits;
        if (auto* CD = dyn_cast<CXXConstructorDecl>(FD)) {
            for (auto* I : CD->inits()) {
                json::Object io;
                if (I->isAnyMemberInitializer()) {
                    io["field"] = I->getAnyMember()->getNameAsString();
                    io["field_id"] = idOf(I->getAnyMember()->getCanonicalDecl());
                } else if (I->isBaseInitializer()) {
                    io["base"] = ty(QualType(I->getBaseClass(), 0));
                } else if (I->isDelegatingInitializer()) {
                    io["delegating"] = true;
                }
                io["written"] = I->isWritten();
                io["init"] = sid(I->getInit());
                walk(I->getInit());
                inits.push_back(std::move(io));
            }
        }
        o["inits"] = std::move(inits);
        o["body"] = sid(Body);

        CFG::BuildOptions BO;
        BO.AddImplicitDtors = true;
        BO.AddTemporaryDtors = true;
        BO.AddInitializers = true;
        BO.AddCXXNewAllocator = false;
        BO.AddCXXDefaultInitExprInCtors = true;
        BO.AddLifetime = false;
        BO.AddScopes = false;
        BO.PruneTriviallyFalseEdges = false;
        BO.setAllAlwaysAdd();
        std::unique_ptr<CFG> G =
            CFG::buildCFG(FD, const_cast<Stmt*>(Body), &Ctx, BO);
        if (!G) {
            o["cfg"] = nullptr;
        } else {
            json::Object cfg;
            cfg["entry"] = (int)G->getEntry().getBlockID();
            cfg["exit"] = (int)G->getExit().getBlockID();
            json::Array blocks;
            for (const CFGBlock* B : *G) {
                json::Object b;
                b["id"] = (int)B->getBlockID();
                json::Array elems;
                for (const CFGElement& E : *B) {
                    json::Object e;
                    switch (E.getKind()) {
                        case CFGElement::Statement:
                        case CFGElement::Constructor:
                        case CFGElement::CXXRecordTypedCall: {
                            const Stmt* S = E.castAs<CFGStmt>().getStmt();
                            e["k"] = "S";
                            e["s"] = sid(S);
                            if (!seen.count(S)) walk(S);
                            break;
                        }
                        case CFGElement::Initializer: {
                            auto* I = E.castAs<CFGInitializer>().getInitializer();
                            e["k"] = "I";
                            if (I->isAnyMemberInitializer()) {
                                e["field"] = I->getAnyMember()->getNameAsString();
                                e["field_id"] =
                                    idOf(I->getAnyMember()->getCanonicalDecl());
                            } else if (I->isBaseInitializer()) {
                                e["base"] = ty(QualType(I->getBaseClass(), 0));
                            }
                            e["init"] = sid(I->getInit());
                            break;
                        }
                        case CFGElement::AutomaticObjectDtor: {
                            auto D = E.castAs<CFGAutomaticObjDtor>();
                            e["k"] = "AD";
                            e["var"] = declInfo(D.getVarDecl());
                            e["dtor"] = cfgElemDtor(D.getDestructorDecl(Ctx));
                            e["l"] = lineOf(D.getTriggerStmt() ?
                                                D.getTriggerStmt()->getEndLoc() :
                                                SourceLocation());
                            break;
                        }
                        case CFGElement::TemporaryDtor: {
                            auto D = E.castAs<CFGTemporaryDtor>();
                            e["k"] = "TD";
                            e["s"] = sid(D.getBindTemporaryExpr());
                            e["type"] = ty(D.getBindTemporaryExpr()->getType());
                            e["dtor"] = cfgElemDtor(D.getDestructorDecl(Ctx));
                            e["l"] = lineOf(D.getBindTemporaryExpr()->getEndLoc());
                            break;
                        }
                        case CFGElement::MemberDtor: {
                            auto D = E.castAs<CFGMemberDtor>();
                            e["k"] = "MD";
                            e["field"] = D.getFieldDecl()->getNameAsString();
                            e["dtor"] = cfgElemDtor(D.getDestructorDecl(Ctx));
                            break;
                        }
                        case CFGElement::BaseDtor: {
                            auto D = E.castAs<CFGBaseDtor>();
                            e["k"] = "BD";
                            e["base"] = ty(D.getBaseSpecifier()->getType());
                            break;
                        }
                        case CFGElement::DeleteDtor: {
                            auto D = E.castAs<CFGDeleteDtor>();
                            e["k"] = "DD";
                            e["s"] = sid(D.getDeleteExpr());
                            e["dtor"] = cfgElemDtor(D.getDestructorDecl(Ctx));
                            break;
                        }
                        default:
                            e["k"] = "X";
                            break;
                    }
                    elems.push_back(std::move(e));
                }
                b["elems"] = std::move(elems);
                json::Array succs, reach;
                for (auto SI = B->succ_begin(); SI != B->succ_end(); ++SI) {
                    const CFGBlock* SB = SI->getReachableBlock();
                    const CFGBlock* PB = SI->getPossiblyUnreachableBlock();
                    if (SB) {
                        succs.push_back((int)SB->getBlockID());
                        reach.push_back(true);
                    } else if (PB) {
                        succs.push_back((int)PB->getBlockID());
                        reach.push_back(false);
                    } else {
                        succs.push_back(nullptr);
                        reach.push_back(false);
                    }
                }
                b["succs"] = std::move(succs);
                b["reach"] = std::move(reach);
                if (const Stmt* T = B->getTerminatorStmt()) {
                    json::Object t;
                    t["k"] = T->getStmtClassName();
                    t["s"] = sid(T);
                    t["l"] = lineOf(T->getBeginLoc());
                    t["tempdtor"] = B->getTerminator().isTemporaryDtorsBranch();
                    if (const Stmt* C = B->getTerminatorCondition(false)) {
                        t["cond"] = sid(C);
                        // a condition that is a constant expression in this instantiation (`if constexpr`, a trait)
                        if (auto* CE = dyn_cast<Expr>(C)) {
                            bool val = false;
                            if (!CE->isValueDependent() && !CE->isTypeDependent() && CE->getType()->isScalarType() &&
                                CE->isEvaluatable(Ctx, Expr::SE_NoSideEffects) && CE->EvaluateAsBooleanCondition(val, Ctx))
                                t["cval"] = val;
                        }
                    }
                    if (!seen.count(T)) walk(T);
                    b["term"] = std::move(t);
                }
                if (const Stmt* L = B->getLabel()) {
                    b["label"] = L->getStmtClassName();
                    b["label_s"] = sid(L);
                }
                b["noreturn"] = B->hasNoReturnElement();
                blocks.push_back(std::move(b));
            }
            cfg["blocks"] = std::move(blocks);
            o["cfg"] = std::move(cfg);
        }
        o["stmts"] = std::move(stmts);
        stmts = json::Object();
        functions.push_back(std::move(o));
    }

    void drain()
    {
        while (!queue.empty()) {
            const FunctionDecl* FD = queue.back();
            queue.pop_back();
            emitFunction(FD);
        }
    }
};

class Visitor: public RecursiveASTVisitor<Visitor> {
  public:
    Extractor& X;
    explicit Visitor(Extractor& x): X(x) {}
    bool shouldVisitTemplateInstantiations() const { return true; }
    bool shouldVisitImplicitCode() const { return true; }

    bool VisitCXXRecordDecl(CXXRecordDecl* R)
    {
        if (!R->isCompleteDefinition()) return true;
        if (R->isInjectedClassName()) return true;
        const CXXRecordDecl* P = Extractor::patternOfRec(R);
        if (X.underRoots(P->getLocation())) X.emitRecord(R);
        return true;
    }
    bool VisitFunctionDecl(FunctionDecl* FD)
    {
        if (!FD->doesThisDeclarationHaveABody()) return true;
        const FunctionDecl* P = Extractor::patternOf(FD);
        if (!X.underRoots(P->getLocation())) return true;
        if (FD->isDependentContext() || FD == P) {
            // a definition as written in the source (template pattern or plain)
            if (!FD->isTemplateInstantiation()) X.emitPattern(FD);
        }
        if (FD->isDependentContext()) return true;
        X.queue.push_back(FD);
        X.drain();
        return true;
    }
};

class Consumer: public ASTConsumer {
  public:
    Collector& Diags;
    std::string Unit;
    Consumer(Collector& D, std::string U): Diags(D), Unit(std::move(U)) {}
    void HandleTranslationUnit(ASTContext& Ctx) override
    {
        Extractor X(Ctx);
        Visitor V(X);
        V.TraverseDecl(Ctx.getTranslationUnitDecl());
        X.drain();
        json::Object root;
        root["unit"] = Unit;
        json::Array roots;
        for (auto& r : gRoots) roots.push_back(r);
        root["roots"] = std::move(roots);
        json::Array ds;
        for (auto& d : Diags.diags) {
            json::Object o;
            o["level"] = d.level;
            o["msg"] = d.msg;
            o["file"] = d.file;
            o["line"] = (int)d.line;
            json::Array ns;
            for (auto& n : d.notes) ns.push_back(n);
            o["notes"] = std::move(ns);
            ds.push_back(std::move(o));
        }
        root["diagnostics"] = std::move(ds);
        root["records"] = std::move(X.records);
        root["patterns"] = std::move(X.patterns);
        root["functions"] = std::move(X.functions);
        std::error_code EC;
        llvm::raw_fd_ostream OS(gOut, EC);
        if (EC) {
            llvm::errs() << "cannot write " << gOut << ": " << EC.message() << "\n";
            return;
        }
        OS << json::Value(std::move(root));
        OS << "\n";
    }
};

class Action: public ASTFrontendAction {
  public:
    Collector* Diags;
    explicit Action(Collector* D): Diags(D) {}
    std::unique_ptr<ASTConsumer> CreateASTConsumer(CompilerInstance& CI,
                                                   llvm::StringRef File) override
    {
        return std::make_unique<Consumer>(*Diags, File.str());
    }
};

class Factory: public tooling::FrontendActionFactory {
  public:
    Collector* Diags;
    explicit Factory(Collector* D): Diags(D) {}
    std::unique_ptr<FrontendAction> create() override
    {
        return std::make_unique<Action>(Diags);
    }
};

}  // namespace

int main(int argc, const char** argv)
{
    // own tiny argument parser: [-o out] [--root dir]... file -- flags...
    std::vector<std::string> files;
    std::vector<std::string> flags;
    int i = 1;
    for (; i < argc; ++i) {
        std::string a = argv[i];
        if (a == "--") {
            ++i;
            break;
        }
        if (a == "-o" && i + 1 < argc) {
            gOut = argv[++i];
        } else if (a == "--root" && i + 1 < argc) {
            gRoots.push_back(argv[++i]);
        } else {
            files.push_back(a);
        }
    }
    for (; i < argc; ++i) flags.push_back(argv[i]);
    if (files.size() != 1 || gOut.empty() || gRoots.empty()) {
        llvm::errs() << "usage: gmlc-extract -o out.json --root DIR file.cpp -- flags\n";
        return 2;
    }
    flags.push_back("-ferror-limit=0");
    flags.push_back("-Wno-everything");
    tooling::FixedCompilationDatabase DB(".", flags);
    tooling::ClangTool Tool(DB, files);
    Collector Diags;
    Tool.setDiagnosticConsumer(&Diags);
    Factory F(&Diags);
    int rc = Tool.run(&F);
    // rc != 0 when errors were emitted; the fact file is still complete.
    (void)rc;
    return 0;
}
