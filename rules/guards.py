"""A3: guarded-field access rule, and helpers shared by the property modules."""
import json
import os
import re

from .engine import (CALLS, CTORS, HELD, MAYBE, UNOWNED, LockVal, LockAnalysis, WRAPPERS,
                     describe_cond_arm, handle_class, is_lock_carrier, is_mutex_type,
                     lock_class, path, strip_cvref, unwrap, callee_fq)
from .facts import short

VERIF = os.path.dirname(os.path.dirname(os.path.abspath(__file__)))


def load_table(name):
    return json.load(open(os.path.join(VERIF, "tables", name)))


# ----------------------------------------------------------------- lambdas
def lambda_site(fb, f):
    """(parent function, LambdaExpr statement) of a lambda call operator"""
    if not f.lambda_parent:
        return None, None
    par = f.unit.fn_by_id.get(f.lambda_parent)
    if par is None:
        return None, None
    from .inline import standalone, inline
    if not par.invalid and not standalone(par):
        # the enclosing function is itself judged only where it is inlined (a private helper, a closure that runs inside
        # an inlined helper): this closure is created in those inlined copies
        cache = f.unit.__dict__.setdefault("_lam_sites", {})
        if f.id not in cache:
            cache[f.id] = (par, None)
            for h in f.unit.functions:
                if h.invalid or not standalone(h):
                    continue
                v = inline(h)
                if v is h:
                    continue
                hit = [st for st in v.stmts.values() if st["k"] == "LambdaExpr" and f.id in st.get("call_ops", [])]
                if hit:
                    cache[f.id] = (v, hit[0])
                    break
        return cache[f.id]
    for st in par.stmts.values():
        if st["k"] == "LambdaExpr" and f.id in st.get("call_ops", []):
            return par, st
    return par, None


def lambda_use(par, lam):
    """how the closure object is used: ('call-arg', call stmt) when it is
    passed (possibly converted) directly as an argument of a call, which then
    runs it synchronously or not; ('other', stmt) otherwise"""
    cur = lam
    while True:
        p = par.par(cur)
        if p is None:
            return ("other", None)
        if p["k"] in WRAPPERS:
            cur = p
            continue
        if p["k"] in CTORS and len(p["args"]) == 1 and (
                strip_cvref(p["t"]) == strip_cvref(cur.get("t", "")) or
                p["t"].startswith("std::function<")):
            cur = p
            continue
        if p["k"] in CALLS or p["k"] in CTORS:
            return ("call-arg", p)
        return ("other", p)


def top_function(fb, f):
    g = f
    seen = 0
    while g is not None and g.is_lambda and seen < 8:
        p, _ = lambda_site(fb, g)
        if p is None:
            break
        g = p
        seen += 1
    return g


def helper_entry_state(eng, fb, f):
    """a private member function that takes lock objects by reference inherits, for each such
    parameter, the state it has at EVERY call site inside the class (calls on this)"""
    if f.access != "private" or f.kind in ("ctor", "dtor") or not f.rec:
        return None
    lps = [(i, p) for i, p in enumerate(f.params) if is_lock_carrier(p.get("type", "")) and p.get("ref")]
    if not lps:
        return None
    key = ("hes", f.unit.name, f.uid)
    if key in eng._summ:
        return eng._summ[key]
    eng._summ[key] = None
    states = {}
    ncalls = 0
    for g in f.unit.functions:
        if g.invalid or g is f:
            continue
        top = top_function(fb, g) if g.is_lambda else g
        if top is None or top.rec != f.rec:
            continue
        for st in g.stmts.values():
            if st["k"] == "CXXMemberCallExpr" and (st.get("callee") or {}).get("id") == f.id and \
                    path(g, g.s(st["obj"])) in ("this", "*this"):
                ncalls += 1
                la = locks_of(eng, fb, g)
                pos = g.pos_of(st)
                for i, p in lps:
                    a = g.s(st["args"][i]) if i < len(st["args"]) else None
                    k = la.key_of_expr(a) if a is not None else None
                    v = la.state_at(pos).get(k) if pos is not None else None
                    states.setdefault(p["name"], []).append(v)
    res = {}
    if ncalls:
        for name, vs in states.items():
            if vs and all(v is not None and v == vs[0] for v in vs):
                res["p:" + name] = vs[0]
    eng._summ[key] = res or None
    return eng._summ[key]


def locks_assuming(eng, fb, f, assume):
    """lock analysis of f restricted to the paths on which the immutable members in `assume` have the given
    values (lambdas inherit as in locks_of)"""
    key = ("assume", f.unit.name, f.uid, tuple(sorted(assume.items())))
    if key in eng._la:
        return eng._la[key]
    base = locks_of(eng, fb, f)
    la = LockAnalysis(eng, f, inherited=base.inherited, entry_state=base.entry_state, assume=assume)
    eng._la[key] = la
    return la


def locks_of(ctx_or_eng, fb, f):
    """lock analysis of f; for a lambda that is passed directly to a call, the
    locks held by the enclosing function at that call are inherited"""
    eng = ctx_or_eng
    if not f.is_lambda:
        es = helper_entry_state(eng, fb, f)
        if es:
            key = ("helper", f.unit.name, f.uid)
            if key not in eng._la:
                eng._la[key] = LockAnalysis(eng, f, entry_state=es)
            return eng._la[key]
        return eng.locks(f)
    key = ("lam", f.unit.name, f.uid)
    if key in eng._la:
        return eng._la[key]
    par, lam = lambda_site(fb, f)
    inherited = []
    if par is not None and lam is not None:
        use, call = lambda_use(par, lam)
        if use == "call-arg":
            pla = locks_of(eng, fb, par)
            pos = par.pos_of(call) or par.pos_of(lam)
            if pos is not None:
                for m, mode, _k in pla.held_at(pos):
                    inherited.append(LockVal(m, mode, HELD))
    la = LockAnalysis(eng, f, inherited)
    eng._la[key] = la
    return la


# ---------------------------------------------------------- field accesses
def field_refs(f, cls):
    """statements that denote a field of class template `cls`: MemberExpr nodes, and - in an inlined view - the uses
    of a helper parameter that was bound BY REFERENCE (or as a pointer) to such a field.  The binding itself
    (`helper(m_mutex, m_obj)` evaluates `m_obj` only to bind the reference) is not an access; the helper's uses of the
    parameter are, at the point and in the lock state where they happen."""
    from .engine import _ref_target
    alias = {}       # declaration id of an inlined parameter -> MemberExpr it is bound to
    binds = set()    # ids of MemberExpr nodes that only initialise such a parameter
    if getattr(f, "orig", None) is not None:
        for st in f.stmts.values():
            if st["k"] != "DeclStmt":
                continue
            for d in st["decls"]:
                if not d.get("inl") or not d.get("init"):
                    continue
                if not (d.get("ref") or d.get("type", "").rstrip().endswith("*")):
                    continue
                e = f.s(d["init"])
                amp = False
                while e is not None and (e["k"] in WRAPPERS or (e["k"] == "UnaryOperator" and e.get("op") == "&") or
                                         (e["k"] == "CallExpr" and callee_fq(e) in ("std::forward", "std::move", "std::addressof"))):
                    ch = f.children(e) if e["k"] != "CallExpr" else [f.s(e["args"][0])]
                    e = ch[0] if ch else None
                if e is not None and e["k"] == "MemberExpr" and e["m"].get("is_field") and e["m"].get("rec") == cls:
                    alias[d["id"]] = e
                    binds.add(e["id"])
    for st in f.stmts.values():
        if st["k"] == "MemberExpr":
            m = st["m"]
            if not m.get("is_field") or m.get("rec") != cls or st["id"] in binds:
                continue
            yield st
        elif alias and st["k"] == "DeclRefExpr" and st["d"].get("id") in alias:
            tgt = alias[st["d"]["id"]]
            v = type(st)(st)
            v["m"] = tgt["m"]
            v["base"] = tgt.get("base")
            v["arrow"] = tgt.get("arrow")
            v["via_param"] = st["d"].get("name")
            yield v


def class_functions(fb, cls, include_lambdas=True):
    """functions whose accesses belong to class `cls`: its methods and the
    lambdas (transitively) defined inside them"""
    for f in fb.functions():
        if f.rec == cls:
            yield f, f
        elif include_lambdas and f.is_lambda:
            top = top_function(fb, f)
            if top is not None and top is not f and top.rec == cls:
                yield f, top


READ_KINDS = ("read", "call-const", "bind-const", "sub-const", "addr-const")


def written_after_construction(fb, eng, cls, name):
    """sites outside constructors and destructor where member `name` of class `cls` is used other than read-only"""
    out = []
    for f, top in class_functions(fb, cls):
        if top.kind in ("ctor", "dtor"):
            continue
        for st in field_refs(f, cls):
            if st["m"]["name"] != name:
                continue
            acc, _u = effective_access(eng, f, st)
            if acc not in READ_KINDS:
                out.append(f.loc(st))
    return out


def effective_access(eng, f, st):
    """classify, following member-of-member chains down to the real use"""
    kind, user = eng.classify_access(f, st)
    depth = 0
    while kind == "sub" and user is not None and depth < 6:
        kind, user = eng.classify_access(f, user)
        depth += 1
    if kind == "sub-const":
        kind = "read"
    return kind, user


def check_guarded_fields(ctx, rid, cls, only_fields=None, doc=None, only_functions=None, skip_atomic=False,
                         assume_enabled=True, reads_exclusive=False, strict_atomic_stores=False):
    """A3 over every method of class template `cls`.  Emits one obligation per
    field reference.  Returns number of obligations."""
    fb, eng = ctx.fb, ctx.eng
    table = load_table("guards.json")["classes"]
    if cls not in table:
        ctx.broken("class %s is not in tables/guards.json" % cls)
    tab = table[cls]
    # every field of the class must be classified
    recs = list(fb.records(tmpl=cls))
    if not recs:
        ctx.broken("no instantiation of class %s found (anchor vanished)" % cls)
    tab = dict(tab)
    for r in recs:
        for fl in r.fields:
            if fl["name"] not in tab:
                # a member added after the table was written.  It is classified from its declaration where that is
                # enough (atomic, mutex, condition variable, const); any other member gets the lockset discipline of
                # Eraser: some mutex of the class must be held at EVERY access outside constructors and destructor
                # (exclusively at every write) - whichever mutex that is
                t = fl["type"]
                if re.match(r"^(const )?std::atomic(<|_)", t):
                    tab[fl["name"]] = {"kind": "atomic", "inferred": True}
                elif is_mutex_type(t):
                    tab[fl["name"]] = {"kind": "mutex", "inferred": True}
                elif "condition_variable" in t:
                    tab[fl["name"]] = {"kind": "condvar", "inferred": True}
                elif fl.get("const") or t.startswith("const "):
                    tab[fl["name"]] = {"kind": "immutable", "inferred": True}
                else:
                    tab[fl["name"]] = {"kind": "lockset", "inferred": True}
                ctx.note("field %s::%s is not in tables/guards.json; treated as '%s' from its declaration (%s)"
                         % (cls, fl["name"], tab[fl["name"]]["kind"], t[:60]))
    n = 0
    never_written = {}
    locksets = {}      # inferred field -> [(site, held set (mutex, mode), is write, top, inst)]
    requires = {}      # private helper id -> list of (guard path, mode, site, what)
    for f, top in class_functions(fb, cls):
        if top.kind in ("ctor", "dtor"):
            continue
        if only_functions is not None and top.name not in only_functions and top.kind != "conv" and top.access != "private":
            continue        # (private helpers stay in: what they need is checked at their callers, which may be selected)
        la = locks_of(eng, fb, f)
        opts = {"this." + e["opt"]: True for e in tab.values() if e.get("opt")}
        if opts and assume_enabled:
            # classes with optional locking promise exclusion only when it is enabled: judge the paths on which it is
            la = locks_assuming(eng, fb, f, opts)
        for st in field_refs(f, cls):
            name = st["m"]["name"]
            ent = tab.get(name)
            if only_fields is not None and name not in only_fields:
                continue
            base = path(f, f.s(st["base"]))
            site = f.loc(st)
            inst = f.qname
            if base not in ("this", "*this"):
                # field of ANOTHER object of the same class (swap, move assignment, merge): the same discipline with that
                # object's own mutex
                if base and re.match(r"^(p|l):[A-Za-z_][\w$]*$", base) and ent.get("kind") == "guarded" and ent.get("guard"):
                    pos = f.pos_of(st)
                    acc, _u = effective_access(eng, f, st)
                    need = ent["r"] if acc in READ_KINDS else ent["w"]
                    og = base + "." + ent["guard"]
                    ok = need != "never" and pos is not None and la.holds(pos, og, need)
                    ctx.ob(rid, ok, site, "access to %s of the other object is covered by that object's %s" % (name, ent["guard"]),
                           "" if ok else "needs %s in mode %s; held here: %s" % (og, need, _fmt_held(la, pos)), fn=top.label, inst=inst)
                    n += 1
                    continue
                if ent.get("kind") in ("mutex", "condvar", "immutable", "atomic", "selfsync", "protocol"):
                    continue
                ctx.ob(rid, False, site, "%s.%s accessed on an object other than this" % (cls, name),
                       "base path %s is not analysed" % base, fn=top.label, inst=inst)
                n += 1
                continue
            kind = ent["kind"]
            if kind == "atomic" and not re.match(r"^(const )?std::atomic(<|_)", st["m"].get("ftype", "")):
                # the table's claim "atomic" is about the declaration: a field that is (no longer) a std::atomic has no
                # unlocked access at all - every read and write needs its paired mutex
                if "guard" not in ent:
                    ctx.ob(rid, False, site, "%s is declared std::atomic (tables/guards.json: accessed without a lock)" % name,
                           "its type is %s and no mutex is associated with it" % st["m"].get("ftype"), fn=top.label, inst=inst)
                    n += 1
                    continue
                ent = dict(ent, kind="guarded", r="S", w=ent.get("w", "X"))
                kind = "guarded"
            if kind in ("mutex", "condvar", "selfsync", "protocol"):
                continue
            if kind == "guarded" and not ent.get("inferred") and re.match(r"^(const )?std::atomic(<|_)", st["m"].get("ftype", "")) and \
                    not ent.get("atomic_ok"):
                # tabled as a plain member under a mutex, declared std::atomic now: unlocked accesses are no data race any
                # more, and whether the new lock-free protocol is right is not what this table can say
                ctx.unknown("%s: %s::%s is tabled as guarded by %s but is declared %s now: its lock discipline is no longer described "
                            "by tables/guards.json" % (rid, cls.split("::")[-1], name, ent.get("guard"), st["m"].get("ftype")))
                continue
            pos = f.pos_of(st)
            acc, user = effective_access(eng, f, st)
            if kind == "lockset":
                held = set((m, mo) for m, mo, _k in la.held_at(pos)) if pos is not None else set()
                locksets.setdefault(name, []).append((site, held, acc not in READ_KINDS, top, inst))
                continue
            if kind == "immutable":
                ok = acc in READ_KINDS
                ctx.ob(rid, ok, site, "%s is never written after construction" % name,
                       "" if ok else "use kind '%s' in %s" % (acc, top.name), fn=top.label, inst=inst)
                n += 1
                continue
            if kind == "atomic":
                if "guard" not in ent or skip_atomic:
                    continue
                # atomic with a paired mutex: modifications need the mutex
                if acc in READ_KINDS:
                    continue
                if acc in ("call", "write") and _atomic_call_is_load(f, user):
                    continue
                need = ent.get("w", "X")
                guard = "this." + ent["guard"]
                ok = pos is not None and la.holds(pos, guard, need)
                if not ok and not strict_atomic_stores and pos is not None:
                    # publish-then-lock: the flag is written first and the paired mutex is taken AFTERWARDS (to notify under
                    # it).  A waiter checks the flag and starts waiting in one critical section of that mutex, so it either
                    # sees the new value or is already waiting when the writer gets the mutex - no wake-up is lost.
                    ok = any(ev[2].mutex == guard and ev[3] is True and f.reach_avoiding(tuple(pos), tuple(ev[0]), [])
                             and not f.exits_avoiding(tuple(pos), [tuple(ev[0])]) for ev in la.acquire_events) or \
                        (any(ev[2].mutex == guard and ev[3] is True and f.reach_avoiding(tuple(pos), tuple(ev[0]), [])
                             for ev in la.acquire_events) and acc in ("call", "write") and
                         user is not None and (user.get("callee") or {}).get("name") in ("exchange", "compare_exchange_strong", "compare_exchange_weak", "fetch_or"))
                ctx.ob(rid, ok, site, "modification of atomic %s happens with %s held (or the mutex is taken right after it, before "
                       "the waiters are notified)" % (name, ent["guard"]),
                       "" if ok else "held here: %s" % _fmt_held(la, pos), fn=top.label, inst=inst)
                n += 1
                continue
            # kind == guarded
            guard = "this." + ent["guard"]
            what = "access to %s is covered by %s" % (name, ent["guard"])
            # (iv) optional locking switched off by contract
            if ent.get("opt"):
                arm = describe_cond_arm(f, st, "this." + ent["opt"])
                if arm is False:
                    ok, detail = _check_disabled_arm(eng, f, la, st, acc, user, ent)
                    ctx.ob(rid, ok, site, "disabled-locking arm hands out %s with a non-owning lock and "
                           "does not touch the mutex" % name, detail, fn=top.label, inst=inst)
                    n += 1
                    continue
            need = ent["r"] if acc in READ_KINDS else ent["w"]
            if reads_exclusive and need == "S":
                need = "X"      # a wrapper that promises one thread at a time for ANY access (C01: guarded, guarded_opt)
            if ent.get("w") == "never":
                # a member that today is set by the constructors only.  While that stays so it can be read anywhere; once
                # some member writes it, it is a guarded member like the others (writes exclusive, reads as tabled)
                if name not in never_written:
                    never_written[name] = written_after_construction(fb, eng, cls, name)
                if not never_written[name]:
                    ctx.ob(rid, True, site, "%s is never written after construction: it can be read without %s" % (name, ent["guard"]),
                           "", fn=top.label, inst=inst)
                    n += 1
                    continue
                if need == "never":
                    need = "X"
            ok = False
            detail = ""
            # (ii) escape into a handle / try helper locked on the same guard
            hs = _handle_escape(eng, f, la, st, acc, user)
            if hs is not None:
                ok, detail = _check_handle_escape(eng, f, la, hs, guard, need, acc)
            elif acc in ("addr", "bind") and user is not None and user["k"] == "ReturnStmt":
                ok, detail = False, "a reference/pointer to %s is returned without a handle" % name
            elif acc == "addr" or acc == "addr-const":
                # address taken for something that is not a handle
                ok = pos is not None and la.holds(pos, guard, need)
                detail = "" if ok else "address of %s escapes to %s without %s held (%s)" % (
                    name, user["k"] if user else "?", ent["guard"], _fmt_held(la, pos))
            else:
                ok = pos is not None and la.holds(pos, guard, need)
                if not ok and pos is not None:
                    w = _thread_witness(ctx, cls, f, pos, guard, need)
                    if w:
                        ok, what = True, what + " (" + w + ")"
                if not ok:
                    detail = "needs %s in mode %s; held here: %s" % (ent["guard"], need, _fmt_held(la, pos))
            if not ok and top.access == "private" and hs is None:
                # A2(b): precondition of a private helper, checked at its callers
                requires.setdefault(top.id, []).append((guard, need, site, what, top, inst))
                continue
            ctx.ob(rid, ok, site, what, detail, fn=top.label, inst=inst)
            n += 1
    n += _co_update(ctx, rid, cls, tab)
    n += _blind_stores(ctx, rid, cls, tab)
    # inferred fields: the intersection of the locks held over all accesses must not be empty
    for name, accs in locksets.items():
        writes = [a for a in accs if a[2]]
        if not writes:
            ctx.ob(rid, True, accs[0][0], "new member %s is never written after construction" % name, "", fn=accs[0][3].label, inst=accs[0][4])
            n += 1
            continue
        common = None
        for site, held, is_w, top, inst in accs:
            cand = {m for m, mo in held if (mo == "X" or not is_w)}
            common = cand if common is None else (common & cand)
        for site, held, is_w, top, inst in accs:
            cand = {m for m, mo in held if (mo == "X" or not is_w)}
            ok = bool(common)
            ctx.ob(rid, ok, site, "new member %s is accessed under one and the same mutex everywhere%s" % (
                name, " (%s)" % ", ".join(sorted(c[5:] for c in common)) if common else ""),
                "" if ok else "no mutex is held at every access of %s (here: %s): the member is written by one thread while "
                "another reads or writes it" % (name, ", ".join(sorted(c[5:] for c in cand)) or "nothing"), fn=top.label, inst=inst)
            n += 1
    # callers of private helpers
    for hid, reqs in requires.items():
        helper = reqs[0][4]
        callers = 0
        needs = {(g, m) for g, m, _s, _w, _t, _i in reqs}
        for f, top in class_functions(fb, cls):
            if f.unit is not helper.unit:
                continue
            la = None
            for st in f.stmts.values():
                if st["k"] not in CALLS:
                    continue
                c = st.get("callee")
                if not c or c["id"] != hid:
                    continue
                callers += 1
                if la is None:
                    la = locks_of(eng, fb, f)
                pos = f.pos_of(st)
                obj = path(f, f.s(st.get("obj"))) if st.get("obj") else None
                for g, m in sorted(needs):
                    ok = obj in ("this", "*this") and pos is not None and la.holds(pos, g, m)
                    if not ok and top.id == hid:
                        continue
                    if not ok and top.access == "private" and top.id != hid and obj in ("this", "*this"):
                        # propagate one more level
                        requires_up = [(g, m, f.loc(st), "", top, f.qname)]
                        ok2 = _callers_hold(ctx, cls, top, g, m)
                        ctx.ob(rid, ok2, f.loc(st), "private helper %s is only called with %s held in mode %s"
                               % (helper.name, g, m), "" if ok2 else "reached through %s without the lock" % top.name,
                               fn=top.label, inst=f.qname)
                        n += 1
                        continue
                    ctx.ob(rid, ok, f.loc(st),
                           "private helper %s is only called with %s held in mode %s" % (helper.name, g[5:], m),
                           "" if ok else "held at the call: %s" % _fmt_held(la, pos), fn=top.label, inst=f.qname)
                    n += 1
        if callers == 0:
            for g, m, site, what, top, inst in reqs:
                ctx.ob(rid, False, site, what, "unguarded access in private %s which has no caller to inherit "
                       "the lock from" % top.name, fn=top.label, inst=inst)
                n += 1
    return n


def _callers_hold(ctx, cls, helper, g, m):
    fb, eng = ctx.fb, ctx.eng
    found = False
    for f, top in class_functions(fb, cls):
        if f.unit is not helper.unit:
            continue
        for st in f.stmts.values():
            if st["k"] in CALLS and (st.get("callee") or {}).get("id") == helper.id:
                found = True
                la = locks_of(eng, fb, f)
                pos = f.pos_of(st)
                if not (pos is not None and la.holds(pos, g, m)):
                    return False
    return found


SIZE_CHANGING = ("emplace", "emplace_back", "emplace_front", "emplace_hint", "try_emplace", "insert", "insert_or_assign", "erase", "extract",
                 "push_back", "push_front", "pop_back", "pop_front", "clear", "operator[]", "resize", "merge", "swap", "assign")


def _co_update(ctx, rid, cls, tab):
    """a member added later that is written in (at least two) operations which all change the number of entries of one
    guarded container, and nowhere else, is bookkeeping ABOUT that container (a size, a version, a dirty flag): then every
    operation that changes the container's size has to maintain it.  The evidence (who writes it today) is in the report."""
    fb, eng = ctx.fb, ctx.eng
    new = [k for k, e in tab.items() if e.get("inferred") and e["kind"] in ("atomic", "lockset")]
    if not new:
        return 0
    containers = [k for k, e in tab.items() if e.get("kind") == "guarded" and not e.get("inferred")]
    writers = {k: {} for k in new}         # field -> {function name: site}
    wsites = {k: [] for k in new}          # field -> [(site, held mutexes, top, inst)]
    changers = {c: {} for c in containers}
    for f, top in class_functions(fb, cls):
        if top.kind in ("ctor", "dtor"):
            continue
        for st in field_refs(f, cls):
            nm = st["m"]["name"]
            if nm in writers:
                acc, user = effective_access(eng, f, st)
                is_load = acc in READ_KINDS or _atomic_call_is_load(f, user)
                if not is_load:
                    writers[nm].setdefault(top.name, f.loc(st))
                    la_ = locks_of(eng, fb, f)
                    pos_ = f.pos_of(st)
                    wsites[nm].append((f.loc(st), {m for m, mo, _k in la_.held_at(pos_)} if pos_ else set(), top, f.qname))
            if nm in changers:
                par = f.par(st)
                while par is not None and (par["k"] in WRAPPERS or (par["k"] == "MemberExpr" and not par["m"].get("is_field"))):
                    par = f.par(par)
                c = (par or {}).get("callee") or {}
                if par is not None and par["k"] in CALLS and (c.get("name") in SIZE_CHANGING or par.get("op") == "[]"):
                    changers[nm].setdefault(top.name, (f.loc(par), top, f.qname))
    n = 0
    for fld, ws in writers.items():
        if len(ws) < 2:
            continue
        fits = [(len(set(ch) - set(ws)), c) for c, ch in changers.items() if set(ws) <= set(ch)]
        if not fits:
            continue
        best = min(fits)
        if sum(1 for x in fits if x[0] == best[0]) > 1:
            ctx.note("new member %s is written together with size changes of several containers (%s): not attributed to one"
                     % (fld, ", ".join(c for _n, c in fits)))
            continue
        # the bookkeeping changes in the same critical section as the container it describes
        g = "this." + tab[best[1]]["guard"] if tab[best[1]].get("guard") else None
        own = None
        for _s, held, _t, _i in wsites[fld]:
            own = set(held) if own is None else (own & set(held))
        if g and own and (own - {g}):
            # the member has a mutex of its own at every write (the lockset rule judges that discipline): it is state with
            # its own critical sections - a scratch buffer, a cache - not a description of the container's current content
            ctx.note("new member %s is written under %s everywhere: not treated as bookkeeping of %s"
                     % (fld, ", ".join(sorted(x[5:] for x in own - {g})), best[1]))
            continue
        if g:
            for site, held, top, inst in wsites[fld]:
                ok = g in held
                ctx.ob(rid, ok, site, "%s is updated inside the critical section (%s) in which %s changes" % (fld, g[5:], best[1]),
                       "" if ok else "%s is written here without %s: the value describes a state of %s that other threads may already "
                       "have changed (a stale count overwrites a newer one)" % (fld, g[5:], best[1]), fn=top.label, inst=inst)
                n += 1
        # a container that runs parallel to another one (one entry per entry) follows every REARRANGEMENT of it: where the
        # elements of the described container are moved around (remove_if / sort / partition / element assignment), the
        # parallel entries are moved the same way - cutting the tail to the new length leaves them attached to the wrong elements
        REARR = ("std::remove_if", "std::remove", "std::sort", "std::stable_sort", "std::unique", "std::partition",
                 "std::stable_partition", "std::rotate", "std::reverse")
        if any(fl_["name"] == fld and re.match(r"^std::(vector|deque)<", fl_["type"]) for r_ in fb.records(tmpl=cls) for fl_ in r_.fields):
            for f, top in class_functions(fb, cls):
                if top.kind in ("ctor", "dtor"):
                    continue
                def rearranged(name):
                    for s_ in f.stmts.values():
                        if s_["k"] == "CallExpr" and callee_fq(s_) in REARR and any(
                                d["k"] == "MemberExpr" and d["m"].get("name") == name and d["m"].get("is_field")
                                for a_ in s_["args"] for d in f.descendants(f.s(a_))):
                            return s_
                        if s_["k"] == "CXXOperatorCallExpr" and s_.get("op") == "=" and s_["args"]:
                            l_ = unwrap(f, f.s(s_["args"][0]))
                            if l_ is not None and l_["k"] == "CXXOperatorCallExpr" and l_.get("op") == "[]" and l_["args"] and \
                                    path(f, f.s(l_["args"][0])) == "this." + name:
                                return s_
                    return None
                rc = rearranged(best[1])
                if rc is None:
                    continue
                rb = rearranged(fld)
                ctx.ob(rid, rb is not None, f.loc(rc), "%s is rearranged together with %s" % (fld, best[1]),
                       "" if rb is not None else "%s moves the elements of %s around here but only adjusts the LENGTH of %s: after a "
                       "removal from the middle the remaining entries carry the bookkeeping of their former neighbours"
                       % (top.name, best[1], fld), fn=top.label, inst=f.qname)
                n += 1
        for c, ch in changers.items():
            if c != best[1]:
                continue
            for fn, (site, top, inst) in sorted(ch.items()):
                ok = fn in ws
                ctx.ob(rid, ok, site, "%s is kept in step with %s by every operation that changes the number of its entries" % (fld, c),
                       "" if ok else "%s changes the size of %s but does not update %s, which %s do: the bookkeeping drifts away from "
                       "the container (counts entries that are not there, or reports 'empty' while objects are stored)"
                       % (fn, c, fld, " and ".join(sorted(ws))), fn=top.label, inst=inst)
                n += 1
    return n


def _atomic_call_is_load(f, user):
    if user is None or user["k"] not in CALLS:
        return False
    c = user.get("callee") or {}
    return c.get("name") in ("load",) or c.get("kind") == "conv"


def _thread_witness(ctx, cls, f, pos, guard, need):
    """`if (t_current == this) { ...m_obj... }` without the lock: sound when the thread-local variable is a WITNESS that this
    thread already holds the guard - it is written by the constructor and the destructor of one RAII marker class and by
    nothing else, every marker is constructed with `this` while the guard is held (in the needed mode) and is declared
    after the lock object, so it is destroyed - also on unwinding - before the lock is released.  Returns a text when the
    access at `pos` is covered that way, None otherwise."""
    from .flow import cond_atoms
    fb, eng = ctx.fb, ctx.eng
    wit = None
    for b, blk in f.blocks.items():
        if not (blk.term and blk.term.get("cond") and len(blk.succs) == 2 and blk.succs[0] is not None):
            continue
        if not (f.dominates_block(blk.succs[0], pos[0]) and len(f.blocks[blk.succs[0]].preds) == 1):
            continue
        for a in cond_atoms(f, f.s(blk.term["cond"]), True):
            if a[0] == "eq" and a[3] is True and {a[1], a[2]} & {"this"} and any(isinstance(x, str) and x.startswith("g:") for x in (a[1], a[2])):
                cond = a[4]
                for d in f.descendants(cond):
                    if d["k"] == "DeclRefExpr" and d["d"].get("tls") and d["d"].get("k") in ("static_member", "global", "static_local"):
                        wit = d["d"]
    if wit is None:
        return None
    # every store to the witness: inside the constructor / destructor of a marker class
    markers = set()
    for g in fb.functions(raw=True):
        for st in g.stmts.values():
            tgt = None
            if st["k"] == "BinaryOperator" and st.get("op") == "=":
                tgt = unwrap(g, g.children(st)[0])
            elif st["k"] in ("UnaryOperator", "CompoundAssignOperator") and st.get("op") in ("++", "--", "+=", "-="):
                tgt = unwrap(g, g.children(st)[0])
            if tgt is None or tgt["k"] != "DeclRefExpr" or tgt["d"].get("id") != wit["id"]:
                continue
            if g.kind not in ("ctor", "dtor") or not g.rec or g.rec == cls:
                return None         # written by ordinary code: a throw can leave it set
            if g.kind == "ctor":
                rhs = path(g, g.children(st)[1])
                if not (rhs and rhs.startswith("p:")):
                    return None
            markers.add(g.recq if hasattr(g, "recq") else g.rec)
    if len(markers) != 1:
        return None
    marker = list(markers)[0]
    # every marker object: constructed with `this`, guard held in the needed mode, declared after the lock object
    n = 0
    for g in fb.functions(rec=cls, raw=True):
        la = None
        for st in g.stmts.values():
            if st["k"] != "DeclStmt":
                continue
            for d in st["decls"]:
                if d.get("type", "").replace("class ", "") != marker and not d.get("type", "").endswith("::" + marker.split("::")[-1]):
                    continue
                init = unwrap(g, g.s(d.get("init")))
                arg = path(g, g.s(init["args"][0])) if init is not None and init.get("args") else None
                la = la or locks_of(eng, fb, g)
                p = g.pos_of(st)
                if arg != "this" or p is None or not la.holds(p, guard, need):
                    return None
                n += 1
    if n == 0:
        return None
    return "the calling thread already holds %s: %s == this is set only by the RAII marker %s, constructed under the lock in %d place(s)" \
        % (guard[5:], wit["name"], marker.split("::")[-1], n)


def _blind_stores(ctx, rid, cls, tab):
    """a NEW atomic member that is counted up and down with read-modify-write operations and ALSO overwritten with a
    plain store (`n = 0`, `n.store(k)`): the store erases every increment that happened since the value it is based on was
    read, unless one mutex is held at the store and at each of those increments.  (Members that existed when the tables
    were written have their protocol described there.)"""
    from .engine import atomic_ops, atomic_field_of
    fb, eng = ctx.fb, ctx.eng
    names = [nm for nm, e in tab.items() if e.get("kind") == "atomic" and e.get("inferred")]
    n = 0
    for name in names:
        rmws, stores = [], []
        for f, top in class_functions(fb, cls):
            if top.kind in ("ctor", "dtor"):
                continue
            la = None
            for op in atomic_ops(f):
                if atomic_field_of(f, op) != (cls, name):
                    continue
                pos = f.pos_of(op["st"])
                la = la or locks_of(eng, fb, f)
                held = {m for m, mo, _k in la.held_at(pos) if mo == "X"} if pos is not None else set()
                if op["op"] == "rmw" and op["name"] in ("operator++", "operator--", "fetch_add", "fetch_sub", "operator+=", "operator-="):
                    rmws.append((f, top, op, held))
                elif op["op"] == "store":
                    stores.append((f, top, op, held))
        for f, top, op, held in stores:
            loose = [(g, o) for g, _t, o, h in rmws if not (h & held)]
            ok = not loose
            n += 1
            ctx.ob(rid, ok, f.loc(op["st"]), "the plain store to the new counter %s cannot erase a concurrent increment" % name,
                   "" if ok else "%s is %s at %s with no mutex in common with this store (held here: %s): an update made "
                   "between the moment this value was decided and the store is lost, and whatever the counter steers goes wrong"
                   % (name, loose[0][1]["name"].replace("operator", ""), loose[0][0].loc(loose[0][1]["st"]),
                      ", ".join(sorted(h[5:] for h in held)) or "nothing"), fn=top.label, inst=f.qname)
    return n


def _fmt_held(la, pos):
    if pos is None:
        return "?"
    h = la.held_at(pos)
    if not h:
        return "nothing"
    return ", ".join("%s(%s)" % (m, mode) for m, mode, _ in h)


def _handle_escape(eng, f, la, st, acc, user):
    """if the field's address/reference is the data argument of a handle
    constructor or of a try_lock_*handle helper, return that call"""
    if acc not in ("addr", "addr-const", "bind", "bind-const") or user is None:
        return None
    cur = user
    # climb from the '&field' expression to the call it is an argument of
    while cur is not None and (cur["k"] in WRAPPERS or cur["k"] == "UnaryOperator" or
                               (cur["k"] == "CallExpr" and callee_fq(cur) == "std::addressof")):
        cur = f.par(cur)
    if cur is None:
        return None
    if cur["k"] in CTORS and handle_class(cur.get("t", "")):
        return cur
    if cur["k"] == "CallExpr":
        fq = callee_fq(cur)
        if fq.startswith("gmlc::libguarded::try_lock_") and "handle" in fq:
            return cur
    return None


def _check_handle_escape(eng, f, la, call, guard, need, acc):
    args = [f.s(a) for a in call["args"]]
    if len(args) < 2:
        return False, "handle built without a lock argument"
    t = call.get("t", "")
    mode = eng.handle_mode(t)
    hc = handle_class(t)
    if need == "X" and hc == "shared_lock_handle" and acc not in ("addr-const", "bind-const"):
        return False, "mutable pointer handed to a shared handle"
    if need == "X" and mode != "X":
        return False, "exclusive access required but the handle's lock type is shared"
    a1 = args[1]
    ptypes = call["callee"].get("params", [])
    if len(args) > 2 and call["k"] in CTORS:
        r = eng.handle_ctor_lock(f, la, call, f.pos_of(call))
        if r is None:
            return False, "cannot read what this handle constructor does with its lock"
        v = r[0]
        if v.mutex != guard:
            return False, "handle locks %s, not the object's own %s" % (v.mutex, guard[5:])
        if v.st == UNOWNED:
            return False, "handle is built with a lock that does not own %s" % guard[5:]
        if r[1] == "adopt" and not la.holds(f.pos_of(call), guard, need):
            return False, "handle adopts %s, which is not held here" % guard[5:]
        return True, ""
    if len(ptypes) > 1 and is_mutex_type(ptypes[1]):
        mp = path(f, a1)
        r = eng.handle_ctor_lock(f, la, call, f.pos_of(call)) if call["k"] in CTORS else None
        if r is not None and r[0].st != HELD:
            return False, "the handle constructor does not (always) lock %s any more: its lock is %s after construction" % (mp, r[0].st)
        if mp == guard:
            return True, ""
        return False, "handle locks %s, not the object's own %s" % (mp, guard[5:])
    # lock object argument: its state just before the call
    pos = f.pos_of(call)
    v = eng._lock_value(f, la, a1, pos)
    if v is None:
        return False, "cannot determine the lock object passed to the handle"
    if v.mutex != guard:
        return False, "handle adopts a lock on %s, not on %s" % (v.mutex, guard[5:])
    if v.st == UNOWNED:
        return False, "handle adopts a lock object that does not own %s" % guard[5:]
    return True, ""


def _check_disabled_arm(eng, f, la, st, acc, user, ent):
    """in the enabled==false arm: the handle must be built from &m_obj and a
    default-constructed lock, and the arm must not name the mutex"""
    call = _handle_escape(eng, f, la, st, acc, user)
    if call is None:
        # with locking switched off the class promises no exclusion at all (the property speaks about the enabled case):
        # any use of the object on this arm is the caller's own responsibility
        return True, ""
    if call["k"] not in CTORS:
        return False, "disabled arm calls a locking helper"
    args = [f.s(a) for a in call["args"]]
    if len(args) > 2:
        r = eng.handle_ctor_lock(f, la, call, f.pos_of(call)) or eng.handle_ctor_lock(f, eng.locks(f), call, f.pos_of(call))
        if r is None:
            return False, "cannot read what this handle constructor does with its lock"
        if r[0].st != UNOWNED:
            return False, "the handle built in the disabled arm %s %s" % (
                "adopts (and later unlocks)" if r[1] == "adopt" else "locks", r[0].mutex)
        return True, ""
    a1 = unwrap(f, args[1]) if len(args) > 1 else None
    # the by-value parameter is move-constructed from the temporary
    while a1 is not None and a1["k"] in CTORS and len(a1["args"]) == 1:
        a1 = unwrap(f, f.s(a1["args"][0]))
    if a1 is None:
        return False, "no lock argument"
    if a1["k"] in CTORS and not a1["args"] and lock_class(a1.get("t", "")):
        pass
    elif a1["k"] == "InitListExpr" and not a1.get("ch"):
        pass
    else:
        # any lock object that owns nothing at this point (a default-constructed local that is moved in, a deferred lock)
        # (la may have been computed under the assumption that locking is enabled, where this arm is dead code)
        v = eng._lock_value(f, la, args[1], f.pos_of(call)) or eng._lock_value(f, eng.locks(f), args[1], f.pos_of(call))
        if v is None or v.st != UNOWNED:
            return False, "lock argument in the disabled arm is not a lock that owns nothing (%s, state %s)" % (
                a1["k"], v.st if v is not None else "unknown")
        return True, ""
    for d in f.descendants(call):
        if d["k"] == "MemberExpr" and d["m"]["name"] == ent["guard"]:
            return False, "disabled arm references the mutex"
    return True, ""
