"""Check driver: extraction (cached by content hash), rule execution,
evidence, exit codes.   ./check <Cnn> [--tier quick|thorough]

exit 0  every obligation discharged
exit 1  >= 1 violation ('VIOLATION property=<id> replay=<path>' per failing site)
exit 2  analysis broken (anchor vanished, floor not reached, extractor failure,
        positive control silent) - never a pass, never a violation
"""
import argparse
import glob
import hashlib
import importlib
import json
import os
import re
import shutil
import subprocess
import sys
import time
from concurrent.futures import ThreadPoolExecutor

VERIF = os.path.dirname(os.path.dirname(os.path.abspath(__file__)))
REPO = os.environ.get("VERIF_REPO", "/repo")
CACHE = os.environ.get("VERIF_CACHE", os.path.join(VERIF, ".cache"))
EXTRACT = os.path.join(VERIF, "bin", "gmlc-extract")
EXTRACT_SRC = os.path.join(VERIF, "extractor", "gmlc_extract.cc")

from .facts import FactBase, short  # noqa: E402
from .engine import Engine  # noqa: E402


class Broken(Exception):
    pass


# ------------------------------------------------------------------ units
def repo_headers():
    return sorted(glob.glob(os.path.join(REPO, "gmlc", "**", "*.hpp"), recursive=True))


def _sha(paths, extra=""):
    h = hashlib.sha256()
    h.update(extra.encode())
    for p in paths:
        h.update(p.encode())
        try:
            with open(p, "rb") as fh:
                h.update(fh.read())
        except OSError:
            h.update(b"<missing>")
    return h.hexdigest()[:20]


def build_extractor():
    """(re)build bin/gmlc-extract when missing or older than its source"""
    if os.path.exists(EXTRACT) and os.path.getmtime(EXTRACT) >= os.path.getmtime(EXTRACT_SRC):
        return
    os.makedirs(os.path.dirname(EXTRACT), exist_ok=True)
    cxxflags = subprocess.check_output(["llvm-config-14", "--cxxflags"], text=True).split()
    cmd = ["clang++"] + cxxflags + ["-fno-rtti", EXTRACT_SRC, "-o", EXTRACT + ".tmp",
                                    "/usr/lib/llvm-14/lib/libclang-cpp.so.14",
                                    "/usr/lib/llvm-14/lib/libLLVM-14.so"]
    r = subprocess.run(cmd, stdout=subprocess.PIPE, stderr=subprocess.STDOUT, text=True)
    if r.returncode != 0:
        raise Broken("cannot build the extractor:\n" + r.stdout[-2000:])
    os.replace(EXTRACT + ".tmp", EXTRACT)


def unit_specs(tier):
    """list of (name, source file, flags, roots)"""
    inc = ["-std=c++17", "-I" + os.path.join(REPO, "gmlc"), "-UNDEBUG"]
    drv = os.path.join(VERIF, "drivers", "inst.cpp")
    units = [("inst_vp0", drv, inc + ["-DVP=0"], [os.path.join(REPO, "gmlc")]),
             ("inst_vp1", drv, inc + ["-DVP=1"], [os.path.join(REPO, "gmlc")]),
             ("fixtures", os.path.join(VERIF, "fixtures", "fx.cpp"),
              ["-std=c++17", "-UNDEBUG", "-I" + os.path.join(VERIF, "fixtures")],
              [os.path.join(VERIF, "fixtures")])]
    if tier == "thorough":
        for vp in (2, 3, 4):
            units.append(("inst_vp%d" % vp, drv, inc + ["-DVP=%d" % vp], [os.path.join(REPO, "gmlc")]))
        units.append(("inst_vp2_tripwire", drv, inc + ["-DVP=2", "-DENABLE_TRIPWIRE"],
                      [os.path.join(REPO, "gmlc")]))
        tinc = inc + ["-I" + os.path.join(REPO, "ThirdParty"),
                      "-isystem", os.path.join(REPO, "ThirdParty/googletest/googletest/include"),
                      "-isystem", os.path.join(REPO, "ThirdParty/googletest/googlemock/include"),
                      "-I" + os.path.join(REPO, "tests")]
        tests = sorted(glob.glob(os.path.join(REPO, "tests", "*.cpp")) +
                       glob.glob(os.path.join(REPO, "tests", "libguarded", "*.cpp")))
        for t in tests:
            nm = "test_" + os.path.basename(t)[:-4]
            units.append((nm, t, tinc, [os.path.join(REPO, "gmlc")]))
    return units


def extract_units(tier, log):
    build_extractor()
    specs = unit_specs(tier)
    hdrs = repo_headers()
    if not hdrs:
        raise Broken("no headers found under %s/gmlc" % REPO)
    base = _sha(hdrs + [EXTRACT], "v1")
    out = []
    jobs = []
    os.makedirs(CACHE, exist_ok=True)
    for name, src, flags, roots in specs:
        if not os.path.exists(src):
            raise Broken("unit source missing: " + src)
        extra = sorted(glob.glob(os.path.join(os.path.dirname(src), "*.h*")))
        key = _sha([src] + extra, base + " ".join(flags))
        d = os.path.join(CACHE, "facts", key)
        path = os.path.join(d, name + ".json")
        out.append((name, path, src))
        if os.path.isdir(d):
            try:
                os.utime(d, None)
            except OSError:
                pass
        if not os.path.exists(path):
            jobs.append((name, src, flags, roots, d, path))

    def run(job):
        name, src, flags, roots, d, path = job
        os.makedirs(d, exist_ok=True)
        tmp = path + ".tmp.%d" % os.getpid()
        cmd = [EXTRACT, "-o", tmp]
        for r in roots:
            cmd += ["--root", r]
        cmd += [src, "--"] + flags
        r = subprocess.run(cmd, stdout=subprocess.PIPE, stderr=subprocess.STDOUT, text=True)
        if not os.path.exists(tmp):
            return (name, "extractor produced no output: " + r.stdout[-1500:])
        os.replace(tmp, path)
        return (name, None)

    t0 = time.time()
    if jobs:
        with ThreadPoolExecutor(max_workers=min(16, len(jobs))) as ex:
            for name, err in ex.map(run, jobs):
                if err:
                    raise Broken("unit %s: %s" % (name, err))
    log["extraction"] = dict(units=len(specs), extracted_now=len(jobs),
                             seconds=round(time.time() - t0, 2))
    _prune_cache(keep={os.path.dirname(p) for _, p, _ in out})
    return out


def _prune_cache(keep, limit=10, min_age_s=1800):
    """drop old fact directories; never one that another (concurrent) run may still be reading"""
    root = os.path.join(CACHE, "facts")
    if not os.path.isdir(root):
        return
    now = time.time()
    ds = [os.path.join(root, d) for d in os.listdir(root)]
    ds = [d for d in ds if d not in keep]
    try:
        ds.sort(key=lambda d: os.path.getmtime(d))
    except OSError:
        return
    for d in ds[:-limit] if len(ds) > limit else []:
        try:
            if now - os.path.getmtime(d) > min_age_s:
                shutil.rmtree(d, ignore_errors=True)
        except OSError:
            pass


# ------------------------------------------------------------- obligations
class Ctx:
    """what a rule module sees"""

    def __init__(self, prop, tier, fb, eng, fx, known):
        self.prop = prop
        self.tier = tier
        self.fb = fb            # facts of the repository units
        self.eng = eng
        self.fx = fx            # (FactBase, Engine) of the fixture unit
        self.obs = []           # all obligations
        self.rule_doc = {}
        self.floors = {}
        self.notes = []
        self.known = known
        self.skipped = []
        self.broken_msgs = []

    def rule(self, rid, doc, floor=1):
        self.rule_doc[rid] = doc
        self.floors[rid] = floor

    def ob(self, rid, ok, site, what, detail="", fn=None, inst=None, path=None):
        """record one obligation. ok: True / False"""
        self.obs.append(dict(rule=rid, ok=bool(ok), site=site, what=what, detail=detail,
                             fn=fn or "", inst=inst or "", path=path or []))
        return ok

    def broken(self, msg):
        raise Broken(msg)

    def unknown(self, msg):
        """a construct the rule cannot interpret: analysis broken (exit 2) unless something else is a violation;
        the rule goes on"""
        if msg not in self.broken_msgs:
            self.broken_msgs.append(msg)

    def step(self, fn, *a, **kw):
        """run one rule; a rule that finds its anchor gone / shape unrecognisable
        is recorded as broken and the other rules still run"""
        from .rcu import Unresolved
        try:
            return fn(*a, **kw)
        except Broken as e:
            self.broken_msgs.append(str(e))
            return None
        except Unresolved as e:
            if str(e) not in self.broken_msgs:
                self.broken_msgs.append(str(e))
            return None

    def note(self, msg):
        if msg not in self.notes:
            self.notes.append(msg)


def load_known():
    known = []
    p = os.path.join(VERIF, "known_findings.txt")
    if os.path.exists(p):
        for line in open(p):
            line = line.strip()
            if line.startswith("known:"):
                m = re.match(r"known:\s+property=(\S+)\s+rule=(\S+)\s+site=(\S+)\s*(.*)", line)
                if m:
                    known.append(dict(prop=m.group(1), rule=m.group(2), site=m.group(3),
                                      text=m.group(4)))
    return known


def _explained_by_chain(u, d, allowed):
    pats = {}
    for p_ in u.patterns:
        pats.setdefault(p_["file"], []).append((p_["line"], p_["name"]))
    for v in pats.values():
        v.sort()
    locs = []
    for n in d["notes"]:
        m = re.match(r"^(.*?):(\d+): in instantiation of", str(n))
        if m:
            locs.append((m.group(1), int(m.group(2))))
    for fpath, ln in locs:
        lst = pats.get(fpath)
        if not lst:
            continue
        owner = None
        for pl, nm in lst:
            if pl <= ln:
                owner = nm
            else:
                break
        for a in allowed:
            if short(fpath).endswith(a["file"]) and owner == a["name"]:
                return a
    return None


def check_diagnostics(fb, ctx):
    """errors outside member instantiations mean the headers do not parse: broken.
    errors inside an instantiation mark that member uninstantiable."""
    tab = json.load(open(os.path.join(VERIF, "tables", "uninstantiable.json")))
    allowed = tab["members"]
    for u in fb.units:
        for d in u.errors():
            f = short(d["file"])
            if u.name == "inst_auto":
                # the generated driver tries argument lists; one whose instantiation does not compile is simply not a
                # use the member supports (the functions it touched are marked invalid by the extractor and left out)
                msg = "generated driver: %s:%s %s" % (f, d["line"], d["msg"][:100])
                if msg not in ctx.skipped and len(ctx.skipped) < 200:
                    ctx.skipped.append(msg)
                continue
            hit = None
            for a in allowed:
                if f.endswith(a["file"]) and re.search(a["msg"], d["msg"]):
                    hit = a
                    break
            inst = [n for n in d["notes"] if "in instantiation of" in n]
            if hit is None:
                # the error may surface in a helper (or a system header) that a listed member instantiates: follow the
                # "in instantiation of ... requested here" chain back to the member it started in
                hit = _explained_by_chain(u, d, allowed)
            if hit is None:
                if inst and f.startswith("gmlc/"):
                    # a member that stopped being instantiable: skipped, reported
                    ctx.skipped.append("%s:%s %s" % (f, d["line"], d["msg"][:120]))
                    continue
                via = [short(str(n).split(":")[0]) for n in inst]
                via = [v for v in via if v.startswith("gmlc/")]
                if via:
                    # the error surfaces in a system header, inside the instantiation of a library member for ONE of the
                    # driver's configurations (std::shared_lock<std::mutex> ...): that instantiation is left out, the others
                    # are judged; on its own this is 'cannot decide', never a pass
                    msg = "%s:%s %s (instantiated from %s)" % (f, d["line"], d["msg"][:120], via[0])
                    if msg not in ctx.skipped:
                        ctx.skipped.append(msg)
                    ctx.unknown("unit %s: an instantiation the driver requests no longer compiles - %s; the rules judged the "
                                "instantiations that do" % (u.name, msg))
                    continue
                raise Broken("unit %s does not compile: %s:%s: %s" %
                             (u.name, f, d["line"], d["msg"][:200]))
            else:
                s = "%s (%s)" % (hit["member"], hit["reason"])
                if s not in ctx.skipped:
                    ctx.skipped.append(s)


def uncovered(fb):
    """(patterns defined under gmlc/ that have no analysed instantiation and are not listed as uninstantiable, total)"""
    tab = json.load(open(os.path.join(VERIF, "tables", "uninstantiable.json")))
    unin = {(a["file"], a["name"]) for a in tab["members"]}
    nobody = {(a["file"], a["name"]) for a in tab.get("not_analysed", [])}
    have = set()
    for f in fb.functions(valid_only=True, raw=True):
        have.add(f.pattern)
    missing = {}
    total = 0
    for u in fb.units:
        if not u.name.startswith("inst_"):
            continue
        for p in u.patterns:
            if p.get("lambda") or p.get("defaulted"):
                continue
            total += 1
            if p["loc"] in have:
                continue
            key = (short(p["file"]), p["name"])
            if key in unin or key in nobody:
                continue
            missing[p["loc"]] = p
    return list(missing.values()), total


def audit_coverage(fb, ctx, files=None):
    """every function defined under gmlc/ must have >= 1 analysed instantiation
    or be listed as uninstantiable (DESIGN 2.2).  A function without one makes the properties anchored in its file
    undecidable; for the other properties it is a note in the evidence."""
    missing, total = uncovered(fb)
    mine = [p for p in missing if files is None or os.path.basename(p["file"]) in files]
    other = [p for p in missing if p not in mine]
    for p in other:
        ctx.note("no analysed instantiation of %s %s (outside the files this property is anchored in)" % (short(p["loc"]), p["qname"]))
    if mine:
        raise Broken("driver does not cover (no analysed instantiation): " +
                     "; ".join(sorted({"%s %s" % (short(p["loc"]), p["qname"]) for p in mine})[:8]))
    return total


def auto_unit(fb, tier, log):
    """facts of a generated driver for the members nothing instantiates yet (rules/autodrive.py); None if not needed"""
    from . import autodrive
    missing, _ = uncovered(fb)
    if not missing:
        return None
    hdrs = repo_headers()
    key = _sha(hdrs + [EXTRACT, os.path.join(VERIF, "drivers", "inst.cpp"), os.path.join(VERIF, "rules", "autodrive.py")], "auto2")
    d = os.path.join(CACHE, "facts", "auto_" + key)
    allp = {}
    for u in fb.units:
        if u.name.startswith("inst_"):
            for p_ in u.patterns:
                allp[p_["loc"]] = p_
    src = autodrive.synthesize(missing, VERIF, d, list(allp.values()))
    if src is None:
        return None
    path = os.path.join(d, "inst_auto.json")
    if not os.path.exists(path):
        flags = ["-std=c++17", "-I" + os.path.join(REPO, "gmlc"), "-UNDEBUG", "-DVP=0", "-ferror-limit=0", "-ftemplate-backtrace-limit=0"]
        tmp = path + ".tmp.%d" % os.getpid()
        cmd = [EXTRACT, "-o", tmp, "--root", os.path.join(REPO, "gmlc"), src, "--"] + flags
        t0 = time.time()
        r = subprocess.run(cmd, stdout=subprocess.PIPE, stderr=subprocess.STDOUT, text=True)
        if not os.path.exists(tmp):
            log["auto_driver"] = "extractor produced no output: " + r.stdout[-500:]
            return None
        os.replace(tmp, path)
        log["auto_driver_seconds"] = round(time.time() - t0, 2)
    log["auto_driver"] = "generated for: " + ", ".join(sorted({p["qname"] for p in missing})[:12])
    return path


# -------------------------------------------------------------------- main
def run_property(prop, tier):
    t0 = time.time()
    log = {}
    units = extract_units(tier, log)
    repo_paths = [p for n, p, _ in units if n != "fixtures"]
    fx_paths = [p for n, p, _ in units if n == "fixtures"]
    fb = FactBase(repo_paths)
    ap = auto_unit(fb, tier, log)
    if ap:
        fb = FactBase(repo_paths + [ap])
    eng = Engine(fb)
    fxb = FactBase(fx_paths)
    fxe = Engine(fxb)
    ctx = Ctx(prop, tier, fb, eng, (fxb, fxe), load_known())
    ctx.log = log
    check_diagnostics(fb, ctx)
    for u in fxb.units:
        if u.errors():
            raise Broken("fixture unit does not compile: " + u.errors()[0]["msg"][:200])
    anchor_files = []
    for line in open(os.path.join(VERIF, "properties.jsonl")):
        pj = json.loads(line)
        if pj["id"] == prop:
            anchor_files = [os.path.basename(x) for x in pj.get("anchors", {}).get("files", [])]
    n_patterns = audit_coverage(fb, ctx, anchor_files or None)
    from . import flow
    flow.DEPTH = 2 if tier == "thorough" else 1
    ctx.log["path_enumeration_loop_bound"] = flow.DEPTH
    mod = importlib.import_module("rules.props." + prop.lower())
    mod.run(ctx)
    from . import common
    files = []
    for line in open(os.path.join(VERIF, "properties.jsonl")):
        pj = json.loads(line)
        if pj["id"] == prop:
            files = [os.path.basename(x) for x in pj.get("anchors", {}).get("files", [])]
    if files:
        # defect classes that break any property of the code they occur in, over the files the property is anchored in
        ctx.step(common.value_categories, ctx, prop + ".values", files)
        if prop != "C20":       # C20 has the rule under its own name
            ctx.step(common.noexcept_user, ctx, prop + ".noexcept-user", files)
    if tier == "thorough" and files:
        # independent cross-reference over the same files
        ctx.step(common.tidy_xref, ctx, prop + ".tidy", files)
    return finish(ctx, mod, t0, n_patterns, units)


def finish(ctx, mod, t0, n_patterns, units):
    prop = ctx.prop
    # floors
    counts = {}
    for o in ctx.obs:
        counts[o["rule"]] = counts.get(o["rule"], 0) + 1
    for rid, floor in ctx.floors.items():
        if counts.get(rid, 0) < floor:
            ctx.broken_msgs.append("rule %s matched %d instance(s), fewer than the %d confirmed by hand "
                                   "(anchor vanished or shape no longer recognised)" %
                                   (rid, counts.get(rid, 0), floor))
    bad = [o for o in ctx.obs if not o["ok"]]
    # group violations by (rule, site)
    groups = {}
    for o in bad:
        groups.setdefault((o["rule"], o["site"], o["what"]), []).append(o)
    evdir = os.environ.get("VERIF_EVIDENCE", os.path.join(VERIF, "evidence"))
    vdir = os.path.join(evdir, "violations")
    os.makedirs(vdir, exist_ok=True)
    for fpath in glob.glob(os.path.join(vdir, prop + "-*.json")):
        os.remove(fpath)
    lines = []
    n_viol = 0
    n_known = 0
    for i, ((rid, site, what), os_) in enumerate(sorted(groups.items())):
        kf = None
        for k in ctx.known:
            if k["prop"] == prop and k["rule"] == rid and site.startswith(k["site"].split(":")[0]) and \
                    (k["site"] in site or k["site"].split(":", 1)[-1] in (os_[0]["fn"] + " " + what)):
                kf = k
        if kf:
            n_known += 1
            lines.append("KNOWN-FINDING: property=%s rule=%s site=%s %s" % (prop, rid, site, kf["text"]))
            continue
        n_viol += 1
        rp = os.path.join(vdir, "%s-%d.json" % (prop, n_viol))
        json.dump(dict(property=prop, rule=rid, rule_doc=ctx.rule_doc.get(rid, ""), site=site,
                       what=what, detail=os_[0]["detail"],
                       functions=sorted({o["fn"] for o in os_}),
                       instantiations=sorted({o["inst"] for o in os_ if o["inst"]})[:12],
                       path=os_[0]["path"], tier=ctx.tier),
                  open(rp, "w"), indent=1)
        print("%s [%s] %s: %s%s" % (site, rid, what, os_[0]["detail"],
                                     "" if len(os_) == 1 else " (%d instantiations)" % len(os_)))
        lines.append("VIOLATION property=%s replay=%s" % (prop, rp))
    # evidence
    nfun = sum(1 for _ in ctx.fb.functions())
    per_rule = {}
    for o in ctx.obs:
        r = per_rule.setdefault(o["rule"], dict(instances=0, discharged=0, distinct_sites=set()))
        r["instances"] += 1
        r["discharged"] += 1 if o["ok"] else 0
        r["distinct_sites"].add(o["site"])
    rules_out = {}
    for rid, r in sorted(per_rule.items()):
        rules_out[rid] = dict(doc=ctx.rule_doc.get(rid, ""), instances=r["instances"],
                              discharged=r["discharged"], distinct_sites=len(r["distinct_sites"]),
                              floor=ctx.floors.get(rid, 0))
    samples = []
    seen = set()
    for o in ctx.obs:
        if o["rule"] in seen:
            continue
        seen.add(o["rule"])
        samples.append(dict(rule=o["rule"], site=o["site"], obligation=o["what"],
                            function=o["fn"], discharged=o["ok"], detail=o["detail"]))
    distinct = len({(o["rule"], o["site"], o["what"]) for o in ctx.obs})
    ev = dict(
        property_id=prop, tier=ctx.tier, seed=int(os.environ.get("VERIF_SEED", "0") or 0),
        level="other",
        coverage=dict(
            explanation=getattr(mod, "EXPLANATION", ""),
            obligations=len(ctx.obs), discharged=len(ctx.obs) - len(bad),
            evaluations=len(ctx.obs), distinct_nontrivial=distinct,
            rule="one obligation per (rule, site, function instantiation); distinct = distinct "
                 "(rule, source site, obligation text) triples; every obligation is a non-trivial "
                 "proof obligation about a construct found in the current sources",
            samples=samples,
            rules=rules_out,
            units_analysed=[n for n, _, _ in units],
            functions_analysed=nfun,
            source_function_definitions_audited=n_patterns,
            skipped_uninstantiable=ctx.skipped,
            notes=ctx.notes,
            extraction=ctx.log.get("extraction", {}),
            path_enumeration_loop_bound=ctx.log.get("path_enumeration_loop_bound"),
            checker_cmd="./check %s --tier %s" % (prop, ctx.tier),
            trusted_base=["clang 14 front end and clang::CFG",
                          "semantic tables for libstdc++ lock/atomic/condition_variable/container types (rules/engine.py)",
                          "hand-confirmed tables in /verif/tables"],
            exhaustive=True,
            known_findings=n_known,
            analysis_broken=ctx.broken_msgs,
        ),
        assumptions=getattr(mod, "ASSUMPTIONS", []),
        wall_s=round(time.time() - t0, 2),
        violations=n_viol,
    )
    os.makedirs(evdir, exist_ok=True)
    json.dump(ev, open(os.path.join(evdir, prop + ".json"), "w"), indent=1)
    for l in lines:
        print(l)
    for b in ctx.broken_msgs:
        print("ANALYSIS-BROKEN property=%s: %s" % (prop, b))
    print("%s %s: %d obligations, %d discharged, %d violation site(s), %d known finding(s), %.1fs" %
          (prop, ctx.tier, len(ctx.obs), len(ctx.obs) - len(bad), n_viol, n_known, time.time() - t0))
    if n_viol:
        return 1
    return 2 if ctx.broken_msgs else 0


def main(argv=None):
    ap = argparse.ArgumentParser()
    ap.add_argument("prop")
    ap.add_argument("--tier", default=os.environ.get("VERIF_TIER", "quick"),
                    choices=["quick", "thorough"])
    ap.add_argument("--replay")
    a = ap.parse_args(argv)
    if a.prop == "replay" or a.replay:
        p = a.replay or ""
        d = json.load(open(p))
        print(json.dumps(d, indent=1))
        rc = run_property(d["property"], d.get("tier", "quick"))
        return rc
    prop = a.prop.upper()
    try:
        return run_property(prop, a.tier)
    except Broken as e:
        print("ANALYSIS-BROKEN property=%s: %s" % (prop, e))
        return 2
    except Exception as e:      # an internal error is never a verdict
        import traceback
        traceback.print_exc()
        print("ANALYSIS-BROKEN property=%s: internal error in the checker: %r" % (prop, e))
        return 2


if __name__ == "__main__":
    sys.exit(main())
