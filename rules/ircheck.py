"""Thorough-tier cross-check of the extractor's evaluation of memory orders
against clang's own code generation (DESIGN A7).

The instantiation driver is compiled with `clang++ -O0 -S -emit-llvm`; at -O0
nothing is inlined, so every call from a repository function to a member of
std::atomic<...> / std::__atomic_base<...> is visible with its memory_order
arguments as i32 constants.  For every function present on both sides (joined
by mangled name) the multiset of (member, orders) must agree.  A disagreement
is an EXTRACTOR fault: exit 2, never a violation."""
import os
import re
import subprocess
import tempfile

from .engine import atomic_ops

VERIF = os.path.dirname(os.path.dirname(os.path.abspath(__file__)))


def ir_atomic_calls(repo, vp=0, extra=()):
    d = tempfile.mkdtemp(prefix="vir_", dir="/tmp")
    try:
        ll = os.path.join(d, "inst.ll")
        cmd = ["clang++", "-std=c++17", "-O0", "-S", "-emit-llvm", "-w", "-I" + os.path.join(repo, "gmlc"),
               "-DVP=%d" % vp, "-DVERIF_IR"] + list(extra) + [os.path.join(VERIF, "drivers", "inst.cpp"), "-o", ll]
        r = subprocess.run(cmd, stdout=subprocess.PIPE, stderr=subprocess.STDOUT, text=True)
        if r.returncode != 0 or not os.path.exists(ll):
            return None, "IR build failed: " + r.stdout[-600:]
        funcs = {}
        cur = None
        callees = set()
        rx_def = re.compile(r'^define .*? @"?([^"(\s]+)"?\(')
        rx_call = re.compile(r'(?:call|invoke) .*? @"?(_ZNV?K?St(?:6atomic|13__atomic_base)[^"(\s]*)"?\((.*)\)')
        for line in open(ll):
            if line.startswith("define "):
                m = rx_def.match(line)
                cur = m.group(1) if m else None
                if cur:
                    funcs[cur] = []
                continue
            if line.startswith("}"):
                cur = None
                continue
            if cur and ("@_ZNSt" in line or "@_ZNKSt" in line or "@_ZNVSt" in line or "@_ZNVKSt" in line):
                m = rx_call.search(line)
                if m:
                    consts = [int(x) for x in re.findall(r"i32 (?:noundef )?(-?\d+)", m.group(2))]
                    funcs[cur].append((m.group(1), consts))
                    callees.add(m.group(1))
        dem = {}
        if callees:
            names = sorted(callees)
            out = subprocess.run(["llvm-cxxfilt-14"], input="\n".join(names) + "\n", stdout=subprocess.PIPE, text=True).stdout.split("\n")
            for n, dn in zip(names, out):
                dem[n] = dn
        res = {}
        for fn, calls in funcs.items():
            lst = []
            for sym, consts in calls:
                dn = dem.get(sym, sym)
                m = re.match(r"^(.*?)\((.*)\)( const| volatile| const volatile)?$", dn)
                if not m:
                    continue
                qual = m.group(1)
                params = m.group(2)
                name = qual.rsplit("::", 1)[-1]
                if name.startswith("operator ") and not re.match(r"operator[^a-zA-Z]", name):
                    name = "operator T"
                if name.startswith("atomic") or name.startswith("__atomic_base") or name.startswith("~"):
                    continue    # constructors / destructors
                k = params.count("std::memory_order")
                orders = tuple(consts[-k:]) if k else ()
                lst.append((name, orders))
            res[fn] = sorted(lst)
        return res, None
    finally:
        import shutil
        shutil.rmtree(d, ignore_errors=True)


def ast_atomic_calls(f):
    lst = []
    for op in atomic_ops(f):
        name = op["name"]
        if name.startswith("operator") and name not in ("operator T",):
            lst.append((name, ()))
        elif name == "operator T":
            lst.append((name, ()))
        else:
            orders = tuple(op["st"].get("mo", []))
            lst.append((name, orders))
    return sorted(lst)


def cross_check(ctx, rid, repo, vps=(0,)):
    ctx.rule(rid, "IR cross-check: the (member, memory orders) multiset of every repository function agrees between "
             "the extractor (AST, evaluated default arguments) and clang's -O0 LLVM IR", floor=30)
    n = 0
    for vp in vps:
        ir, err = ir_atomic_calls(repo, vp)
        if ir is None:
            ctx.broken(err)
        unit = "inst_vp%d" % vp
        for f in ctx.fb.functions():
            if f.unit.name != unit:
                continue
            names = [f.d.get("mangled")] if f.d.get("mangled") else f.d.get("mangled_all", [])
            hit = [x for x in names if x in ir]
            if not hit:
                continue
            a = ast_atomic_calls(f)
            for h in hit:
                b = ir[h]
                if not a and not b:
                    continue
                n += 1
                if a != b:
                    ctx.broken("extractor and clang disagree on the atomic operations of %s: AST %s vs IR %s" % (f.label, a, b))
                ctx.ob(rid, True, f.where, "%s: %d atomic operation(s) with identical orders in AST and IR" % (f.name, len(a)),
                       fn=f.label, inst=f.qname)
    if n == 0:
        ctx.broken("IR cross-check matched no function (mangled names missing?)")
    return n
