"""Thorough-tier cross-check of the extractor's evaluation of memory orders
against clang's own code generation (DESIGN A7).

The instantiation driver is compiled with `clang++ -O1 -fno-inline -S -emit-llvm`:
repository functions are not inlined into each other, libstdc++'s always_inline atomic
members are, and their switch(order) is folded, so every atomic access of a repository
function is visible either as an atomic instruction with its ordering or as a call to an
out-of-line std::atomic member with a constant memory_order argument.  For every function
present on both sides (joined by mangled name) the set of (kind, order) must agree.  A disagreement
is an EXTRACTOR fault: exit 2, never a violation."""
import os
import re
import subprocess
import tempfile

from .engine import atomic_ops

VERIF = os.path.dirname(os.path.dirname(os.path.abspath(__file__)))


def ir_atomic_calls(repo, vp=0, extra=()):
    d = tempfile.mkdtemp(prefix="vir_", dir="/tmp")
    try:
        ll = os.path.join(d, "inst.ll")
        cmd = ["clang++", "-std=c++17", "-O1", "-fno-inline", "-S", "-emit-llvm", "-w", "-I" + os.path.join(repo, "gmlc"),
               "-DVP=%d" % vp, "-DVERIF_IR"] + list(extra) + [os.path.join(VERIF, "drivers", "inst.cpp"), "-o", ll]
        r = subprocess.run(cmd, stdout=subprocess.PIPE, stderr=subprocess.STDOUT, text=True)
        if r.returncode != 0 or not os.path.exists(ll):
            return None, "IR build failed: " + r.stdout[-600:]
        funcs = {}
        cur = None
        callees = set()
        rx_def = re.compile(r'^define .*? @"?([^"(\s]+)"?\(')
        rx_ins = re.compile(r"\b(load atomic|store atomic|atomicrmw|cmpxchg)\b")
        ORD = {"monotonic": 0, "acquire": 2, "release": 3, "acq_rel": 4, "seq_cst": 5}
        rx_call = re.compile(r'(?:call|invoke) .*? @"?(_ZNV?K?St(?:6atomic|13__atomic_base)[^"(\s]*)"?\((.*)\)')
        for line in open(ll):
            if line.startswith("define "):
                m = rx_def.match(line)
                cur = m.group(1) if m else None
                if cur:
                    funcs[cur] = []
                continue
            if line.startswith("}"):
                cur = None
                continue
            if cur:
                mi = rx_ins.search(line)
                if mi and "_ZGV" not in line:      # static-local guard variables are not library atomics
                    kind = {"load atomic": "load", "store atomic": "store", "atomicrmw": "rmw", "cmpxchg": "cas"}[mi.group(1)]
                    ords = re.findall(r"\b(monotonic|acquire|release|acq_rel|seq_cst)\b", line)
                    if ords:
                        funcs[cur].append(("#" + kind, [ORD[ords[0]]]))
            if cur and ("@_ZNSt" in line or "@_ZNKSt" in line or "@_ZNVSt" in line or "@_ZNVKSt" in line):
                m = rx_call.search(line)
                if m:
                    consts = [int(x) for x in re.findall(r"i32 (?:noundef )?(-?\d+)", m.group(2))]
                    funcs[cur].append((m.group(1), consts))
                    callees.add(m.group(1))
        dem = {}
        if callees:
            names = sorted(callees)
            out = subprocess.run(["llvm-cxxfilt-14"], input="\n".join(names) + "\n", stdout=subprocess.PIPE, text=True).stdout.split("\n")
            for n, dn in zip(names, out):
                dem[n] = dn
        res = {}
        for fn, calls in funcs.items():
            lst = []
            for sym, consts in calls:
                if sym.startswith("#"):
                    lst.append((sym[1:], consts[0]))
                    continue
                dn = dem.get(sym, sym)
                m = re.match(r"^(.*?)\((.*)\)( const| volatile| const volatile)?$", dn)
                if not m:
                    continue
                qual = m.group(1)
                params = m.group(2)
                name = qual.rsplit("::", 1)[-1]
                if re.match(r"^operator [A-Za-z_]", name):
                    name = "operator T"
                if name.startswith("atomic") or name.startswith("__atomic_base") or name.startswith("~"):
                    continue    # constructors / destructors
                k = params.count("std::memory_order")
                orders = tuple(consts[-k:]) if k else ()
                lst.append((KIND.get(name, "rmw" if name.startswith(("fetch_", "operator")) else name),
                            orders[0] if orders else 5))
            res[fn] = sorted(set(lst))
        return res, None
    finally:
        import shutil
        shutil.rmtree(d, ignore_errors=True)


KIND = {"load": "load", "operator T": "load", "store": "store", "operator=": "store", "exchange": "rmw",
        "compare_exchange_weak": "cas", "compare_exchange_strong": "cas", "test_and_set": "rmw", "clear": "store"}


def ast_atomic_calls(f):
    lst = set()
    for op in atomic_ops(f):
        if op["op"] in ("load", "store", "rmw", "cas"):
            o = op["order"]
            lst.add((op["op"], 2 if o == 1 else o))
    return sorted(lst)


def cross_check(ctx, rid, repo, vps=(0,)):
    ctx.rule(rid, "IR cross-check: the set of (operation kind, memory order) of every repository function agrees between "
             "the extractor (AST, evaluated default arguments, operator forms) and clang's LLVM IR (-O1 -fno-inline)", floor=30)
    n = 0
    for vp in vps:
        ir, err = ir_atomic_calls(repo, vp)
        if ir is None:
            ctx.broken(err)
        unit = "inst_vp%d" % vp
        for f in ctx.fb.functions():
            if f.unit.name != unit:
                continue
            names = [f.d.get("mangled")] if f.d.get("mangled") else f.d.get("mangled_all", [])
            hit = [x for x in names if x in ir]
            if not hit:
                continue
            a = ast_atomic_calls(f)
            for h in hit:
                b = ir[h]
                if not a and not b:
                    continue
                n += 1
                if a != b:
                    ctx.broken("extractor and clang disagree on the atomic operations of %s: AST %s vs IR %s" % (f.label, a, b))
                ctx.ob(rid, True, f.where, "%s: %d atomic operation(s) with identical orders in AST and IR" % (f.name, len(a)),
                       fn=f.label, inst=f.qname)
    if n == 0:
        ctx.broken("IR cross-check matched no function (mangled names missing?)")
    return n
