"""Fact base: loads the JSON written by gmlc-extract and gives the rules a
resolved-program view (functions, statement tables, CFGs, records).

Python 3 standard library only."""
import json
import os
import re
from collections import defaultdict

REPO = os.environ.get("VERIF_REPO", "/repo")
GMLC = os.path.join(REPO, "gmlc")


def short(path):
    """repo-relative spelling of a file name (stable in reports)"""
    if path.startswith(REPO + "/"):
        return path[len(REPO) + 1:]
    return path


class Stmt(dict):
    __slots__ = ()

    @property
    def k(self):
        return self["k"]


class Pos(tuple):
    """position of a CFG element: (block id, index in block)"""
    __slots__ = ()

    @property
    def b(self):
        return self[0]

    @property
    def i(self):
        return self[1]


class Block:
    __slots__ = ("id", "elems", "succs", "preds", "term", "reach", "label",
                 "noreturn")

    def __init__(self, d):
        self.id = d["id"]
        self.elems = d["elems"]
        self.reach = d.get("reach", [True] * len(d["succs"]))
        # an edge the compiler folded away in THIS instantiation (`if constexpr`, a condition that is a constant expression)
        # is not an edge: the positions stay (true branch first), the dead successor is None
        self.succs = [s if (i >= len(self.reach) or self.reach[i]) else None for i, s in enumerate(d["succs"])]
        self.term = d.get("term")
        if self.term and "cval" in self.term and len(self.succs) == 2:
            dead = 1 if self.term["cval"] else 0
            self.succs[dead] = None
        self.preds = []
        self.label = d.get("label")
        self.noreturn = d.get("noreturn", False)


class Function:
    """one analysable function definition (an instantiation or a plain
    function) with statement table and CFG"""

    def __init__(self, d, unit):
        self.d = d
        self.unit = unit
        self.id = d["id"]
        self.uid = d.get("uid", d["id"])      # cache key: differs between a function and its inlined view
        self.name = d["name"]
        self.qname = d["qname"]
        self.fq = d.get("fq", "")
        self.rec = d.get("rec", "")          # class template name, no args
        self.recq = d.get("recq", "")        # class name with args
        self.kind = d.get("kind", "free")
        self.pattern = d["pattern"]          # file:line of the source definition
        self.file = d["file"]
        self.line = d["line"]
        self.invalid = d.get("invalid", False)
        self.end_line = d.get("end_line", d["line"])
        self.defaulted = d.get("defaulted", False)
        self.constm = d.get("constm", False)
        self.noexcept = d.get("noexcept", False)
        self.access = d.get("access", "none")
        self.is_lambda = d.get("lambda", False)
        self.lambda_parent = d.get("lambda_parent")
        self.ret = d.get("ret", "")
        self.params = d.get("param_decls", [])
        self.targs = d.get("targs", [])
        self.stmts = {k: Stmt(v) for k, v in d["stmts"].items()}
        for sid, s in self.stmts.items():
            s["id"] = sid
        self.inits = d.get("inits", [])
        self.body = d.get("body")
        self.parent = {}
        for sid, s in self.stmts.items():
            for c in s.get("ch", []):
                if c is not None and c not in self.parent:
                    self.parent[c] = sid
        self.blocks = {}
        self.entry = self.exit = None
        cfg = d.get("cfg")
        if cfg:
            for bd in cfg["blocks"]:
                self.blocks[bd["id"]] = Block(bd)
            self.entry = cfg["entry"]
            self.exit = cfg["exit"]
            for b in self.blocks.values():
                for s in b.succs:
                    if s is not None:
                        self.blocks[s].preds.append(b.id)
        self._dom = None
        self._pdom = None
        self._elempos = None

    # ------------------------------------------------------------ naming
    @property
    def where(self):
        return "%s:%d" % (short(self.file), self.line)

    @property
    def label(self):
        return "%s @ %s" % (self.qname, self.where)

    def __repr__(self):
        return "<Function %s>" % self.label

    # -------------------------------------------------------------- stmts
    def s(self, sid):
        return self.stmts.get(sid) if sid else None

    def children(self, st):
        return [self.stmts[c] for c in st.get("ch", []) if c and c in self.stmts]

    def par(self, st):
        p = self.parent.get(st["id"])
        return self.stmts.get(p) if p else None

    def ancestors(self, st):
        p = self.par(st)
        while p is not None:
            yield p
            p = self.par(p)

    def descendants(self, st, include_self=True):
        stack = [st]
        first = True
        while stack:
            x = stack.pop()
            if include_self or not first:
                yield x
            first = False
            for c in x.get("ch", []):
                if c and c in self.stmts:
                    stack.append(self.stmts[c])

    def loc(self, st):
        if st is None:
            return self.where
        return "%s:%s" % (short(st.get("f", self.file)), st.get("l", "?"))

    # ---------------------------------------------------------------- cfg
    def positions(self):
        """all element positions, in block order then index"""
        for bid in sorted(self.blocks, reverse=True):
            for i in range(len(self.blocks[bid].elems)):
                yield Pos((bid, i))

    def elem(self, pos):
        return self.blocks[pos[0]].elems[pos[1]]

    def elem_stmt(self, pos):
        e = self.elem(pos)
        if e["k"] == "S":
            return self.stmts.get(e["s"])
        return None

    def elempos(self):
        """stmt id -> position of the CFG element that evaluates it (the
        first one when a statement appears more than once)"""
        if self._elempos is None:
            m = {}
            for p in self.positions():
                e = self.elem(p)
                if e["k"] == "S" and e["s"] not in m:
                    m[e["s"]] = p
            self._elempos = m
        return self._elempos

    def pos_of(self, st):
        """position at which statement `st` is evaluated; for statements that
        are not CFG elements themselves, the position of the nearest
        enclosing/contained element"""
        ep = self.elempos()
        sid = st["id"]
        if sid in ep:
            return ep[sid]
        # try descendants (last evaluated child), then ancestors
        best = None
        for dsc in self.descendants(st, include_self=False):
            if dsc["id"] in ep:
                p = ep[dsc["id"]]
                if best is None or self.pos_before(best, p):
                    best = p
        if best is not None:
            return best
        for a in self.ancestors(st):
            if a["id"] in ep:
                return ep[a["id"]]
        return None

    def pos_before(self, a, b):
        """a strictly before b inside one block, or a's block dominates b's"""
        if a[0] == b[0]:
            return a[1] < b[1]
        return self.dominates_block(a[0], b[0])

    def reachable_blocks(self):
        seen = set()
        st = [self.entry]
        while st:
            b = st.pop()
            if b in seen or b is None:
                continue
            seen.add(b)
            st.extend(x for x in self.blocks[b].succs if x is not None)
        return seen

    def _compute_dom(self, entry, succ_of, pred_of):
        nodes = set()
        st = [entry]
        while st:
            b = st.pop()
            if b in nodes:
                continue
            nodes.add(b)
            st.extend(succ_of(b))
        dom = {n: set(nodes) for n in nodes}
        dom[entry] = {entry}
        changed = True
        order = sorted(nodes, reverse=True)
        while changed:
            changed = False
            for n in order:
                if n == entry:
                    continue
                ps = [p for p in pred_of(n) if p in nodes]
                if not ps:
                    new = {n}
                else:
                    new = set.intersection(*(dom[p] for p in ps)) | {n}
                if new != dom[n]:
                    dom[n] = new
                    changed = True
        return dom

    def dom(self):
        if self._dom is None:
            self._dom = self._compute_dom(
                self.entry,
                lambda b: [x for x in self.blocks[b].succs if x is not None],
                lambda b: self.blocks[b].preds)
        return self._dom

    def pdom(self):
        if self._pdom is None:
            self._pdom = self._compute_dom(
                self.exit,
                lambda b: self.blocks[b].preds,
                lambda b: [x for x in self.blocks[b].succs if x is not None])
        return self._pdom

    def dominates_block(self, a, b):
        d = self.dom()
        return b in d and a in d[b]

    def postdominates_block(self, a, b):
        d = self.pdom()
        return b in d and a in d[b]

    def dominates(self, a, b):
        """element position a dominates element position b"""
        if a[0] == b[0]:
            return a[1] <= b[1]
        return self.dominates_block(a[0], b[0])

    def postdominates(self, a, b):
        """every path from b to the exit passes a"""
        if a[0] == b[0]:
            return a[1] >= b[1]
        return self.postdominates_block(a[0], b[0])

    def reach_avoiding(self, src, dst, avoid):
        """is there a CFG path from position src (exclusive) to position dst
        that does not execute any position in `avoid`?"""
        avoid = set(avoid)
        # positions are visited element by element
        start = (src[0], src[1] + 1)
        seen = set()
        work = [start]
        while work:
            b, i = work.pop()
            blk = self.blocks[b]
            blocked = False
            while i < len(blk.elems):
                p = (b, i)
                if p == tuple(dst):
                    return True
                if p in avoid:
                    blocked = True
                    break
                i += 1
            if blocked:
                continue
            for s in blk.succs:
                if s is None:
                    continue
                if (s, 0) in seen:
                    continue
                seen.add((s, 0))
                work.append((s, 0))
        return False

    def exits_avoiding(self, src, avoid):
        """is there a path from src (exclusive) to the function exit avoiding
        all positions in `avoid`?"""
        return self.reach_avoiding(src, (self.exit, 0), avoid) or \
            self._reach_block_avoiding(src, self.exit, avoid)

    def _reach_block_avoiding(self, src, target_block, avoid):
        avoid = set(avoid)
        start = (src[0], src[1] + 1)
        seen = set()
        work = [start]
        while work:
            b, i = work.pop()
            blk = self.blocks[b]
            blocked = False
            while i < len(blk.elems):
                if (b, i) in avoid:
                    blocked = True
                    break
                i += 1
            if blocked:
                continue
            if b == target_block:
                return True
            for s in blk.succs:
                if s is None or (s, 0) in seen:
                    continue
                seen.add((s, 0))
                work.append((s, 0))
        return False

    def loops(self):
        """natural loops: list of (header block, set of body blocks)"""
        res = []
        dom = self.dom()
        for b in self.blocks.values():
            for s in b.succs:
                if s is None or b.id not in dom:
                    continue
                if s in dom[b.id]:  # back edge b -> s
                    body = {s, b.id}
                    work = [b.id]
                    while work:
                        x = work.pop()
                        if x == s:
                            continue
                        for p in self.blocks[x].preds:
                            if p not in body and p in dom:
                                body.add(p)
                                work.append(p)
                    res.append((s, body))
        # merge loops with same header
        merged = {}
        for h, body in res:
            merged.setdefault(h, set()).update(body)
        return list(merged.items())


class Record:
    def __init__(self, d, unit):
        self.d = d
        self.unit = unit
        self.id = d["id"]
        self.qname = d["qname"]
        self.tmpl = d["tmpl"]
        self.name = d["name"]
        self.dependent = d["dependent"]
        self.is_lambda = d.get("lambda", False)
        self.fields = d["fields"]
        self.methods = d["methods"]
        self.aliases = d["aliases"]
        self.bases = d["bases"]
        self.targs = d.get("targs", [])
        self.pattern = d["pattern"]
        self.file = d["file"]
        self.line = d["line"]
        self.special = d.get("special", {})

    def field(self, name):
        for f in self.fields:
            if f["name"] == name:
                return f
        return None

    def alias(self, name):
        for a in self.aliases:
            if a["name"] == name:
                return a
        return None

    def __repr__(self):
        return "<Record %s>" % self.qname


class Unit:
    def __init__(self, path):
        with open(path) as fh:
            d = json.load(fh)
        self.path = path
        self.name = os.path.basename(path)[:-5]
        self.unit = d["unit"]
        self.diagnostics = d["diagnostics"]
        self.patterns = d["patterns"]
        self.records = [Record(r, self) for r in d["records"]]
        self.functions = [Function(f, self) for f in d["functions"]]
        self.fn_by_id = {f.id: f for f in self.functions}
        # a function whose body contains a compile error is not analysable
        # (for an error inside a template instantiation clang names the specialisation in its first note: only that
        # specialisation is lost, its siblings instantiated with other arguments stay analysable)
        import re as _re
        for x in self.diagnostics:
            if x["level"] != "error":
                continue
            ef, el = x["file"], x["line"]
            # an instantiation is judged by what the compiler says about THAT instantiation (invalid declaration, or a
            # body that contains error-recovery expressions); the line-range rule is for code that is not instantiated
            inrange = [f for f in self.functions if ef == f.file and f.line <= el <= f.end_line and
                       not (f.d.get("is_instantiation") and "recovery" in f.d)]
            named = None
            for n in x.get("notes", []):
                m = _re.search(r"in instantiation of (?:function template specialization|member function) '(.*)' requested here", str(n))
                if m:
                    named = m.group(1)
                    break
            hit = []
            if named is not None:
                m2 = _re.match(r"^(.*)::([A-Za-z_]\w*)<(.*)>$", named)
                for f in inrange:
                    ta = f.d.get("targs") or []
                    spec = f.qname + ("<" + ", ".join(ta) + ">" if ta else "")
                    if spec.replace(" ", "") == named.replace(" ", ""):
                        hit.append(f)
                    elif m2 and ta and f.name == m2.group(2) and ", ".join(ta).replace(" ", "") == m2.group(3).replace(" ", ""):
                        # same function template, same arguments; clang elides defaulted class template arguments
                        # in the note ('ordered_guarded<T>' for 'ordered_guarded<T, std::shared_timed_mutex>')
                        cls = f.qname.rsplit("::", 1)[0]
                        if cls == m2.group(1) or (m2.group(1).endswith(">") and cls.startswith(m2.group(1)[:-1] + ",")):
                            hit.append(f)
                if not hit and m2 and any(f.d.get("targs") and f.name == m2.group(2) for f in inrange):
                    continue        # the failing specialisation is a sibling that the extractor did not emit
            for f in (hit or inrange):
                f.invalid = True
        for f in self.functions:
            if f.d.get("recovery"):
                f.invalid = True
        # every specialisation on the instantiation stack of an error is part of a use that does not compile: a caller
        # whose callee could not be instantiated has no meaning either
        chain = set()
        for x in self.diagnostics:
            if x["level"] != "error":
                continue
            for n_ in x.get("notes", []):
                m = _re.search(r"in instantiation of (?:function template specialization|member function) '(.*)' requested here", str(n_))
                if m:
                    chain.add(m.group(1).replace(" ", ""))
        if chain:
            for f in self.functions:
                ta = f.d.get("targs") or []
                if not ta or f.invalid:
                    continue
                spec = (f.qname + "<" + ", ".join(ta) + ">").replace(" ", "")
                if spec in chain:
                    f.invalid = True
                    continue
                # clang elides defaulted class template arguments in notes: compare function name + arguments + class head
                tail = ("::" + f.name + "<" + ", ".join(ta) + ">").replace(" ", "")
                head = f.qname.split("<")[0]
                if any(c.endswith(tail) and c.startswith(head) for c in chain):
                    f.invalid = True
            # ... and whoever calls a specialisation that could not be instantiated (clang reports the error only at the
            # first request; later requesters are not on any diagnostic's stack)
            changed = True
            while changed:
                changed = False
                for f in self.functions:
                    if f.invalid or not f.d.get("is_instantiation"):
                        continue
                    for st in f.stmts.values():
                        c = st.get("callee") if isinstance(st, dict) else None
                        if c and c.get("id") in self.fn_by_id:
                            g = self.fn_by_id[c["id"]]
                            if g.invalid and g.d.get("is_instantiation") and g.d.get("targs"):
                                f.invalid = True
                                changed = True
                                break
        self.rec_by_id = {r.id: r for r in self.records}

    def errors(self):
        return [x for x in self.diagnostics if x["level"] == "error"]

    def inlined_callees(self):
        """ids of the helpers that some function of this unit inlines"""
        if getattr(self, "_inl_callees", None) is None:
            from .inline import _call_sites
            s = set()
            for f in self.functions:
                if f.invalid:
                    continue
                for site in _call_sites(f):
                    if site[4] == "call":
                        s.add(site[3].id)
            self._inl_callees = s
        return self._inl_callees


class FactBase:
    """all units of one run"""

    def __init__(self, paths):
        self.units = [Unit(p) for p in paths]

    def functions(self, rec=None, name=None, file=None, valid_only=True,
                  pred=None, raw=False):
        """analysable functions.  By default each function is returned in its INLINED view (calls to non-public
        helpers replaced by the helper's body, see inline.py) and helpers that are inlined at every one of their call
        sites are not returned on their own: they are judged in the context of each caller.  raw=True gives the
        functions as written."""
        from .inline import inline, standalone
        for u in self.units:
            called = None
            for f in u.functions:
                if valid_only and f.invalid:
                    continue
                if rec is not None and f.rec != rec:
                    continue
                if name is not None and f.name != name:
                    continue
                if file is not None and not f.file.endswith(file):
                    continue
                if pred is not None and not pred(f):
                    continue
                if not raw:
                    if not standalone(f):
                        if called is None:
                            called = u.inlined_callees()
                        if f.id in called or f.is_lambda:
                            continue
                    f = inline(f)
                yield f

    def records(self, tmpl=None, dependent=False):
        for u in self.units:
            for r in u.records:
                if r.dependent != dependent:
                    continue
                if tmpl is not None and r.tmpl != tmpl:
                    continue
                yield r

    def callee_fn(self, f, call_stmt, raw=False):
        """Function object of a call's resolved callee, if it was extracted"""
        c = call_stmt.get("callee")
        if not c:
            return None
        g = f.unit.fn_by_id.get(c["id"])
        if g is None or raw:
            return g
        from .inline import inline
        return inline(g)
