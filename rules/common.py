"""Rules shared by several properties (handles, helpers, RAII, lock order,
compile-fail witnesses)."""
import os
import re
import subprocess

from .engine import (CALLS, CTORS, HELD, MAYBE, UNOWNED, WRAPPERS, callee_fq, handle_class,
                     is_lock_carrier, is_mutex_type, lock_class, path, strip_cvref, unwrap,
                     is_atomic_type, is_condvar_type)
from .facts import short, REPO
from .guards import class_functions, locks_of, top_function, lambda_site, lambda_use

VERIF = os.path.dirname(os.path.dirname(os.path.abspath(__file__)))


def accessors_of(fb, cls, field):
    """names of the const member functions of cls that do nothing but return the value of `field` (`isActive()`)"""
    out = set()
    for g in fb.functions(rec=cls, raw=True):
        if g.kind != "method" or g.params or not g.constm:
            continue
        rets = [s for s in g.stmts.values() if s["k"] == "ReturnStmt"]
        if len(rets) == 1 and g.children(rets[0]) and path(g, g.children(rets[0])[0]) == "this." + field:
            calls = [s for s in g.stmts.values() if s["k"] in CALLS and (s.get("callee") or {}).get("inrepo")]
            if not calls:
                out.add(g.name)
    return out


def reached_only_when_true(f, pos, is_cond):
    """position pos is reachable only through the TRUE outcome of a dominating branch whose condition (negations
    stripped and accounted for) satisfies is_cond"""
    for b in f.blocks.values():
        t = b.term
        if not t or not t.get("cond") or len(b.succs) != 2 or b.succs[0] is None or b.succs[1] is None:
            continue
        c = unwrap(f, f.s(t["cond"]))
        neg = False
        while c is not None and c["k"] == "UnaryOperator" and c.get("op") == "!":
            neg = not neg
            c = unwrap(f, f.children(c)[0])
        if c is None or not is_cond(c):
            continue
        if b.id == pos[0] or not f.dominates_block(b.id, pos[0]):
            continue
        other = b.succs[0] if neg else b.succs[1]
        if other == pos[0]:
            continue
        if not f.reach_avoiding((other, -1), pos, []):
            return True
    return False


def runs_only_when_not_unwinding(f, st):
    """statement st (in an inlined destructor) is reached only through the 'no new exception in flight' edge of a test
    `std::uncaught_exceptions() > saved` (any comparison spelling): it does not run when the scope is left by a throw"""
    pos = f.pos_of(st)
    if pos is None:
        return False
    for b in f.blocks.values():
        t = b.term
        if not t or not t.get("cond") or len(b.succs) != 2 or b.succs[0] is None or b.succs[1] is None:
            continue
        c = unwrap(f, f.s(t["cond"]))
        neg = False
        while c is not None and c["k"] == "UnaryOperator" and c.get("op") == "!":
            neg = not neg
            c = unwrap(f, f.children(c)[0])
        if c is None or c["k"] != "BinaryOperator" or c.get("op") not in (">", "<", "!=", "==", ">=", "<="):
            continue
        l, r = [unwrap(f, x) for x in f.children(c)]
        is_ue = lambda x: x is not None and x["k"] == "CallExpr" and callee_fq(x) in ("std::uncaught_exceptions",)
        if is_ue(l) and not is_ue(r):
            unwinding_when_true = {">": True, "!=": True, "==": False, "<=": False}.get(c["op"])
        elif is_ue(r) and not is_ue(l):
            unwinding_when_true = {"<": True, "!=": True, "==": False, ">=": False}.get(c["op"])
        else:
            continue
        if unwinding_when_true is None:
            continue
        if neg:
            unwinding_when_true = not unwinding_when_true
        unw = b.succs[0] if unwinding_when_true else b.succs[1]
        if not f.dominates_block(b.id, pos[0]) or b.id == pos[0]:
            continue
        if unw == pos[0]:
            continue
        if not f.reach_avoiding((unw, -1), pos, []):
            return True
    return False


def scope_guards_alive(f, st):
    """local objects of helper classes introduced after the reference tree whose (inlined) destructor body is
    non-empty and whose scope encloses statement st.  Their destructors also run when st throws - code the CFG (which has
    no exception edges for destructors) does not show; a rule about what happens on a throw cannot decide such a
    function and answers 'unknown' instead of a verdict."""
    from .engine import _ref_target
    out = []
    sp = f.pos_of(st)
    anc = {a["id"] for a in f.ancestors(st)}
    decls = {}
    for s in f.stmts.values():
        if s["k"] == "DeclStmt":
            for d in s["decls"]:
                decls["l:" + d["name"]] = s
    seen = set()
    for s in f.stmts.values():
        if s["k"] == "DeclStmt":
            for d in s["decls"]:
                if d.get("inl_this") and "dtor_" in d.get("name", "") and d.get("init"):
                    tgt = path(f, f.s(d["init"]))
                    var = tgt[1:] if tgt and tgt.startswith("&") else tgt
                    ds = decls.get(var)
                    if ds is None or var in seen:
                        continue
                    par = f.par(ds)
                    if par is not None and par["id"] in anc and sp and f.pos_of(ds) and f.dominates(f.pos_of(ds), sp):
                        seen.add(var)
                        out.append(var)
    return out


def in_files(f, files):
    return any(f.file.endswith("/" + x) for x in files)


# ------------------------------------------------------------- C01/C02.handle
def handle_rules(ctx, rid, cls, what_lock):
    """structure of lock_handle / shared_lock_handle (DESIGN C01.handle)"""
    ctx.rule(rid, "%s acquires or adopts the lock in its constructors, changes lock state only in "
             "unlock(), is move-only, members private" % cls.split("::")[-1], floor=12)
    fb, eng = ctx.fb, ctx.eng
    recs = list(fb.records(tmpl=cls))
    if not recs:
        ctx.broken("no instantiation of %s" % cls)
    for r in recs:
        site = "%s:%d" % (short(r.file), r.line)
        for fn in ("data", "m_handle_lock"):
            fl = r.field(fn)
            if fl is None:
                ctx.broken("%s has no field %s (anchor vanished)" % (cls, fn))
            ctx.ob(rid, fl["access"] == "private", site, "%s::%s is private" % (r.name, fn),
                   "access is " + fl["access"], inst=r.qname)
        fl = r.field("m_handle_lock")
        lc = lock_class(fl["type"])
        ctx.ob(rid, lc in ("unique_lock", "shared_lock"), site,
               "m_handle_lock is a standard RAII lock object", "type is " + fl["type"], inst=r.qname)
        copy_ctor = [m for m in r.methods if m.get("copy_ctor")]
        copy_as = [m for m in r.methods if m.get("copy_assign")]
        # not copyable: declared deleted, or implicitly deleted (the lock member is move-only)
        okc = all(m["deleted"] for m in copy_ctor) if copy_ctor else bool(r.special.get("copy_ctor_deleted", False) or
                                                                          not r.special.get("has_simple_copy_ctor", True))
        ctx.ob(rid, okc, site, "the handle is not copy-constructible", "" if okc else "a copy would share one lock ownership",
               inst=r.qname)
        if copy_as:
            ctx.ob(rid, all(m["deleted"] for m in copy_as), site, "copy assignment is deleted", "", inst=r.qname)
        mv = [m for m in r.methods if (m.get("move_ctor") or m.get("move_assign")) and not m["deleted"]]
        for m in mv:
            if m["defaulted"] or m.get("implicit"):
                ctx.ob(rid, True, "%s:%d" % (short(r.file), m["line"]), "%s is defaulted over the standard lock type "
                       "(moved-from lock is unowned, the target's old lock is released)" %
                       ("move constructor" if m.get("move_ctor") else "move assignment"), "", inst=r.qname)
            else:
                ok, detail = _user_move_ok(fb, cls, r, m)
                ctx.ob(rid, ok, "%s:%d" % (short(r.file), m["line"]), "user-provided %s transfers pointer and lock ownership "
                       "(lock moved, not swapped or copied)" % ("move constructor" if m.get("move_ctor") else "move assignment"),
                       detail, inst=r.qname)
        dt = [m for m in r.methods if m.get("kind") == "dtor" and m.get("user_provided")]
        ctx.ob(rid, not dt, site, "no user-provided destructor (the lock member releases)", "", inst=r.qname)
    # constructors and methods
    for f in fb.functions(rec=cls):
        if f.kind == "ctor":
            ptypes = f.d.get("params", [])
            if len(ptypes) != 2:
                continue
            pnames = [p["name"] for p in f.params]
            ini = {i.get("field"): f.s(i.get("init")) for i in f.inits if i.get("field")}
            def _braced(e):
                # `data{val}` / `m_handle_lock{mut}`: a one-element initialiser list is the element
                e = unwrap(f, e)
                while e is not None and e["k"] == "InitListExpr" and len(f.children(e)) == 1:
                    e = unwrap(f, f.children(e)[0])
                return e
            li = _braced(ini.get("m_handle_lock"))
            di = _braced(ini.get("data"))
            site = f.where
            ok_d = di is not None and path(f, di) == "p:" + pnames[0]
            ctx.ob(rid, ok_d, site, "constructor stores the pointer it is given", "", fn=f.label, inst=f.qname)
            if is_mutex_type(ptypes[1]):
                ok = (li is not None and li["k"] in CTORS and len(li["args"]) == 1 and
                      path(f, f.s(li["args"][0])) == "p:" + pnames[1] and
                      is_mutex_type(li["callee"]["params"][0]))
                if not ok and li is not None and li["k"] in CALLS and (li.get("callee") or {}).get("inrepo"):
                    # through a lock factory of the library: what counts is that the factory's lock owns the given mutex,
                    # acquired by a blocking acquisition
                    s_ = eng.handle_summary_of_call(f, li)
                    ok = bool(s_) and len(s_) == 1 and s_[0]["st"] == HELD and s_[0].get("blocking") and \
                        s_[0].get("mutex") == "p:" + pnames[1]
                ctx.ob(rid, ok, site, "constructor (pointer, M&) acquires the given mutex with the blocking "
                       "RAII constructor", "" if ok else "m_handle_lock is not initialised as lock_type(mutex)",
                       fn=f.label, inst=f.qname)
            else:
                ok = (li is not None and li["k"] in CTORS and len(li["args"]) == 1 and
                      path(f, f.s(li["args"][0])) == "p:" + pnames[1] and
                      lock_class(li["callee"]["params"][0]) is not None)
                ctx.ob(rid, ok, site, "constructor (pointer, lock) adopts the lock object it is given by move",
                       "" if ok else "m_handle_lock is not move-constructed from the parameter",
                       fn=f.label, inst=f.qname)
            continue
        if f.kind == "dtor" or f.defaulted:
            continue
        if f.name == "operator=" and f.params and handle_class(f.params[0].get("type", "")):
            continue      # move assignment: judged by the move rule above
        for st in f.stmts.values():
            if st["k"] == "CXXMemberCallExpr":
                obj = f.s(st["obj"])
                if obj is not None and path(f, obj) == "this.m_handle_lock":
                    nm = st["callee"]["name"]
                    ok = nm in ("owns_lock", "operator bool", "mutex") or (nm == "unlock" and f.name == "unlock")
                    ctx.ob(rid, ok, f.loc(st), "lock state of the handle changes only in unlock()",
                           "" if ok else "%s() calls m_handle_lock.%s()" % (f.name, nm), fn=f.label, inst=f.qname)
            if st["k"] in ("BinaryOperator",) and st.get("op") == "=":
                lhs = f.children(st)[0]
                if path(f, lhs) == "this.data":
                    rhs = unwrap(f, f.children(st)[1])
                    ok = f.name == "unlock" and rhs is not None and rhs["k"] == "CXXNullPtrLiteralExpr"
                    ctx.ob(rid, ok, f.loc(st), "the data pointer is only ever reset to null, in unlock()",
                           "" if ok else "%s() assigns data" % f.name, fn=f.label, inst=f.qname)


def _user_move_ok(fb, cls, r, m):
    """hand-written move operation of a handle: data copied from the source, m_handle_lock move-constructed /
    move-assigned from the source's lock"""
    fs = [f for f in fb.functions(rec=cls) if f.id == m["id"] and f.recq == r.qname]
    if not fs:
        return True, ""     # never instantiated in this configuration
    f = fs[0]
    src = "p:" + f.params[0]["name"]
    if f.kind == "ctor":
        ini = {i.get("field"): f.s(i.get("init")) for i in f.inits if i.get("field")}
        li = unwrap(f, ini.get("m_handle_lock"))
        ok = li is not None and li["k"] in CTORS and len(li["args"]) == 1 and path(f, f.s(li["args"][0])) == src + ".m_handle_lock" \
            and li["callee"]["params"][0].endswith("&&")
        okd = path(f, ini.get("data")) == src + ".data"
        return (ok and okd), ("" if ok and okd else "the lock or the pointer is not taken from the source")
    asg = [st for st in f.stmts.values() if st["k"] == "CXXOperatorCallExpr" and st.get("op") == "=" and
           path(f, f.s(st["args"][0])) == "this.m_handle_lock"]
    ok = len(asg) == 1 and path(f, f.s(asg[0]["args"][1])) == src + ".m_handle_lock" and asg[0]["callee"]["params"][0].endswith("&&")
    others = [st for st in f.stmts.values() if st["k"] == "CXXMemberCallExpr" and path(f, f.s(st["obj"])) == "this.m_handle_lock"]
    if others:
        return False, "m_handle_lock.%s(): the lock the target held is not released by the assignment" % others[0]["callee"]["name"]
    return ok, ("" if ok else "m_handle_lock is not move-assigned from the source")


def helper_summaries(ctx, rid, names, mode_for_plain, doc=None):
    """try_lock_*handle* helpers: pointer iff owned; never the blocking form"""
    ctx.rule(rid, doc or "try helpers build the lock with a try/timed constructor and return the object "
             "pointer exactly on the path where the lock is owned, nullptr otherwise", floor=len(names) * 2)
    fb, eng = ctx.fb, ctx.eng
    for nm in names:
        fs = [f for f in fb.functions(name=nm) if f.fq == "gmlc::libguarded::" + nm]
        if not fs:
            ctx.broken("helper %s has no instantiation (anchor vanished)" % nm)
        for f in fs:
            s = eng.handle_summary(f)
            site = f.where
            if s is None:
                ctx.unknown("%s: cannot summarise the handle returned by %s at %s" % (rid, nm, site))
                continue
            p0 = "p:" + f.params[0]["name"]
            p1 = "p:" + f.params[1]["name"]
            owned = [a for a in s if a["st"] == HELD]
            other = [a for a in s if a["st"] != HELD]
            ok1 = bool(owned) and all(a["data"] == p0 and a["mutex"] == p1 for a in owned)
            ctx.ob(rid, ok1, site, "%s: the owned path returns the object pointer with the lock on the given mutex" % nm,
                   "" if ok1 else "owned alternatives: %s" % [(a["data"], a["mutex"]) for a in owned],
                   fn=f.label, inst=f.qname)
            ok2 = bool(other) and all(a["data"] is None and a["st"] == UNOWNED for a in other)
            ctx.ob(rid, ok2, site, "%s: the not-owned path returns a null handle" % nm,
                   "" if ok2 else "not-owned alternatives: %s" % [(a["data"], a["st"]) for a in other],
                   fn=f.label, inst=f.qname)
            la = eng.locks(f)
            # an acquisition made by calling the sibling timed helper (the `_for` form turning its duration into a deadline for
            # the `_until` form) is as timed as that helper - which is judged itself
            kinds = ["timed" if (len(ev) > 4 and ev[4] is not None and ev[4]["k"] == "CallExpr" and
                                 re.match(r"^gmlc::libguarded::try_lock_(shared_)?handle_(for|until)$", callee_fq(ev[4]))) else ev[3]
                     for ev in la.acquire_events]
            want = "try" if nm.endswith("handle") else "timed"
            ok3 = bool(kinds) and all(k == want for k in kinds)
            if not ok3 and want == "timed" and kinds and all(k in ("timed", "try") for k in kinds):
                # a mutex type without timed operations can be polled: try-acquisitions inside a loop that gives up when a
                # clock has passed the deadline wait as long as was asked for and never longer
                def polled(ev):
                    pos = ev[0]
                    for _h, body in f.loops():
                        if pos[0] in body:
                            for b in body:
                                for e_ in f.blocks[b].elems:
                                    if e_["k"] == "S":
                                        x = f.stmts[e_["s"]]
                                        if x["k"] == "CallExpr" and (x.get("callee") or {}).get("name") == "now":
                                            return True
                    return False
                in_loop = [ev for ev in la.acquire_events if ev[3] == "try" and polled(ev)]
                # (the first attempt may sit in front of the loop: `lock_type l(m, std::try_to_lock); while (!l.owns_lock() ...)`)
                ok3 = all(ev[3] == "timed" or polled(ev) or (in_loop and f.dominates(tuple(ev[0]), tuple(in_loop[0][0])))
                          for ev in la.acquire_events)
                if ok3 and in_loop:
                    # between two attempts the poller sleeps: never past the deadline
                    last_ = "p:" + f.params[-1]["name"]
                    for _h, body in f.loops():
                        for b in body:
                            for e_ in f.blocks[b].elems:
                                if e_["k"] != "S":
                                    continue
                                x = f.stmts[e_["s"]]
                                if x["k"] != "CallExpr" or callee_fq(x) not in ("std::this_thread::sleep_for", "std::this_thread::sleep_until") or not x["args"]:
                                    continue
                                a0 = f.s(x["args"][0])
                                names = {path(f, d) for d in [a0] + list(f.descendants(a0)) if d["k"] == "DeclRefExpr"}
                                if callee_fq(x).endswith("sleep_until"):
                                    okp = last_ in names
                                else:
                                    okp = False
                                    for pb, pblk in f.blocks.items():
                                        if pblk.term and pblk.term.get("cond") and len(pblk.succs) == 2 and \
                                                any(s_ is not None and f.dominates_block(s_, b) and len(f.blocks[s_].preds) == 1 for s_ in pblk.succs):
                                            cn = {path(f, d) for d in f.descendants(f.s(pblk.term["cond"])) if d["k"] == "DeclRefExpr"}
                                            if last_ in cn and (names & cn):
                                                okp = True
                                    # or the amount itself is a minimum with the time left
                                    if any(d["k"] == "CallExpr" and callee_fq(d) == "std::min" for d in [a0] + list(f.descendants(a0))) and last_ in names:
                                        okp = True
                                ctx.ob(rid, okp, f.loc(x), "%s: a pause between two attempts never extends past the caller's deadline" % nm,
                                       "" if okp else "the pause is not compared with (or cut to) the time that is left: the call can return "
                                       "long after the time it was given", fn=f.label, inst=f.qname)
            ctx.ob(rid, ok3, site, "%s: the lock is taken with the %s constructor only (never blocks beyond the given time)"
                   % (nm, "try_to_lock" if want == "try" else "duration/time-point"),
                   "" if ok3 else "acquisition kinds: %s" % kinds, fn=f.label, inst=f.qname)
            if want == "timed":
                _timed_argument_unchanged(ctx, rid, f)


def _timed_argument_unchanged(ctx, rid, f):
    """a timed acquisition waits for exactly the time its caller asked for: the duration / time point reaches the lock
    constructor, the mutex's try_lock_for/until or the try_lock_*_for/until helper as the function's own parameter,
    not as something computed from it (another clock, another unit, a clamp)"""
    if not f.params:
        return
    last = "p:" + f.params[-1]["name"]
    sites = []
    for st in f.stmts.values():
        c = st.get("callee") or {}
        if st["k"] in CTORS and lock_class(st.get("t", "")) and len(st.get("args", [])) == 2 and \
                "std::chrono::" in strip_cvref((c.get("params") or ["", ""])[1]):
            sites.append((st, f.s(st["args"][1])))
        elif st["k"] == "CXXMemberCallExpr" and c.get("name") in ("try_lock_for", "try_lock_until", "try_lock_shared_for",
                                                                   "try_lock_shared_until", "wait_for", "wait_until") and st.get("args") \
                and c.get("fq", "").startswith("std::"):
            sites.append((st, f.s(st["args"][0 if not c.get("name", "").startswith("wait") else min(1, len(st["args"]) - 1)])))
        elif st["k"] == "CallExpr" and re.match(r"^gmlc::libguarded::try_lock_(shared_)?handle_(for|until)$", callee_fq(st)) and \
                len(st["args"]) == 3:
            sites.append((st, f.s(st["args"][2])))
    for st, a in sites:
        ok = path(f, a) == last
        au = unwrap(f, a)
        while au is not None and au["k"] in CTORS and len(au.get("args", [])) == 1:
            au = unwrap(f, f.s(au["args"][0]))
        if not ok and au is not None and au["k"] in ("BinaryOperator", "CXXOperatorCallExpr") and au.get("op") == "+":
            # the duration turned into a deadline for the `_until` form: <clock>::now() + d
            ops_ = f.children(au) if au["k"] == "BinaryOperator" else [f.s(x) for x in au["args"]]
            ps_ = [path(f, o) for o in ops_]
            nows = [o for o in ops_ if any(d["k"] == "CallExpr" and (d.get("callee") or {}).get("name") == "now" for d in [unwrap(f, o)] + list(f.descendants(o)) if d is not None)]
            ok = last in ps_ and len(nows) == 1
        ctx.ob(rid, ok, f.loc(st), "%s hands its own time argument to the timed acquisition" % f.name,
               "" if ok else "the acquisition waits for %s, not for the caller's %s: the wait can end long before or long after "
               "the time that was asked for" % (path(f, a) or "a computed value", last[2:]), fn=f.label, inst=f.qname)


def private_payload(ctx, rid, classes):
    ctx.rule(rid, "payload and mutex are private; no public method returns a bare reference or pointer "
             "to the payload", floor=len(classes) * 3)
    fb = ctx.fb
    for cls in classes:
        recs = list(fb.records(tmpl=cls))
        if not recs:
            ctx.broken("no instantiation of %s" % cls)
        for r in recs:
            site = "%s:%d" % (short(r.file), r.line)
            for fl in r.fields:
                if fl["name"] in ("enabled",):
                    continue
                ctx.ob(rid, fl["access"] == "private", site, "%s::%s is private" % (r.name, fl["name"]),
                       "access is " + fl["access"], inst=r.qname)
            payload = r.targs[0] if r.targs else None
        for f in fb.functions(rec=cls):
            if f.access != "public" or f.kind in ("ctor", "dtor"):
                continue
            rt = f.ret
            bad = False
            if rt.endswith("&") or rt.endswith("*"):
                core = strip_cvref(rt.rstrip("*").strip())
                if not core.startswith(cls):
                    bad = True
            if re.search(r"(__normal_iterator|_iterator<)", rt):
                bad = True
            ctx.ob(rid, not bad, f.where, "%s() does not return a bare reference/pointer/iterator into the payload" % f.name,
                   "returns " + rt if bad else "", fn=f.label, inst=f.qname)


# ------------------------------------------------------------------ C01.raii
RAW_MUTEX_OPS = ("lock", "unlock", "try_lock", "lock_shared", "unlock_shared", "try_lock_shared",
                 "try_lock_for", "try_lock_until", "try_lock_shared_for", "try_lock_shared_until")


def raw_mutex_ops(f):
    """raw operations that bypass RAII in function f: list of (stmt, text)"""
    out = []
    for st in f.stmts.values():
        if st["k"] == "CXXMemberCallExpr":
            obj = f.s(st["obj"])
            c = st.get("callee") or {}
            ot_ = obj.get("t", "") if obj is not None else ""
            if ot_.rstrip().endswith("*"):
                ot_ = ot_.rstrip()[:-1].rstrip()        # m_mutexPtr->unlock()
            if obj is not None and is_mutex_type(ot_) and c.get("name") in RAW_MUTEX_OPS:
                out.append((st, "raw %s() on mutex %s" % (c["name"], path(f, obj))))
            if obj is not None and lock_class(obj.get("t", "")) and c.get("name") == "release":
                out.append((st, "lock.release() abandons ownership without unlocking"))
        elif st["k"] in CTORS and lock_class(st.get("t", "")):
            pt = st["callee"].get("params", [])
            if len(pt) > 1 and strip_cvref(pt[1]) == "std::adopt_lock_t":
                out.append((st, "adopt_lock constructor (adopts a lock taken by hand)"))
        elif st["k"] == "CallExpr" and callee_fq(st) in ("std::lock", "std::try_lock"):
            # on deferred lock OBJECTS (`std::lock(wlock, rlock)`) the acquisitions stay owned by RAII objects
            if not all(lock_class(strip_cvref((f.s(a) or {}).get("t", ""))) for a in st["args"]):
                out.append((st, "std::lock/try_lock on bare mutexes"))
    return out


def _bracketed_raw_sections(f, ops):
    """True when every raw acquisition in `ops` is released by a raw unlock() of the same mutex on every path before
    anything that can throw or leave the function runs in between (`if (m.try_lock_for(d)) m.unlock();`): such a
    section cannot leak the mutex, which is all the RAII rule is there to guarantee"""
    acq = [(st, txt) for st, txt in ops if re.match(r"raw (lock|try_lock\w*|lock_shared|try_lock_shared\w*)\(\)", txt)]
    rel = [(st, txt) for st, txt in ops if re.match(r"raw unlock(_shared)?\(\)", txt)]
    if not acq or len(acq) + len(rel) != len(ops):
        return False
    relpos = {}
    for st, _t in rel:
        p_ = f.pos_of(st)
        if p_ is None:
            return False
        relpos[tuple(p_)] = path(f, f.s(st["obj"]))
    for st, txt in acq:
        m = path(f, f.s(st["obj"]))
        start = f.pos_of(st)
        if start is None or m is None:
            return False
        blocking = txt.startswith(("raw lock()", "raw lock_shared()"))
        seen, work = set(), [(start[0], start[1] + 1)]
        while work:
            b, i = work.pop()
            blk = f.blocks[b]
            stop = False
            while i < len(blk.elems):
                if relpos.get((b, i)) == m:
                    stop = True
                    break
                e = blk.elems[i]
                if e["k"] == "S":
                    x = f.stmts[e["s"]]
                    c = x.get("callee") if x["k"] in CALLS or x["k"] in CTORS else None
                    if c and not c.get("noexcept") and c.get("fq") not in ("std::move", "std::forward") and \
                            not (x["k"] == "CXXMemberCallExpr" and is_mutex_type((f.s(x["obj"]) or {}).get("t", ""))):
                        return False
                i += 1
            if stop:
                continue
            if b == f.exit and blocking:
                return False
            for s_ in blk.succs:
                if s_ is not None and s_ not in seen:
                    seen.add(s_)
                    work.append((s_, 0))
    return True


def raii_only(ctx, rid, files, floor=20):
    ctx.rule(rid, "no raw mutex lock()/unlock()/try_lock(), adopt_lock or lock.release(): every acquisition "
             "is an RAII object and is therefore released on every exit, including unwinding", floor=floor)
    fxb, _ = ctx.fx
    hit, quiet = False, False
    for f in fxb.functions():
        if f.qname == "fx::raw_mutex_user::f" and raw_mutex_ops(f) and not _bracketed_raw_sections(f, raw_mutex_ops(f)):
            hit = True
        if f.qname == "fx::raw_mutex_user::probe" and raw_mutex_ops(f) and _bracketed_raw_sections(f, raw_mutex_ops(f)):
            quiet = True
    if not (hit and quiet):
        ctx.broken("controls fx::raw_mutex_user: f() must be reported and probe() accepted by the raw-mutex rule (%s, %s)" % (hit, quiet))
    n = 0
    for f in ctx.fb.functions():
        if not in_files(f, files):
            continue
        ops = raw_mutex_ops(f)
        n += 1
        if ops and _bracketed_raw_sections(f, ops):
            ctx.ob(rid, True, f.where, "%s: raw mutex sections are released on every path with nothing that can throw in "
                   "between" % f.name, fn=f.label, inst=f.qname)
            continue
        if not ops:
            ctx.ob(rid, True, f.where, "%s contains no raw mutex operation" % f.name, fn=f.label, inst=f.qname)
            continue
        acquires = [(st, txt) for st, txt in ops if re.match(r"raw (lock|try_lock\w*|lock_shared|try_lock_shared\w*)\(\)", txt)
                    or txt.startswith("std::lock")]
        if acquires:
            # an acquisition by hand whose release is not guaranteed on every path (something in between can throw, or a
            # path leaves the function first)
            for st, txt in ops:
                ctx.ob(rid, False, f.loc(st), "%s contains no raw mutex operation" % f.name, txt, fn=f.label, inst=f.qname)
            continue
        # hand-over operations only (unlock of a mutex this function did not take by hand, lock.release(), adopt_lock):
        # wrong for certain when the mutex is also held by an RAII guard of this function (it is then unlocked twice),
        # otherwise part of an ownership protocol that spans functions, which this rule does not follow
        la = locks_of(ctx.eng, ctx.fb, f)
        for st, txt in ops:
            m = path(f, f.s(st["obj"])) if txt.startswith("raw unlock") else None
            pos = f.pos_of(st)
            dbl = m is not None and pos is not None and any(
                v.mutex == m and v.st in (HELD, MAYBE) for v in la.state_at(pos).values())
            adopted_twice = None
            if txt.startswith("adopt_lock constructor") and st.get("args"):
                # `lock_type(*other.mutex(), std::adopt_lock)`: the mutex is taken from a lock object that keeps owning it
                a0 = unwrap(f, f.s(st["args"][0]))
                if a0 is not None and a0["k"] == "UnaryOperator" and a0.get("op") == "*":
                    a0 = unwrap(f, f.children(a0)[0])
                if a0 is not None and a0["k"] == "CXXMemberCallExpr" and (a0.get("callee") or {}).get("name") == "mutex":
                    owner = path(f, f.s(a0.get("obj")))
                    released = any(s2["k"] == "CXXMemberCallExpr" and (s2.get("callee") or {}).get("name") == "release" and
                                   path(f, f.s(s2.get("obj"))) == owner for s2 in f.stmts.values())
                    if owner and not released:
                        adopted_twice = owner
            if adopted_twice:
                ctx.ob(rid, False, f.loc(st), "%s contains no raw mutex operation" % f.name,
                       "adopt_lock on the mutex of %s, which keeps owning it: one acquisition now has two owners and is released "
                       "twice (the second holder is left without protection as soon as the first lets go)" % adopted_twice,
                       fn=f.label, inst=f.qname)
            elif dbl:
                ctx.ob(rid, False, f.loc(st), "%s contains no raw mutex operation" % f.name,
                       txt + " while an RAII guard of this function owns the same mutex (it is unlocked a second time when the guard dies)",
                       fn=f.label, inst=f.qname)
            else:
                for ok_, site_, what_, detail_ in _flag_owner_hygiene(ctx, f, st, m):
                    ctx.ob(rid, ok_, site_, what_, detail_, fn=f.label, inst=f.qname)
                ctx.unknown("%s: %s: %s at %s hands lock ownership over outside RAII; whether every path releases the mutex "
                            "exactly once is not decided by this rule" % (rid, f.label, txt, f.loc(st)))
    return n


def _flag_owner_hygiene(ctx, f, st, m):
    """a member function unlocks a mutex by hand under a bool member ('if (m_locked) { m_locked = false; mtx.unlock(); }'):
    its class owns the lock through that flag.  Whatever the rest of the protocol is, such a class must behave like the
    RAII lock it replaces: its destructor releases, it cannot be copied, and a move hands the flag over (an implicit
    or defaulted move COPIES a bool: both objects then unlock).  Yields (ok, site, statement, detail)."""
    from .engine import describe_cond_arm
    if m is None or not f.rec:
        return
    if m.startswith("*this.") or m.startswith("this."):
        pass
    else:
        return
    recs = [r for r in ctx.fb.records() if r.qname == f.recq]
    if not recs:
        return
    r = recs[0]
    flag = None
    for fl in r.fields:
        if fl["type"] == "bool" and describe_cond_arm(f, st, "this." + fl["name"]) is True:
            flag = fl["name"]
    if flag is None:
        # ownership carried by a nullable pointer to the mutex: `if (m_mutex != nullptr) { m_mutex->unlock(); m_mutex = nullptr; }`
        from .typestate import NonNull
        pos_ = f.pos_of(st)
        nn_ = NonNull(f)
        for fl in r.fields:
            if fl["type"].rstrip().endswith("*") and pos_ is not None and \
                    ("nn", "this." + fl["name"]) in nn_.before.get(tuple(pos_), set()) and m.lstrip("*") == "this." + fl["name"]:
                flag = fl["name"]
    if flag is None:
        return
    site = "%s:%d" % (short(r.file), r.line)
    what = "%s owns %s through the flag %s" % (r.name, m[5:], flag)
    dt = [x for x in r.methods if x["kind"] == "dtor"]
    user_dt = [x for x in dt if not x.get("implicit") and not x.get("defaulted")]
    if not user_dt:
        yield (False, site, what + ": its destructor releases the lock", "no user-provided destructor: an object destroyed while the "
               "flag is set (a handle whose pointer was release()d, an exception between construction and hand-over) leaves the "
               "mutex locked for ever")
    else:
        ok = False
        for g in ctx.fb.functions(rec=f.rec):
            if g.kind == "dtor" and g.recq == f.recq:
                ok = any(t.startswith("raw unlock") and (path(g, g.s(s_["obj"])) or "").lstrip("*") == m.lstrip("*") for s_, t in raw_mutex_ops(g))
        yield (ok, site, what + ": its destructor releases the lock", "" if ok else "the destructor never unlocks " + m[5:])
    cc = [x for x in r.methods if x.get("copy_ctor") and not x.get("deleted")]
    yield (not cc, site, what + ": it cannot be copied", "" if not cc else "the %s copy constructor duplicates the flag: two objects "
           "unlock the same acquisition" % ("implicit" if cc[0].get("implicit") else "declared"))
    mv = [x for x in r.methods if x.get("move_ctor") and not x.get("deleted")]
    for x in mv:
        if x.get("implicit") or x.get("defaulted"):
            yield (False, site, what + ": a move hands the flag over", "the %s move constructor copies the flag: the moved-from object "
                   "still believes it owns the lock and unlocks it a second time (or while the new owner is still writing)"
                   % ("implicit" if x.get("implicit") else "defaulted"))
        else:
            ok = False
            for g in ctx.fb.functions(rec=f.rec):
                if g.kind == "ctor" and g.recq == f.recq and g.id == x.get("id") and g.params:
                    src = "p:%s.%s" % (g.params[0]["name"], flag)
                    for s_ in g.stmts.values():
                        if s_["k"] == "BinaryOperator" and s_.get("op") == "=" and path(g, g.children(s_)[0]) == src:
                            v = unwrap(g, g.children(s_)[1])
                            ok = v is not None and ((v["k"] == "CXXBoolLiteralExpr" and v["v"] is False) or
                                                    v["k"] in ("CXXNullPtrLiteralExpr", "GNUNullExpr"))
                    for i_ in g.inits:      # m_ptr(std::exchange(other.m_ptr, nullptr))
                        e_ = g.s(i_.get("init"))
                        if i_.get("field") == flag and e_ is not None and any(
                                d["k"] == "CallExpr" and callee_fq(d) == "std::exchange" for d in g.descendants(e_)):
                            ok = True
            yield (ok, site, what + ": a move hands the flag over", "" if ok else "the move constructor does not clear the source's " + flag)


# ---------------------------------------------------------------- lock order
def _field_type(fb, unit, rec_qname, field):
    for r in unit.records:
        if r.qname == rec_qname and not r.dependent:
            fl = r.field(field)
            if fl:
                return strip_cvref(fl["type"])
    return None


def mutex_node(fb, f, top, mpath):
    """abstract a mutex access path to 'Class<args>::field' by walking field
    types from `this`; parameters/locals keep their spelling"""
    if mpath is None:
        return None
    if not mpath.startswith("this"):
        return "%s::%s" % (top.qname, mpath)
    parts = re.split(r"\.|->", mpath)
    cur = top.recq if not top.is_lambda else top_function(fb, top).recq
    if len(parts) == 1:
        return cur
    for i, p in enumerate(parts[1:]):
        if i == len(parts) - 2:
            return "%s::%s" % (cur, p)
        t = _field_type(fb, f.unit, cur, p)
        if t is None:
            return "%s::%s" % (cur, ".".join(parts[i + 1:]))
        cur = t
    return cur


def lock_order(ctx, rid, scope_pred=None, floor=10):
    """A6: acyclic lock-order graph; no function re-acquires (blocking) a
    mutex that is held at the call"""
    ctx.rule(rid, "lock-order graph over all blocking acquisitions is acyclic and no blocking acquisition "
             "of a mutex happens while that mutex is already held (self-deadlock)", floor=floor)
    fb, eng = ctx.fb, ctx.eng
    # acquires summaries: function id -> set of (mutex path in its own names, node)
    acq = {}
    fns = [f for f in fb.functions() if scope_pred is None or scope_pred(f)]
    for f in fns:
        la = locks_of(eng, fb, f)
        top = top_function(fb, f) if f.is_lambda else f
        s = set()
        for pos, key, v, kind, st in la.acquire_events:
            if kind is True and v.mutex:
                s.add((v.mutex, mutex_node(fb, f, top, v.mutex)))
        acq[(f.unit.name, f.uid)] = s
    # propagate through calls on this / members (bounded)
    changed = True
    rounds = 0
    from .engine import subst
    while changed and rounds < 6:
        changed = False
        rounds += 1
        for f in fns:
            mine = acq[(f.unit.name, f.uid)]
            top = top_function(fb, f) if f.is_lambda else f
            for st in f.stmts.values():
                if st["k"] not in CALLS:
                    continue
                g = fb.callee_fn(f, st)
                if g is None or (g.unit.name, g.uid) not in acq or g is f:
                    continue
                mapping = {}
                if st["k"] == "CXXMemberCallExpr":
                    mapping["this"] = path(f, f.s(st["obj"]))
                for mp, node in acq[(g.unit.name, g.uid)]:
                    if mp.startswith("this") and mapping.get("this"):
                        np_ = subst(mp, mapping)
                    else:
                        np_ = None
                    item = (np_ or ("<%s>" % node), node)
                    if item not in mine:
                        mine.add(item)
                        changed = True
    edges = {}
    n = 0
    for f in fns:
        la = locks_of(eng, fb, f)
        top = top_function(fb, f) if f.is_lambda else f
        # direct acquisitions
        for pos, key, v, kind, st in la.acquire_events:
            if kind is not True or not v.mutex:
                continue
            node = mutex_node(fb, f, top, v.mutex)
            held = [(m, mutex_node(fb, f, top, m)) for m, _mode, k in la.held_at(pos) if k != key]
            selfdead = any(m == v.mutex for m, _ in held)
            ctx.ob(rid, not selfdead, f.loc(st), "blocking acquisition of %s does not happen while it is held" % node,
                   "already held here" if selfdead else "", fn=top.label, inst=f.qname)
            n += 1
            for m, hn in held:
                if hn != node or m != v.mutex:
                    edges.setdefault((hn, node), []).append(f.loc(st))
        # acquisitions inside callees
        for st in f.stmts.values():
            if st["k"] not in CALLS:
                continue
            g = fb.callee_fn(f, st)
            if g is None or (g.unit.name, g.uid) not in acq:
                continue
            pos = f.pos_of(st)
            if pos is None:
                continue
            held = [(m, mutex_node(fb, f, top, m)) for m, _mode, _k in la.held_at(pos)]
            if not held:
                continue
            mapping = {}
            if st["k"] == "CXXMemberCallExpr":
                mapping["this"] = path(f, f.s(st["obj"]))
            for mp, node in acq[(g.unit.name, g.uid)]:
                ap = subst(mp, mapping) if (mp.startswith("this") and mapping.get("this")) else None
                selfdead = any(m == ap for m, _ in held) if ap else False
                ctx.ob(rid, not selfdead, f.loc(st),
                       "call to %s (which blocks on %s) is not made while that mutex is held" % (g.name, node),
                       "the caller holds %s" % ap if selfdead else "", fn=top.label, inst=f.qname)
                n += 1
                for m, hn in held:
                    if not (ap and m == ap):
                        edges.setdefault((hn, node), []).append(f.loc(st))
    # cycle detection on nodes
    graph = {}
    for (a, b), sites in edges.items():
        graph.setdefault(a, set()).add(b)
    cyc = _find_cycle(graph)
    ctx.ob(rid, cyc is None, "lock-order-graph", "lock-order graph is acyclic (%d edges)" % len(edges),
           "" if cyc is None else "cycle: " + " -> ".join(cyc) + " at " +
           ", ".join(edges.get((cyc[i], cyc[i + 1]), ["?"])[0] for i in range(len(cyc) - 1)))
    ctx.note("lock-order edges: " + "; ".join("%s -> %s" % (_abbr(a), _abbr(b)) for (a, b) in sorted(edges)))
    return n


def _abbr(s):
    s = re.sub(r"<.*>", "<>", s)
    return s.replace("gmlc::libguarded::", "").replace("gmlc::concurrency::", "")


def _find_cycle(graph):
    WHITE, GREY, BLACK = 0, 1, 2
    color = {}
    stack = []

    def dfs(u):
        color[u] = GREY
        stack.append(u)
        for v in sorted(graph.get(u, ())):
            if color.get(v, WHITE) == GREY:
                return stack[stack.index(v):] + [v]
            if color.get(v, WHITE) == WHITE:
                r = dfs(v)
                if r:
                    return r
        stack.pop()
        color[u] = BLACK
        return None
    for u in sorted(graph):
        if color.get(u, WHITE) == WHITE:
            r = dfs(u)
            if r:
                return r
    return None


# ----------------------------------------------------------------- witnesses
_WIT_CACHE = {}


def _compile(src, extra=()):
    cmd = ["clang++", "-std=c++17", "-fsyntax-only", "-ferror-limit=0", "-Wno-everything",
           "-I" + os.path.join(REPO, "gmlc")] + list(extra) + [src]
    r = subprocess.run(cmd, stdout=subprocess.PIPE, stderr=subprocess.STDOUT, text=True)
    errs = []
    for line in r.stdout.splitlines():
        m = re.match(r"^(.*?):(\d+):(\d+): (fatal error|error): (.*)$", line)
        if m:
            errs.append((m.group(1), int(m.group(2)), m.group(5)))
    return errs, r.stdout


def witnesses(ctx, rid, tags):
    """A9: client snippets that must NOT compile (each numbered witness must
    produce >= 1 error inside its own lines) and counterparts that must."""
    ctx.rule(rid, "compile-fail witnesses: client code that would break the property is rejected by the "
             "type system; the legal counterparts compile", floor=1)
    neg = os.path.join(VERIF, "drivers", "witness_neg.cpp")
    pos = os.path.join(VERIF, "drivers", "witness_pos.cpp")
    key = "all"
    if key not in _WIT_CACHE:
        nerrs, nout = _compile(neg)
        perrs, pout = _compile(pos)
        _WIT_CACHE[key] = (nerrs, perrs, pout)
    nerrs, perrs, pout = _WIT_CACHE[key]
    # parse witness regions
    regions = []
    cur = None
    for i, line in enumerate(open(neg), 1):
        m = re.match(r"\s*// WITNESS (\S+) \[([^\]]*)\] (.*)$", line)
        if m:
            cur = dict(id=m.group(1), props=m.group(2).split(","), text=m.group(3), start=i, end=None)
            continue
        if re.match(r"\s*// END", line) and cur:
            cur["end"] = i
            regions.append(cur)
            cur = None
    if not regions:
        ctx.broken("no witnesses found in witness_neg.cpp")
    # errors outside any witness region in the negative file mean the file itself is broken
    for fpath, ln, msg in nerrs:
        if os.path.abspath(fpath) == os.path.abspath(neg) and not any(r["start"] <= ln <= r["end"] for r in regions):
            ctx.broken("witness_neg.cpp has an error outside every witness (line %d: %s)" % (ln, msg))
    if perrs:
        ctx.broken("positive witnesses do not compile: %s:%d %s" % (short(perrs[0][0]), perrs[0][1], perrs[0][2]))
    n = 0
    for r in regions:
        if not any(t in r["props"] for t in tags):
            continue
        hits = [e for e in nerrs if os.path.abspath(e[0]) == os.path.abspath(neg) and r["start"] <= e[1] <= r["end"]]
        ok = bool(hits)
        ctx.ob(rid, ok, "drivers/witness_neg.cpp:%d" % r["start"], "must not compile: " + r["text"],
               hits[0][2][:140] if ok else "the compiler ACCEPTS this client code", fn="witness " + r["id"])
        n += 1
    if n == 0:
        ctx.broken("no witness tagged for %s" % tags)
    return n


def generic_witnesses(ctx, rid, tags):
    """A9, positive direction: legal client code written against the least capable template arguments the interface
    accepts must keep compiling; a region that no longer compiles is reported for the property it is tagged with"""
    ctx.rule(rid, "generic-client witnesses compile: the library demands nothing of its template arguments beyond what the "
             "property's clients have to provide", floor=1)
    src = os.path.join(VERIF, "drivers", "witness_generic.cpp")
    if "generic" not in _WIT_CACHE:
        cmd = ["clang++", "-std=c++17", "-fsyntax-only", "-ferror-limit=0", "-Wno-everything", "-I" + os.path.join(REPO, "gmlc"), src]
        r = subprocess.run(cmd, stdout=subprocess.PIPE, stderr=subprocess.STDOUT, text=True)
        groups, cur = [], None
        for line in r.stdout.splitlines():
            m = re.match(r"^(.*?):(\d+):(\d+): (fatal error|error|note): (.*)$", line)
            if not m:
                continue
            if m.group(4) != "note":
                cur = dict(file=m.group(1), line=int(m.group(2)), msg=m.group(5), here=[])
                groups.append(cur)
                if os.path.abspath(m.group(1)) == os.path.abspath(src):
                    cur["here"].append(int(m.group(2)))
            elif cur is not None and os.path.abspath(m.group(1)) == os.path.abspath(src):
                cur["here"].append(int(m.group(2)))
        _WIT_CACHE["generic"] = groups
    groups = _WIT_CACHE["generic"]
    regions, cur = [], None
    for i, line in enumerate(open(src), 1):
        m = re.match(r"\s*// GENERIC (\S+) \[([^\]]*)\] (.*)$", line)
        if m:
            cur = dict(id=m.group(1), props=m.group(2).split(","), text=m.group(3), start=i, end=None)
        elif re.match(r"\s*// END", line) and cur:
            cur["end"] = i
            regions.append(cur)
            cur = None
    for g in groups:
        if not any(r_["start"] <= ln <= r_["end"] for ln in g["here"] for r_ in regions):
            ctx.broken("witness_generic.cpp: error outside every region: %s:%d %s" % (short(g["file"]), g["line"], g["msg"][:120]))
    n = 0
    for r_ in regions:
        if not any(t in r_["props"] for t in tags):
            continue
        hits = [g for g in groups if any(r_["start"] <= ln <= r_["end"] for ln in g["here"])]
        ctx.ob(rid, not hits, "%s:%d" % (short(hits[0]["file"]), hits[0]["line"]) if hits else "drivers/witness_generic.cpp:%d" % r_["start"],
               "must compile: " + r_["text"], "" if not hits else "rejected: %s (client code at drivers/witness_generic.cpp:%d)"
               % (hits[0]["msg"][:160], min(hits[0]["here"])), fn="generic witness " + r_["id"])
        n += 1
    if n == 0:
        ctx.broken("no generic witness tagged for %s" % tags)
    return n


# -------------------------------------------------- acquisition summaries (C08)
ACQ_METHODS = ("lock", "try_lock", "try_lock_for", "try_lock_until", "lock_shared",
               "try_lock_shared", "try_lock_shared_for", "try_lock_shared_until")


def acquisition_summaries(ctx, rid, classes, opt_classes=()):
    """A2 summaries of every acquisition method of the wrappers:
       lock/lock_shared      -> one alternative: (&m_obj, own mutex, held, blocking)
       try_*                 -> exactly {(&m_obj, own mutex, held), (null, -, unowned)}, non-blocking
       *_opt, enabled==false -> (&m_obj, no mutex, unowned): immediate, never waits"""
    ctx.rule(rid, "every acquisition method returns a handle that is non-null exactly on the path where it "
             "holds the object's own mutex; try forms never use a blocking acquisition; with locking disabled "
             "the handle is usable and no mutex is involved", floor=40)
    fb, eng = ctx.fb, ctx.eng
    for cls in classes:
        seen = 0
        for f in fb.functions(rec=cls):
            if f.name not in ACQ_METHODS:
                continue
            seen += 1
            s = eng.handle_summary(f)
            site = f.where
            if s is None:
                ctx.unknown("%s: cannot summarise the handle returned by %s::%s at %s" % (rid, cls.split("::")[-1], f.name, site))
                continue
            is_try = f.name.startswith("try_")
            if f.name.endswith(("_for", "_until")):
                _timed_argument_unchanged(ctx, rid, f)
            en = [a for a in s if not (a.get("cond") and a["cond"][0] == "this.enabled" and a["cond"][1] is False)]
            dis = [a for a in s if a.get("cond") and a["cond"][0] == "this.enabled" and a["cond"][1] is False]
            if cls in opt_classes:
                ok = bool(dis) and all(a["data"] == "&this.m_obj" and a["st"] == UNOWNED
                                       and not a["blocking"] for a in dis)
                ctx.ob(rid, ok, site, "%s with locking disabled returns a usable handle whose lock owns nothing (a default-constructed or deferred lock)"
                       % f.name, "" if ok else "disabled alternatives: %s" % _alts(dis), fn=f.label, inst=f.qname)
                ok = all(a.get("cond") and a["cond"] == ("this.enabled", True) for a in en) and bool(en)
                ctx.ob(rid, ok, site, "%s locks exactly when 'enabled' is true" % f.name,
                       "" if ok else "alternatives not conditioned on enabled: %s" % _alts(en), fn=f.label, inst=f.qname)
            else:
                ok = not dis
                ctx.ob(rid, ok, site, "%s has no lock-free alternative" % f.name, "" if ok else _alts(dis),
                       fn=f.label, inst=f.qname)
            if is_try:
                owned = [a for a in en if a["st"] == HELD]
                rest = [a for a in en if a["st"] != HELD]
                ok = (bool(owned) and all(a["data"] == "&this.m_obj" and a["mutex"] == "this.m_mutex" for a in owned)
                      and bool(rest) and all(a["data"] is None and a["st"] == UNOWNED for a in rest))
                ctx.ob(rid, ok, site, "%s returns &m_obj iff it owns m_mutex, a null handle otherwise" % f.name,
                       "" if ok else "alternatives: %s" % _alts(en), fn=f.label, inst=f.qname)
                ok = not any(a["blocking"] for a in en)
                ctx.ob(rid, ok, site, "%s never uses a blocking acquisition" % f.name,
                       "" if ok else "a return path acquires with the blocking constructor", fn=f.label, inst=f.qname)
            else:
                ok = bool(en) and all(a["data"] == "&this.m_obj" and a["mutex"] == "this.m_mutex" and
                                      a["st"] == HELD and a["blocking"] for a in en)
                ctx.ob(rid, ok, site, "%s returns &m_obj with m_mutex held (blocking acquisition)" % f.name,
                       "" if ok else "alternatives: %s" % _alts(en), fn=f.label, inst=f.qname)
            # handle mode fits the method: exclusive forms must be X
            shared = "shared" in f.name or f.constm
            if not shared:
                ok = all(a["mode"] == "X" for a in en)
                ctx.ob(rid, ok, site, "%s (exclusive form) holds the mutex in exclusive mode" % f.name,
                       "" if ok else _alts(en), fn=f.label, inst=f.qname)
        if seen == 0:
            ctx.broken("class %s has no acquisition method instantiated" % cls)
        # any OTHER public operation that hands out a handle (added later: try_lock_if, lock_when, ...) obeys the typestate
        # itself: on each of its return paths the handle is non-null exactly when it holds the object's own mutex
        for f in fb.functions(rec=cls):
            if f.name in ACQ_METHODS or f.access != "public" or f.kind in ("ctor", "dtor") or not handle_class(f.ret):
                continue
            s = eng.handle_summary(f)
            if s is None:
                ctx.unknown("%s: cannot summarise the handle returned by %s::%s at %s" % (rid, cls.split("::")[-1], f.name, f.where))
                continue
            for a in s:
                disabled = cls in opt_classes and a.get("cond") and a["cond"][0] == "this.enabled" and a["cond"][1] is False
                if disabled:
                    ok = a["st"] == UNOWNED
                elif a["st"] == HELD:
                    ok = a["data"] == "&this.m_obj" and a["mutex"] == "this.m_mutex"
                elif a["st"] == UNOWNED:
                    ok = a["data"] is None
                elif a["data"] is None:
                    ok = False      # a null handle on a path where the lock may still be owned
                else:
                    ctx.unknown("%s: %s::%s at %s returns a handle whose lock may or may not be owned with data %s; the rule cannot "
                                "relate the two" % (rid, cls.split("::")[-1], f.name, f.where, a["data"]))
                    continue
                ctx.ob(rid, ok, a.get("site") or f.where, "%s hands out a handle that is non-null exactly when it holds m_mutex" % f.name,
                       "" if ok else "a return path yields (data=%s, lock %s on %s): %s" % (
                           a["data"], a["st"], a["mutex"], "a null handle that keeps the object locked until it is destroyed"
                           if a["data"] is None else "a non-null handle that does not hold the lock"), fn=f.label, inst=f.qname)


def _alts(s):
    return "; ".join("(data=%s mutex=%s %s%s)" % (a["data"], a["mutex"], a["st"], " blocking" if a.get("blocking") else "")
                     for a in s)


def unlock_rule(ctx, rid, cls):
    """handle.unlock(): data is null afterwards on every path; the lock is
    released iff owned; operator bool is (data != nullptr)"""
    ctx.rule(rid, "unlock() nulls the pointer on every path and releases the lock iff it is owned (exactly once); "
             "operator bool is data != nullptr", floor=6)
    from .engine import LockAnalysis, LockVal
    fb, eng = ctx.fb, ctx.eng
    n = 0
    for f in fb.functions(rec=cls, name="unlock"):
        n += 1
        site = f.where
        # data = nullptr post-dominates the entry
        assigns = []
        for st in f.stmts.values():
            if st["k"] == "BinaryOperator" and st["op"] == "=" and path(f, f.children(st)[0]) == "this.data":
                r = unwrap(f, f.children(st)[1])
                if r is not None and r["k"] == "CXXNullPtrLiteralExpr":
                    assigns.append(st)
        ok = any(f.pos_of(a) is not None and f.postdominates(f.pos_of(a), (f.entry, 0)) for a in assigns)
        ctx.ob(rid, ok, site, "unlock() sets data to nullptr on every path", "" if ok else
               "no 'data = nullptr' that post-dominates the entry", fn=f.label, inst=f.qname)
        la = LockAnalysis(eng, f, entry_state={"this.m_handle_lock": LockVal("<handle mutex>", "X", MAYBE)})
        bad = None
        calls = 0
        for st in f.stmts.values():
            if st["k"] == "CXXMemberCallExpr" and st["callee"]["name"] == "unlock" and \
                    path(f, f.s(st["obj"])) == "this.m_handle_lock":
                calls += 1
                v = la.state_at(f.pos_of(st)).get("this.m_handle_lock")
                if v is None or v.st != HELD:
                    bad = f.loc(st)
        ctx.ob(rid, calls >= 1 and bad is None, site, "m_handle_lock.unlock() is called only where owns_lock() is known true",
               "" if calls >= 1 and bad is None else ("unlock() on a possibly unowned lock at %s" % bad if bad else
                                                      "the lock is never released"), fn=f.label, inst=f.qname)
        exit_state = la.block_in.get(f.exit, {})
        v = exit_state.get("this.m_handle_lock")
        ok = v is not None and v.st == UNOWNED
        ctx.ob(rid, ok, site, "after unlock() the handle's lock is unowned on every path",
               "" if ok else "state at exit: %s" % (v.st if v else "?"), fn=f.label, inst=f.qname)
    for f in fb.functions(rec=cls, name="operator bool"):
        n += 1
        rets = [s for s in f.stmts.values() if s["k"] == "ReturnStmt"]
        ok = False
        if len(rets) == 1:
            e = unwrap(f, f.children(rets[0])[0])

            def is_data_test(x):
                x = unwrap(f, x)
                if x is not None and x["k"] == "BinaryOperator" and x["op"] == "!=":
                    l, r = f.children(x)
                    return {path(f, l) or unwrap(f, l)["k"], path(f, r) or unwrap(f, r)["k"]} == {"this.data", "CXXNullPtrLiteralExpr"}
                return x is not None and path(f, x) == "this.data"

            def about_own_lock(x):
                # a further condition may only look at the handle's own lock object (owns_lock(), mutex()): then `true`
                # still implies a non-null pointer, and a handle that holds its lock and has its pointer is still `true`
                x = unwrap(f, x)
                fields = {d["m"]["name"] for d in [x] + list(f.descendants(x)) if d is not None and d["k"] == "MemberExpr" and d["m"].get("is_field")}
                calls_ = {(d.get("callee") or {}).get("name") for d in [x] + list(f.descendants(x)) if d is not None and d["k"] in CALLS}
                return fields <= {"m_handle_lock"} and calls_ <= {"owns_lock", "mutex", "operator bool", None} and bool(fields)
            if is_data_test(e):
                ok = True
            elif e is not None and e["k"] == "BinaryOperator" and e.get("op") == "&&":
                l, r = f.children(e)
                ok = (is_data_test(l) and about_own_lock(r)) or (is_data_test(r) and about_own_lock(l))
        ctx.ob(rid, ok, f.where, "operator bool is true only for a handle with a pointer (data != nullptr, possibly and-ed with a test "
               "of its own lock)", "" if ok else "different expression",
               fn=f.label, inst=f.qname)
    if n == 0:
        ctx.broken("no unlock()/operator bool instantiation of %s" % cls)


# ------------------------------------------------------------- call closure
def call_closure(fb, f, limit=400):
    """functions (with bodies under the roots) reachable from f through
    resolved callees; virtual calls fan out to every same-named virtual
    override that was extracted.  Returns list of (function, via call stmt, caller)."""
    seen = {(f.unit.name, f.uid)}
    out = [(f, None, None)]
    work = [f]
    while work and len(out) < limit:
        g = work.pop()
        for st in g.stmts.values():
            cands = []
            if st["k"] in CALLS or st["k"] in CTORS:
                c = st.get("callee")
                if not c:
                    continue
                h = g.unit.fn_by_id.get(c["id"])
                if h is not None:
                    cands.append(h)
                elif c.get("virtual"):
                    for h2 in g.unit.functions:
                        if h2.name == c["name"] and h2.d.get("virtual") and not h2.invalid:
                            cands.append(h2)
            elif st["k"] == "LambdaExpr":
                for oid in st.get("call_ops", []):
                    h = g.unit.fn_by_id.get(oid)
                    if h is not None:
                        cands.append(h)
            for h in cands:
                k = (h.unit.name, h.uid)
                if k in seen or h.invalid:
                    continue
                seen.add(k)
                out.append((h, st, g))
                work.append(h)
        # implicit destructor calls of in-repo types
        for b in g.blocks.values():
            for e in b.elems:
                d = e.get("dtor") if isinstance(e.get("dtor"), dict) else None
                if d and d.get("id"):
                    h = g.unit.fn_by_id.get(d["id"])
                    if h is not None and (h.unit.name, h.uid) not in seen and not h.invalid:
                        seen.add((h.unit.name, h.uid))
                        out.append((h, None, g))
                        work.append(h)
    return out


def try_paths_nonblocking(ctx, rid, classes):
    """C08.nonblocking: nothing reachable from a try_* acquisition method
    blocks on the object's own mutex (the try forms must give up, not wait);
    other blocking acquisitions must be on the short internal sections listed
    in tables/internal_sections.json"""
    import json
    tab = json.load(open(os.path.join(VERIF, "tables", "internal_sections.json")))["allowed"]
    ctx.rule(rid, "try_* acquisition methods never reach a blocking acquisition of the object's own mutex; any "
             "other blocking acquisition on the way is one of the listed short internal sections", floor=20)
    fb, eng = ctx.fb, ctx.eng
    for cls in classes:
        for f in fb.functions(rec=cls):
            if not f.name.startswith("try_"):
                continue
            viol = []
            n_int = 0
            for g, via, caller in call_closure(fb, f):
                la = locks_of(eng, fb, g)
                top = top_function(fb, g) if g.is_lambda else g
                for pos, key, v, kind, st in la.acquire_events:
                    if kind is not True or not v.mutex:
                        continue
                    if v.mutex.startswith("p:") and (handle_class(g.recq or "") or
                                                     g.fq.startswith("gmlc::libguarded::try_lock_") or
                                                     g.rec == "gmlc::libguarded::shared_locker"):
                        continue    # accounted for at the construct/call expression in the caller
                    node = mutex_node(fb, g, top, v.mutex)
                    if top.rec == cls and v.mutex == "this.m_mutex":
                        viol.append("%s blocks on the object's own m_mutex at %s" % (g.name, g.loc(st)))
                        continue
                    okn = any(re.search(a["node"], node or "") for a in tab)
                    if okn:
                        n_int += 1
                    elif top.rec == cls and v.mutex.startswith("this.") and "." not in v.mutex[5:] and "->" not in v.mutex:
                        viol.append("%s blocks on %s at %s" % (g.name, node, g.loc(st)))
                    else:
                        # a lock inside another object (an internal section this table does not know): whether a try form may
                        # wait for it depends on what runs under it - undecided until it was read and listed
                        ctx.unknown("%s: %s: %s blocks on %s, which tables/internal_sections.json does not list "
                                    "(read what runs under it, then list it)" % (rid, g.loc(st), g.name, node))
            ctx.ob(rid, not viol, f.where, "%s::%s cannot wait for the object's mutex" % (cls.split("::")[-1], f.name),
                   "; ".join(viol[:3]), fn=f.label, inst=f.qname)


# ----------------------------------------------------- rcu_list writer guard
RCU = "gmlc::libguarded::rcu_list"


def rcu_writer_mutexes(ctx):
    """names of the mutex members of rcu_list (one on the reference tree)"""
    out = []
    for r in ctx.fb.records(tmpl=RCU):
        for fl in r.fields:
            if is_mutex_type(fl["type"]) and fl["name"] not in out:
                out.append(fl["name"])
    return out


def load_feeds_store(f, op):
    """does the value of atomic load `op` travel into a later store of f (as the stored value or as the object stored
    through)?  A sampled link that only decides a branch or becomes the result does not re-link anything."""
    from .engine import atomic_ops
    var = None
    par = f.par(op["st"])
    while par is not None and par["k"] not in ("DeclStmt", "CompoundStmt", "IfStmt", "WhileStmt", "ForStmt", "ReturnStmt"):
        par = f.par(par)
    if par is not None and par["k"] == "DeclStmt":
        for d in par["decls"]:
            if d.get("init") and any(x["id"] == op["st"]["id"] for x in [f.s(d["init"])] + list(f.descendants(f.s(d["init"])))):
                var = d["id"]
    elif par is not None and par["k"] in ("IfStmt", "WhileStmt", "ForStmt", "ReturnStmt"):
        return False        # used in a condition / returned
    if var is None:
        return True
    vs = {var}
    grown = True
    while grown:
        grown = False
        for s2 in f.stmts.values():
            if s2["k"] == "DeclStmt":
                for d2 in s2["decls"]:
                    if d2["id"] not in vs and d2.get("init") and any(
                            x["k"] == "DeclRefExpr" and x["d"].get("id") in vs for x in f.descendants(f.s(d2["init"]))):
                        vs.add(d2["id"])
                        grown = True
    for o2 in atomic_ops(f):
        if o2["op"] not in ("store", "rmw", "cas"):
            continue
        for sub_ in ([o2.get("value")] if o2.get("value") is not None else []) + [f.s(o2["st"].get("obj"))]:
            if sub_ is not None and any(x["k"] == "DeclRefExpr" and x["d"].get("id") in vs for x in [sub_] + list(f.descendants(sub_))):
                return True
    return False


def _rcu_multi_lockset(ctx, rid, mutexes):
    """several writer mutexes: each link field (m_head, m_tail, node::next, node::back) and node::deleted needs ONE mutex
    that every store to it holds.  Decided as far as a flow-insensitive lock state allows: a field whose stores do not even
    share a POSSIBLY held mutex is reported; a field whose common mutex is held only on some paths is undecided."""
    from .engine import atomic_ops, atomic_field_of
    from .rcu import insertion_body, node_names
    fb, eng = ctx.fb, ctx.eng
    sites = {}
    for f in fb.functions(rec=RCU):
        if f.kind in ("ctor", "dtor"):
            continue
        la = eng.locks(f)
        fresh = set()
        ib = insertion_body(f)
        if ib is not None and ib[0] is f:
            fresh = node_names(f, ib[1])
        for op in atomic_ops(f):
            if op["op"] not in ("store", "rmw", "cas") or not re.search(r"::node \*>$", op["objtype"]):
                continue
            fld = atomic_field_of(f, op)
            if fld is None:
                continue
            if any((op.get("obj") or "").startswith(x + "->") or (op.get("obj") or "").startswith(x + ".") for x in fresh):
                continue        # links of the node being built: not shared yet
            pos = f.pos_of(op["st"])
            st_ = la.state_at(pos) if pos is not None else {}
            may = {v.mutex for v in st_.values() if v.mutex and v.mode == "X" and v.st in (HELD, MAYBE)}
            must = {v.mutex for v in st_.values() if v.mutex and v.mode == "X" and v.st == HELD}
            sites.setdefault(fld[1], []).append((f, op, may, must))
    n = 0
    undecided = []
    for fld, ss in sorted(sites.items()):
        may_c = set.intersection(*[s[2] for s in ss])
        must_c = set.intersection(*[s[3] for s in ss])
        n += 1
        if not may_c:
            cnt = {}
            for s in ss:
                for m in s[2]:
                    cnt[m] = cnt.get(m, 0) + 1
            top = max(cnt, key=cnt.get) if cnt else None
            bad = [s for s in ss if top not in s[2]] or ss
            f, op = bad[0][0], bad[0][1]
            ctx.ob(rid, False, f.loc(op["st"]), "every store to %s is made under one and the same writer mutex" % fld,
                   "%s stores %s holding %s, other writers of %s hold %s: two writers can link through this field at the same time and "
                   "one element is lost" % (f.name, fld, ", ".join(sorted(m[5:] for m in bad[0][2])) or "nothing", fld,
                                           (top or "?")[5:]), fn=f.label, inst=f.qname)
        elif not must_c:
            undecided.append(fld)
            ctx.ob(rid, True, ss[0][0].loc(ss[0][1]["st"]), "the stores to %s share a possibly held writer mutex (%s)" % (
                fld, ", ".join(sorted(m[5:] for m in may_c))), "")
        else:
            ctx.ob(rid, True, ss[0][0].loc(ss[0][1]["st"]), "every store to %s is made under %s" % (fld, ", ".join(sorted(m[5:] for m in must_c))), "")
    if undecided:
        ctx.unknown("%s: rcu_list has several writer mutexes (%s); for %s the mutex the stores have in common is taken on some paths "
                    "only - whether those are the paths that store is not decided" % (rid, ", ".join(mutexes), ", ".join(undecided)))
    else:
        ctx.unknown("%s: rcu_list has several writer mutexes (%s); the rules that serialise writers through m_write_mutex alone do not "
                    "describe that representation" % (rid, ", ".join(mutexes)))
    return n


def rcu_writer_guard(ctx, rid, floor=20, loads=True):
    """every store to m_head / m_tail / node::next / node::back, every load of them made by a function that also
    stores (a writer's read-modify-write of the structure must not be split by another writer) and every access
    to node::deleted in rcu_list's member functions happens with m_write_mutex
    held by a blocking RAII lock (mutations take effect one at a time; the
    deleted test-and-set is atomic, so a node gets exactly one log record)"""
    from .engine import atomic_ops
    ctx.rule(rid, "all mutations of the list structure (m_head, m_tail, node::next/back, node::deleted) and the "
             "test of node::deleted happen with m_write_mutex held", floor=floor)
    fb, eng = ctx.fb, ctx.eng
    n = 0
    mx = rcu_writer_mutexes(ctx)
    if len(mx) > 1:
        return _rcu_multi_lockset(ctx, rid, mx)
    for f in fb.functions(rec=RCU):
        if f.kind in ("ctor", "dtor"):
            continue
        la = eng.locks(f)
        mutator = any(op["op"] in ("store", "rmw", "cas") and re.search(r"::node \*>$", op["objtype"]) for op in atomic_ops(f))
        for op in atomic_ops(f):
            if op["op"] not in ("store", "rmw", "cas") and not (mutator and (loads is True or (loads and f.name in loads))):
                continue        # readers (begin, iterators) follow the links without the mutex
            if not re.search(r"::node \*>$", op["objtype"]):
                continue
            pos = f.pos_of(op["st"])
            ok = pos is not None and la.holds(pos, "this.m_write_mutex", "X")
            why = "write mutex not held here"
            if not ok and op["op"] == "load":
                # a link sampled before the mutex is harmless as long as it only travels into the result; it must not feed
                # the re-linking (the value or the object of a later store)
                var = None
                par = f.par(op["st"])
                while par is not None and par["k"] != "DeclStmt":
                    par = f.par(par)
                if par is not None:
                    for d in par["decls"]:
                        if d.get("init") and any(x["id"] == op["st"]["id"] for x in f.descendants(f.s(d["init"]))):
                            var = d["id"]
                feeds = False
                if var is not None:
                    vs = {var}
                    grown = True
                    while grown:        # copies of the sampled value
                        grown = False
                        for s2 in f.stmts.values():
                            if s2["k"] == "DeclStmt":
                                for d2 in s2["decls"]:
                                    if d2["id"] not in vs and d2.get("init") and any(
                                            x["k"] == "DeclRefExpr" and x["d"].get("id") in vs for x in f.descendants(f.s(d2["init"]))):
                                        vs.add(d2["id"])
                                        grown = True
                    for o2 in atomic_ops(f):
                        if o2["op"] not in ("store", "rmw", "cas"):
                            continue
                        for sub_ in ([o2.get("value")] if o2.get("value") is not None else []) + [f.s(o2["st"].get("obj"))]:
                            if sub_ is not None and any(x["k"] == "DeclRefExpr" and x["d"].get("id") in vs for x in f.descendants(sub_)):
                                feeds = True
                else:
                    feeds = True
                if not feeds:
                    ok = True
            if not ok and f.access != "public":
                # a non-public linking helper inherits the lock from its callers: every call site must hold it
                from .guards import _callers_hold
                ok = _callers_hold(ctx, RCU, f, "this.m_write_mutex", "X")
                why = "write mutex not held here, and not at every call of the private helper %s either" % f.name
            ctx.ob(rid, ok, f.loc(op["st"]), "%s of %s under m_write_mutex" % (op["name"], op["obj"]),
                   "" if ok else why, fn=f.label, inst=f.qname)
            n += 1
        for st in f.stmts.values():
            if st["k"] == "MemberExpr" and st["m"].get("is_field") and st["m"]["name"] == "deleted" and \
                    st["m"].get("rec") == RCU + "::node":
                pos = f.pos_of(st)
                ok = pos is not None and la.holds(pos, "this.m_write_mutex", "X")
                ctx.ob(rid, ok, f.loc(st), "node::deleted is tested and set under m_write_mutex",
                       "" if ok else "write mutex not held here (check-then-lock: two erasers can both pass)",
                       fn=f.label, inst=f.qname)
                n += 1
    return n


# ----------------------------------------------------------- atomic floors A7
def atomic_floors(ctx, rid, owners, floor=1, files=None):
    """every atomic operation on a field of the classes in `owners` meets the
    floor of tables/atomics.json for its operation kind and lock context"""
    import json
    from .engine import atomic_ops, atomic_field_of, mo_at_least, MO_NAMES
    tab = json.load(open(os.path.join(VERIF, "tables", "atomics.json")))
    ctx.rule(rid, "every atomic access meets the minimum memory order its protocol needs (tables/atomics.json, "
             "with the synchronises-with pair per row)", floor=floor)
    fb, eng = ctx.fb, ctx.eng
    n = 0
    unclassified = set()
    for f in fb.functions():
        if files is not None and not in_files(f, files):
            continue
        ops = atomic_ops(f)
        if not ops:
            continue
        la = locks_of(eng, fb, f)
        from .engine import atomic_fields_may, atomic_param_of
        expanded = []
        for op in ops:
            flds = atomic_fields_may(f, op)
            if flds:
                expanded += [(op, fl, f, op["st"], la) for fl in flds]
                continue
            pn = atomic_param_of(f, op)
            if pn and f.rec:
                # helper taking std::atomic<T>&: judged once per call site, with the caller's lock context
                idx = [i for i, pd in enumerate(f.params) if pd["name"] == pn]
                for g in f.unit.functions:
                    if g.invalid or (g.rec != f.rec and top_function(fb, g).rec != f.rec):
                        continue
                    for cs in g.stmts.values():
                        if cs["k"] in CALLS and (cs.get("callee") or {}).get("id") == f.id and idx and idx[0] < len(cs["args"]):
                            a = unwrap(g, g.s(cs["args"][idx[0]]))
                            if a is not None and a["k"] == "MemberExpr" and a["m"].get("is_field"):
                                expanded.append((op, (a["m"].get("rec"), a["m"]["name"]), g, cs, locks_of(eng, fb, g)))
        for op, fld, hf, hst, hla in expanded:
            if fld is None or fld[0] not in owners:
                continue
            ent = tab["fields"].get(fld[0], {}).get(fld[1])
            if ent is None:
                unclassified.add("%s::%s" % fld)
                continue
            kind = op["op"]
            if kind == "other" or kind not in ent:
                continue
            wm = tab["writer_mutex"].get(fld[0]) or tab["writer_mutex"].get("%s:%s" % fld)
            pos = hf.pos_of(hst)
            c = "F"
            if wm and pos is not None:
                # the mutex may be reached through another object (list.m_write_mutex): compare by suffix
                for m, mode, _k in hla.held_at(pos):
                    if m == wm or (m and m.split(".")[-1] == wm.split(".")[-1]):
                        c = "W" if "L" not in ent.get(kind, {}) else "L"
            want = ent[kind].get(c) or ent[kind].get("any") or ent[kind].get("F")
            ok = mo_at_least(op["order"], want)
            if kind == "cas" and ok and op.get("fail_order") is not None:
                pass
            ctx.ob(rid, ok, f.loc(op["st"]), "%s %s of %s::%s is at least %s" % (
                {"W": "writer-side", "L": "locked", "F": "lock-free"}[c], kind, fld[0].split("::")[-1], fld[1], want),
                "" if ok else "order is %s; needed because: %s" % (MO_NAMES.get(op["order"], "?"), ent.get("why", "")),
                fn=f.label, inst=f.qname)
            n += 1
    for u in sorted(unclassified):
        ctx.note("atomic field without a floor (listed, not judged): " + u)
    return n


# ------------------------------------------------------- handle lifetime
def handle_deref_lifetime(ctx, rid, classes, floor=1):
    """a reference obtained by dereferencing a lock-carrying handle (*h / h->) must not be used after the handle
    released its lock (temporary destroyed at the end of the full expression, scope end, unlock(), move-from)"""
    from .engine import handle_class
    ctx.rule(rid, "references into the payload obtained through a handle are only used while that handle still holds "
             "its lock", floor=floor)
    fb, eng = ctx.fb, ctx.eng
    n = 0
    for cls in classes:
        for f, top in class_functions(fb, cls):
            la = locks_of(eng, fb, f)
            # every dereference of a handle-typed expression
            for st in f.stmts.values():
                if not (st["k"] == "CXXOperatorCallExpr" and st.get("op") in ("*", "->") and st["args"]):
                    continue
                h = f.s(st["args"][0])
                if h is None or not handle_class(h.get("t", "")):
                    continue
                n += 1
                hu = unwrap(f, h)
                if hu is not None and hu["k"] in ("ArraySubscriptExpr",) or \
                        (hu is not None and hu["k"] == "CXXOperatorCallExpr" and hu.get("op") == "[]"):
                    # an element of an array / container OF handles: the lock analysis names lock objects, not elements
                    ctx.unknown("%s: %s dereferences an element of a collection of handles; whether that element still holds its lock "
                                "is not tracked" % (rid, f.loc(st)))
                    continue
                key = la.key_of_expr(h)
                pos = f.pos_of(st)
                v = la.state_at(pos).get(key) if pos else None
                ok = v is not None and v.st in (HELD, MAYBE)
                ctx.ob(rid, ok, f.loc(st), "%s dereferences a handle that holds its lock" % top.name,
                       "" if ok else "the handle is not known to hold a lock here", fn=top.label, inst=f.qname)
                # is the result bound to a reference that lives on?
                acc, user = eng.classify_access(f, st)
                if acc in ("bind", "bind-const") and user is not None and user["k"] == "DeclStmt":
                    for d in user["decls"]:
                        if not d.get("ref"):
                            continue
                        for u in f.stmts.values():
                            if u["k"] == "DeclRefExpr" and u["d"]["name"] == d["name"] and u["d"].get("k") == "local":
                                up = f.pos_of(u)
                                vv = la.state_at(up).get(key) if up else None
                                oku = vv is not None and vv.st == HELD
                                ctx.ob(rid, oku, f.loc(u), "reference '%s' into the payload is used while the handle it came from "
                                       "still holds the lock" % d["name"], "" if oku else
                                       "the handle (a temporary or an already released object) no longer protects the object: "
                                       "the access runs unlocked", fn=top.label, inst=f.qname)
    if n == 0:
        ctx.note("%s: no handle dereference inside the analysed classes" % rid)
    return n


# ------------------------------------------------------------ init order
def init_order(ctx, rid, classes, floor=1):
    """constructor initialisers run in declaration order: an initialiser must not read a member that is declared
    (and therefore initialised) later - e.g. lr_guarded's m_right(m_left) needs m_left to come first"""
    ctx.rule(rid, "no constructor initialiser reads a member that is declared later (initialisation follows declaration order)",
             floor=floor)
    fb = ctx.fb
    n = 0
    for cls in classes:
        for r in fb.records(tmpl=cls):
            order = {fl["name"]: i for i, fl in enumerate(r.fields)}
            for f in fb.functions(rec=cls):
                if f.kind != "ctor" or f.recq != r.qname or f.defaulted:
                    continue
                for ini in f.inits:
                    fld = ini.get("field")
                    init = f.s(ini.get("init"))
                    if fld is None or init is None or fld not in order:
                        continue
                    n += 1
                    late = []
                    for d in f.descendants(init):
                        if d["k"] == "MemberExpr" and d["m"].get("is_field") and d["m"].get("rec") == cls and \
                                path(f, f.s(d["base"])) == "this":
                            nm = d["m"]["name"]
                            if order.get(nm, -1) > order[fld] or (order.get(nm, -1) == order[fld] and nm != fld):
                                late.append(nm)
                    ctx.ob(rid, not late, f.loc(init), "initialiser of %s::%s reads only members declared before it" % (r.name, fld),
                           "" if not late else "it reads %s, which is initialised later (declaration order)" % late,
                           fn=f.label, inst=f.qname)
    return n


# ------------------------------------------------ lookup results are checked
def find_results_checked(ctx, rid, functions, floor=1):
    """A8: the iterator returned by a lookup (map.find, std::find_if, ...) is dereferenced only where a comparison with
    end() came out 'different' (the element exists)"""
    from .typestate import unchecked_find_deref, FIND_MEMBERS, FIND_ALGOS
    ctx.rule(rid, "an iterator returned by find()/find_if() is dereferenced only after it was compared unequal to end()", floor=floor)
    fxb, _ = ctx.fx
    ctl = [f for f in fxb.functions() if f.qname.startswith("fx::unchecked_find") and unchecked_find_deref(f)]
    names = sorted({f.name for f in ctl})
    if names != ["get"]:
        ctx.broken("controls fx::unchecked_find: the lookup-result rule must report get() and not get_checked(); it reports %s" % names)
    for f in functions:
        bad = unchecked_find_deref(f)
        n = 0
        for st in f.stmts.values():
            if st["k"] == "DeclStmt":
                for d in st["decls"]:
                    e = unwrap(f, f.s(d.get("init"))) if d.get("init") else None
                    while e is not None and e["k"] in CTORS and len(e["args"]) == 1:
                        e = unwrap(f, f.s(e["args"][0]))
                    if e is not None and ((e["k"] == "CXXMemberCallExpr" and (e.get("callee") or {}).get("name") in FIND_MEMBERS) or
                                          (e["k"] == "CallExpr" and callee_fq(e) in FIND_ALGOS)):
                        n += 1
                        mine = [b for b in bad if b[2]["id"] == e["id"]]
                        ctx.ob(rid, not mine, f.loc(mine[0][0]) if mine else f.loc(st),
                               "the result '%s' of the lookup in %s is dereferenced only where it is known to differ from end()" % (d["name"], f.name),
                               "" if not mine else "'%s' is dereferenced here without a dominating comparison with end(): when the key "
                               "is absent this reads through the past-the-end iterator" % d["name"], fn=f.label, inst=f.qname)


def no_repeated_moves(ctx, rid, functions, floor=1):
    """a value that has to serve every iteration of a loop is not moved / forwarded away inside it"""
    from .typestate import moves_repeated
    ctx.rule(rid, "no object that outlives a loop is moved from (std::move / rvalue std::forward) inside the loop", floor=floor)
    fxb, _ = ctx.fx
    if not any(f.qname == "fx::move_in_loop::broadcast" and moves_repeated(f) for f in fxb.functions()) or \
            any(f.qname == "fx::move_in_loop::drain" and moves_repeated(f) for f in fxb.functions()):
        ctx.broken("controls fx::move_in_loop: broadcast() must be reported and drain() must not")
    for f in functions:
        if not f.loops():
            continue
        bad = moves_repeated(f)
        ctx.ob(rid, not bad, f.loc(bad[0][0]) if bad else f.where, "%s moves nothing inside a loop that a later iteration still needs" % f.name,
               "" if not bad else "%s is moved from on every iteration: from the second iteration on the moved-from (empty) value "
               "is used" % bad[0][1], fn=f.label, inst=f.qname)


# ------------------------------------------------ RAII tokens and defaulted moves
def raii_token_moves(ctx, rid, files, floor=0):
    """a class whose destructor gives something back (decrements a counter, stores a flag, unlocks, frees) decides with a
    member whether it still has to.  A DEFAULTED move constructor / assignment copies raw pointers and scalars, so the
    moved-from object stays armed and the give-back happens twice; only members that reset themselves on move
    (smart pointers, lock objects) may guard the give-back of a class with defaulted moves"""
    from .engine import atomic_ops
    ctx.rule(rid, "no class with a releasing destructor relies on a defaulted move that leaves its source armed", floor=floor)
    fxb, _ = ctx.fx
    got = {r_.name: ok_ for r_, ok_, _s in _token_findings(fxb, ["fx.hpp"])}
    if got.get("armed_token") is not False or got.get("safe_token") is not True:
        ctx.broken("controls fx::armed_token / fx::safe_token: the RAII-token rule must report the first and accept the second (%s)" % got)
    n = 0
    for r, ok, sticky in _token_findings(ctx.fb, files):
        n += 1
        ctx.ob(rid, ok, "%s:%d" % (short(r.file), r.line), "%s: the defaulted move leaves the source unable to release again" % r.name,
               "" if ok else "destructor of %s gives something back guarded by %s, which the defaulted move copies without clearing: "
               "a moved-from object releases a second time" % (r.name, sticky), inst=r.qname)
    # user-provided move ASSIGNMENT of such a class: the target may itself still hold something; it has to give that back
    # (the way its destructor would) before it takes over the source's state - or swap with the source
    for r in ctx.fb.records():
        if r.dependent or not any(r.file.endswith("/" + x) for x in files):
            continue
        ms = r.d.get("methods", [])
        dt = [m for m in ms if m.get("kind") == "dtor" and m.get("user_provided")]
        ma = [m for m in ms if m.get("move_assign") and m.get("user_provided") and not m.get("deleted")]
        if not dt or not ma:
            continue
        fdt = [f for f in ctx.fb.functions(rec=r.tmpl or r.qname) if f.kind == "dtor" and f.recq == r.qname]
        fma = [f for f in ctx.fb.functions(rec=r.tmpl or r.qname) if f.recq == r.qname and f.id == ma[0].get("id")]
        if not fdt or not fma:
            continue

        def releases(g):
            out = set()
            for st in g.stmts.values():
                if st["k"] in ("CXXMemberCallExpr", "CallExpr"):
                    c = st.get("callee") or {}
                    if c.get("inrepo") or c.get("name") in ("unlock", "deallocate", "reset", "notify_all"):
                        out.add(c.get("name"))
            from .engine import atomic_ops as _ao
            if any(op["op"] in ("store", "rmw", "cas") for op in _ao(g)):
                out.add("<atomic write>")
            return out
        want = releases(fdt[0])
        if not want:
            continue
        for g in fma:
            have = releases(g)
            swaps = any(st["k"] == "CallExpr" and callee_fq(st) in ("std::swap",) for st in g.stmts.values()) or \
                any(st["k"] == "CXXMemberCallExpr" and (st.get("callee") or {}).get("name") == "swap" for st in g.stmts.values())
            ok = bool(want & have) or swaps
            n += 1
            ctx.ob(rid, ok, g.where, "%s: move assignment gives back what the target still holds before taking over the source" % r.name,
                   "" if ok else "the destructor releases through %s; the move assignment overwrites the members that decide about "
                   "that release without doing the same first: what the assigned-to object held is never given back"
                   % sorted(want), fn=g.label, inst=g.qname)
    return n


def _token_findings(fb, files):
    from .engine import atomic_ops
    out = []
    for r in fb.records():
        if r.dependent or not any(r.file.endswith("/" + x) for x in files):
            continue
        ms = r.d.get("methods", [])
        dt = [m for m in ms if m.get("kind") == "dtor" and m.get("user_provided")]
        mv = [m for m in ms if (m.get("move_ctor") or m.get("move_assign")) and m.get("defaulted") and not m.get("deleted")]
        if not dt or not mv:
            continue
        fdt = r.unit.fn_by_id.get(dt[0]["id"]) if hasattr(r, "unit") else None
        if fdt is None:
            cands = [f for f in fb.functions(rec=r.tmpl or r.qname) if f.kind == "dtor" and f.recq == r.qname]
            fdt = cands[0] if cands else None
        if fdt is None:
            continue
        fns = [fdt]
        for st in fdt.stmts.values():
            if st["k"] == "CXXMemberCallExpr" and path(fdt, fdt.s(st["obj"])) == "this":
                g = fb.callee_fn(fdt, st)
                if g is not None and g.recq == r.qname:
                    fns.append(g)
        gives_back = any(op["op"] in ("store", "rmw", "cas") for g in fns for op in atomic_ops(g)) or \
            any(st["k"] == "CXXMemberCallExpr" and ((st.get("callee") or {}).get("name") in ("unlock", "deallocate", "notify_all") or
                                                    ((st.get("callee") or {}).get("inrepo") and "unlock" in (st.get("callee") or {}).get("name", "")))
                for g in fns for st in g.stmts.values())
        if not gives_back:
            continue
        # members the give-back is conditioned on
        guards = set()
        for g in fns:
            for b, blk in g.blocks.items():
                if blk.term and blk.term.get("cond"):
                    for d in g.descendants(g.s(blk.term["cond"])):
                        if d["k"] == "MemberExpr" and d["m"].get("is_field") and d["m"].get("recq") == r.qname:
                            guards.add(d["m"]["name"])
        sticky = []
        for fl in r.fields:
            t = fl["type"]
            raw = t.rstrip().endswith("*") or t in ("bool", "int", "unsigned int", "long", "unsigned long", "char", "short") or t.endswith("&") \
                or t.replace("mutable ", "").startswith("std::optional<")       # a moved-from optional stays ENGAGED
            if raw and (fl["name"] in guards or not guards):
                sticky.append(fl["name"])
        out.append((r, not sticky, sticky))
    return out


def no_uninitialised_locals(ctx, rid, functions, floor=1):
    """A8: no scalar / pointer local is read before it has a value (`T x;` with a scalar T is indeterminate)"""
    from .typestate import uninitialised_uses
    ctx.rule(rid, "no scalar or pointer local is used before it was given a value (default-initialised `T x;` with scalar T)", floor=floor)
    fxb, _ = ctx.fx
    got = {f.name for f in fxb.functions() if f.qname.startswith("fx::uninit_local::") and uninitialised_uses(f)}
    if got != {"bad"}:
        ctx.broken("controls fx::uninit_local: bad() must be reported, good() not (reported: %s)" % sorted(got))
    for f in functions:
        bad = uninitialised_uses(f)
        ctx.ob(rid, not bad, f.loc(bad[0][0]) if bad else f.where, "%s reads no indeterminate local" % f.name,
               "" if not bad else "'%s' (declared at %s without an initialiser) is used here before any assignment: for a scalar "
               "type its value is indeterminate" % (bad[0][1], f.loc(bad[0][2])), fn=f.label, inst=f.qname)


def no_move_from_callers_object(ctx, rid, functions, floor=1):
    """A8: a function does not std::move from something it only holds by (non-const lvalue) reference"""
    from .typestate import moves_from_lvalue_ref
    ctx.rule(rid, "no std::move of a parameter that is an lvalue reference in this instantiation (a forwarding reference "
             "must be std::forward-ed: an lvalue argument stays the caller's)", floor=floor)
    fxb, _ = ctx.fx
    got = {f.name for f in fxb.functions() if f.qname.startswith("fx::fwd_sink::") and moves_from_lvalue_ref(f)}
    if "take_moved" not in got or "take_forwarded" in got:
        ctx.broken("controls fx::fwd_sink: take_moved must be reported, take_forwarded not (reported: %s)" % sorted(got))
    for f in functions:
        bad = moves_from_lvalue_ref(f)
        ctx.ob(rid, not bad, f.loc(bad[0][0]) if bad else f.where, "%s moves from nothing it received as an lvalue reference" % f.name,
               "" if not bad else "std::move(%s): in this instantiation the argument is the caller's own object (lvalue); it is left "
               "moved-from although the caller keeps using it" % bad[0][1], fn=f.label, inst=f.qname)


def is_user_call(f, st):
    """call of a functor parameter / std::function object / user predicate"""
    if st["k"] == "CXXOperatorCallExpr" and st.get("op") == "()" and st["args"]:
        a0 = f.s(st["args"][0])
        p = path(f, a0)
        t = (a0 or {}).get("t", "")
        if p and (p.startswith("p:") or "std::function<" in t):
            return True
        if "std::function<" in t:
            return True
    if st["k"] == "CXXMemberCallExpr" and (st.get("callee") or {}).get("name") == "operator()":
        o = f.s(st["obj"])
        if o is not None and "std::function<" in o.get("t", ""):
            return True
    return False


def noexcept_user(ctx, rid, files, floor=0):
    """a library function that is noexcept for the instantiated payload must not let an exception of user code reach
    its boundary (std::terminate instead of 'propagates as documented')"""
    ctx.rule(rid, "functions that are noexcept in this instantiation contain no potentially-throwing call outside a "
             "non-rethrowing catch-all (a throwing payload operation would terminate the process)", floor=floor)
    for f in ctx.fb.functions():
        if not in_files(f, files) or not f.noexcept or f.defaulted or f.kind == "dtor":
            continue
        bad = None
        protected = set()
        for t in [s_ for s_ in f.stmts.values() if s_["k"] == "CXXTryStmt"]:
            hs = [f.s(h) for h in t["handlers"]]
            if any(h.get("all") for h in hs) and not any(d["k"] == "CXXThrowExpr" for h in hs for d in f.descendants(h)):
                protected |= {d["id"] for d in f.descendants(f.s(t["try"]))}
        for st in f.stmts.values():
            if st["id"] in protected:
                continue
            c = st.get("callee") if st["k"] in CALLS or st["k"] in CTORS else None
            if not c:
                continue
            if c.get("noexcept") or c.get("fq") in ("std::move", "std::forward"):
                continue
            if st["k"] in CTORS and (c.get("defaulted") or st.get("t", "").startswith("std::chrono::") or not st["args"]):
                continue
            # only user code counts: functor calls, and operations on the payload type of the instantiation
            # (a member of the payload type itself, or a function that is handed a payload object - not merely a member
            # of a container whose element type mentions it)
            if not (is_user_call(f, st) or c.get("qname", "").startswith("vdrv::") or
                    any(strip_cvref(p_).startswith("vdrv::") for p_ in c.get("params", []))):
                continue
            bad = "%s at %s may throw" % (c.get("qname", "?")[:80], f.loc(st))
            break
        ctx.ob(rid, bad is None, f.where, "noexcept %s cannot be left by an exception" % f.name, bad or "", fn=f.label, inst=f.qname)


def memberwise_moves(ctx, rid, files):
    """a hand-written move assignment / move constructor transfers the WHOLE state: every data member the defaulted
    operation would have moved is taken over from the source (assigned, exchanged, swapped or initialised from it).  A
    member that is forgotten keeps its old value in the target - a handle that was cancelled stays cancelled although it
    now carries a live copy, a flag that said 'released' keeps saying so."""
    n = 0
    for r in ctx.fb.records():
        if r.dependent or not any(r.file.endswith("/" + x) for x in files):
            continue
        ms = [m for m in r.d.get("methods", []) if (m.get("move_assign") or m.get("move_ctor")) and m.get("user_provided")
              and not m.get("deleted")]
        if not ms:
            continue
        fields = [fl["name"] for fl in r.fields if not is_mutex_type(fl["type"]) and "condition_variable" not in fl["type"]
                  and not fl.get("const") and not fl["type"].rstrip().endswith("&")]
        for m in ms:
            for g in ctx.fb.functions(rec=r.tmpl or r.qname):
                if g.recq != r.qname or g.id != m.get("id") or not g.params:
                    continue
                src = "p:" + g.params[0]["name"]
                taken = set()
                for i in g.inits:
                    if i.get("field") and i.get("written"):
                        e = g.s(i.get("init"))
                        if e is not None and any((path(g, d) or "").startswith(src) for d in g.descendants(e)):
                            taken.add(i["field"])
                for st in g.stmts.values():
                    tgt = None
                    if st["k"] == "CXXOperatorCallExpr" and st.get("op") == "=" and len(st["args"]) == 2:
                        tgt, rhs = g.s(st["args"][0]), g.s(st["args"][1])
                    elif st["k"] == "BinaryOperator" and st.get("op") == "=":
                        tgt, rhs = g.children(st)
                    elif st["k"] in CALLS and (callee_fq(st) == "std::swap" or (st.get("callee") or {}).get("name") == "swap"):
                        for a in [g.s(x) for x in st.get("args", [])] + ([g.s(st["obj"])] if st.get("obj") else []):
                            p_ = path(g, a) or ""
                            if p_.startswith("this."):
                                taken.add(p_[5:].split(".")[0].split("->")[0])
                        continue
                    if tgt is None:
                        continue
                    tp = path(g, tgt) or ""
                    if tp.startswith("this.") and any((path(g, d) or "").startswith(src) for d in g.descendants(rhs)):
                        taken.add(tp[5:].split(".")[0].split("->")[0])
                    if tp == "*this" or tp == "this":
                        taken |= set(fields)        # whole-object assignment / delegation
                missing = [x for x in fields if x not in taken]
                n += 1
                ctx.ob(rid, not missing, g.where, "%s of %s takes over every member from its source" % (
                    "move assignment" if m.get("move_assign") else "move constructor", r.name), "" if not missing else
                    "member(s) %s are not transferred: the target keeps its own old value for them" % missing, fn=g.label, inst=g.qname)
    return n


def value_categories(ctx, rid, files):
    """A8 over every function of the files a property is anchored in: no variable is used again after it was passed on
    with std::move / an rvalue std::forward, and nothing is moved out of an object the function only refers to (an
    lvalue-reference parameter in this instantiation, a local reference into storage owned elsewhere)"""
    from .typestate import moves_from_lvalue_ref, uses_after_move, refs_into_dead_temporaries, unchecked_front_back
    ctx.rule(rid, "no use after std::move / rvalue std::forward; no std::move out of an object held by lvalue reference; no "
             "reference into the payload that outlives the temporary handle it was reached through", floor=10)
    fxb, _ = ctx.fx
    got = {}
    for f in fxb.functions():
        if f.qname.startswith(("fx::fwd_twice::", "fx::fwd_sink::")):
            got[f.name] = (bool(uses_after_move(f)), bool(moves_from_lvalue_ref(f)))
    want = {"twice": (True, False), "once": (False, False), "steal": (False, True), "copy_then_move": (False, False),
            "take_moved": (False, True), "take_forwarded": (False, False)}
    for k, v in want.items():
        if got.get(k) != v:
            ctx.broken("controls fx::fwd_twice / fx::fwd_sink: %s expected %s, got %s" % (k, v, got.get(k)))
    fbk = {f.name: bool(unchecked_front_back(f)) for f in fxb.functions() if f.qname.startswith("fx::fwd_twice::first_")}
    if fbk != {"first_unchecked": True, "first_checked": False}:
        ctx.broken("controls fx::fwd_twice::first_*: the unchecked front() must be reported, the checked one not (%s)" % fbk)
    for f in ctx.fb.functions():
        if not in_files(f, files):
            continue
        uam = uses_after_move(f)
        ctx.ob(rid, not uam, f.loc(uam[0][0]) if uam else f.where, "%s uses nothing after having moved / forwarded it away" % f.name,
               "" if not uam else "%s is passed on as an rvalue here and used again at %s: a callable or value that gives its "
               "state away on the first use is empty on the second" % (uam[0][1], f.loc(uam[0][2])), fn=f.label, inst=f.qname)
        ufb = unchecked_front_back(f)
        ctx.ob(rid, not ufb, f.loc(ufb[0][0]) if ufb else f.where, "%s takes front() / back() only of a container it knows to be "
               "non-empty" % f.name, "" if not ufb else "%s() on %s without a dominating emptiness test: undefined behaviour when the "
               "container is empty (an entry created empty elsewhere is enough)" % ((ufb[0][0].get("callee") or {}).get("name"), ufb[0][1]),
               fn=f.label, inst=f.qname)
        # a unique_ptr whose deleter gives something back (a reader registration, a lock) must not be release()d: the
        # give-back then never happens
        for st_ in f.stmts.values():
            if st_["k"] == "CXXMemberCallExpr" and (st_.get("callee") or {}).get("name") == "release":
                ot_ = (f.s(st_.get("obj")) or {}).get("t", "")
                if "std::unique_ptr<" in ot_ and re.search(r"gmlc::libguarded::\w+<.*>::shared_deleter", ot_):
                    ctx.ob(rid, False, f.loc(st_), "%s never release()s a handle whose deleter gives a registration back" % f.name,
                           "release() on %s: the pointer is dropped without running the deleter, the reader registration it stands "
                           "for is never given back and the next writer waits for it for ever" % path(f, f.s(st_["obj"])),
                           fn=f.label, inst=f.qname)
        dead = refs_into_dead_temporaries(f)
        ctx.ob(rid, not dead, f.loc(dead[0][0]) if dead else f.where, "%s keeps no reference into the payload beyond the handle "
               "it was reached through" % f.name, "" if not dead else "'%s' is bound to the payload through a temporary handle that is "
               "destroyed at the end of this declaration; its use at %s runs without the lock / reader registration"
               % (dead[0][1], f.loc(dead[0][2])), fn=f.label, inst=f.qname)
        bad = moves_from_lvalue_ref(f)
        ctx.ob(rid, not bad, f.loc(bad[0][0]) if bad else f.where, "%s moves from nothing it holds by lvalue reference" % f.name,
               "" if not bad else "std::move(%s): the object belongs to the caller or to a container (it is an lvalue reference "
               "here); it is left moved-from although its owner keeps using it" % bad[0][1], fn=f.label, inst=f.qname)
    memberwise_moves(ctx, rid, files)


# ------------------------------------------------ clang-tidy cross-reference (thorough tier)
TIDY_CHECKS = ("bugprone-use-after-move", "bugprone-move-forwarding-reference", "bugprone-unused-raii",
               "bugprone-dangling-handle", "bugprone-undefined-memory-manipulation")
_TIDY = {}


def tidy_xref(ctx, rid, files):
    """an independent engine over the same translation unit: clang-tidy 14 with a handful of bugprone checks that name
    defect classes these properties care about (a moved-from value used again, std::move on a forwarding reference, an
    RAII lock object destroyed immediately because it was not named).  Every warning inside one of the property's files
    is reported; on the reference tree there is none.  Thorough tier only (a few seconds)."""
    ctx.rule(rid, "cross-reference: clang-tidy (%s) reports nothing in the property's files" % ", ".join(TIDY_CHECKS), floor=1)
    if "w" not in _TIDY:
        out = []
        for vp in ("0", "1"):
            cmd = ["clang-tidy", "--checks=-*," + ",".join(TIDY_CHECKS), "--header-filter=.*/gmlc/.*",
                   os.path.join(VERIF, "drivers", "inst.cpp"), "--", "-std=c++17", "-I" + os.path.join(REPO, "gmlc"),
                   "-DVP=" + vp, "-DVERIF_IR", "-DENABLE_TRIPWIRE"]
            try:
                r = subprocess.run(cmd, stdout=subprocess.PIPE, stderr=subprocess.STDOUT, text=True, timeout=600)
            except (OSError, subprocess.TimeoutExpired) as e:
                _TIDY["err"] = str(e)
                break
            if "error:" in r.stdout and "warning:" not in r.stdout and "clang-diagnostic-error" in r.stdout:
                _TIDY["err"] = [l for l in r.stdout.splitlines() if "error:" in l][0][:200]
            for line in r.stdout.splitlines():
                m = re.match(r"^(.*?):(\d+):\d+: warning: (.*) \[([a-z-]+)\]$", line)
                if m and m.group(4) in TIDY_CHECKS:
                    out.append((m.group(1), int(m.group(2)), m.group(3), m.group(4)))
        _TIDY["w"] = sorted(set(out))
    if _TIDY.get("err"):
        ctx.broken("clang-tidy cross-reference could not run: %s" % _TIDY["err"])
    mine = [w for w in _TIDY["w"] if any(w[0].endswith("/" + x) for x in files)]
    for fpath, ln, msg, chk in mine:
        ctx.ob(rid, False, "%s:%d" % (short(fpath), ln), "clang-tidy %s is silent" % chk, msg)
    ctx.ob(rid, not mine, ", ".join(files), "clang-tidy cross-reference over %d file(s): %d warning(s)" % (len(files), len(mine)), "")
