"""Path events for the rcu_list protocol rules (C05, C12)."""
import re

from .engine import CALLS, CTORS, atomic_ops, atomic_field_of, callee_fq, path, unwrap
from .flow import TokenFlow, cond_atoms, path_positions, paths, TooManyPaths

RCU = "gmlc::libguarded::rcu_list"
NODE = RCU + "::node"
ZLN = RCU + "::zombie_list_node"
GUARD = RCU + "::rcu_guard"


class PathEvents:
    """events along one CFG path, with value tokens for locals and pruning of
    syntactic paths that contradict themselves (same value tested both ways)"""

    def __init__(self, f, p, objects=()):
        self.f = f
        self.tf = TokenFlow(f, list(objects))
        self.events = []
        self.feasible = True
        self.truth = {}
        aops = {op["st"]["id"]: op for op in atomic_ops(f)}
        self.unresolved = []    # atomic operations whose object cannot be named (pointer-to-member, opaque alias)
        self.tern = {}          # ConditionalOperator id -> arm taken on this path
        self.refalias = {}      # declaration id of a local reference bound through a ternary -> the arm bound here
        for kind, pos, val in path_positions(f, p):
            if kind == "elem":
                e = f.elem(pos)
                if e["k"] != "S":
                    continue
                st = f.stmts[e["s"]]
                if st["k"] == "DeclStmt":
                    for d in st["decls"]:
                        if d.get("ref") and d.get("init"):
                            iu = unwrap(f, f.s(d["init"]))
                            if iu is not None and iu["k"] == "ConditionalOperator" and iu["id"] in self.tern:
                                self.refalias[d["id"]] = unwrap(f, f.s(iu["then"] if self.tern[iu["id"]] else iu["else"]))
                if st["id"] in aops:
                    op = aops[st["id"]]
                    fld = atomic_field_of(f, op)
                    if fld is None:
                        oe = unwrap(f, f.s(st["obj"]) if st["k"] == "CXXMemberCallExpr" else f.s(st["args"][0]))
                        arm = self.refalias.get(oe["d"].get("id")) if oe is not None and oe["k"] == "DeclRefExpr" else None
                        if oe is not None and oe["k"] == "ConditionalOperator" and oe["id"] in self.tern:
                            # `(prev ? prev->next : m_head).store(v)`, also as the result of an inlined link selector
                            arm = unwrap(f, f.s(oe["then"] if self.tern[oe["id"]] else oe["else"]))
                        if arm is not None and arm["k"] == "MemberExpr" and arm["m"].get("is_field"):
                            fld = (arm["m"].get("rec"), arm["m"]["name"])
                            op = dict(op, obj=path(f, arm))
                    if fld is None:
                        self.unresolved.append(op)
                    objtok = self.tok_of_base(op["obj"])
                    if op["op"] == "load":
                        self.events.append(dict(k="aload", obj=op["obj"], fld=fld, pos=pos, st=st, objtok=objtok))
                        self.tf.val["call:" + st["id"]] = "load:%s@%s" % (st["id"], len(self.events))
                    elif op["op"] == "store":
                        v = op["value"]
                        self.events.append(dict(k="astore", obj=op["obj"], fld=fld, pos=pos, st=st, objtok=objtok,
                                                val=path(f, v) if v is not None else None,
                                                valtok=self.tf.value_of(v) if v is not None else None,
                                                lit=(unwrap(f, v) or {}).get("k") if v is not None else None))
                    elif op["op"] == "cas":
                        args = [f.s(a) for a in st["args"]]
                        self.events.append(dict(k="cas", obj=op["obj"], fld=fld, pos=pos, st=st,
                                                expected=path(f, args[0]) if args else None,
                                                desired=path(f, args[1]) if len(args) > 1 else None))
                    elif op["op"] == "rmw":
                        v = op["value"]
                        self.events.append(dict(k="armw", obj=op["obj"], fld=fld, pos=pos, st=st, name=op["name"],
                                                val=path(f, v) if v is not None else None))
                elif st["k"] == "CallExpr":
                    fq = callee_fq(st)
                    m = re.match(r"^std::allocator_traits<.*>::(allocate|construct|destroy|deallocate)$", fq)
                    if m:
                        args = [f.s(a) for a in st["args"]]
                        self.events.append(dict(k=m.group(1), pos=pos, st=st, args=[path(f, a) for a in args],
                                                toks=[self.tf.value_of(a) for a in args]))
                elif st["k"] in ("BinaryOperator",) and st.get("op") == "=":
                    l, r = f.children(st)
                    lp = path(f, l)
                    if lp and not lp.startswith("l:"):
                        self.events.append(dict(k="write", obj=lp, pos=pos, st=st, val=path(f, r),
                                                lit=(unwrap(f, r) or {}).get("v")))
                elif st["k"] == "CXXMemberCallExpr" and st["callee"]["name"] == "release":
                    self.events.append(dict(k="release", obj=path(f, f.s(st["obj"])), pos=pos, st=st))
                self.tf.step(pos)
            else:
                blk = f.blocks[pos[0]]
                if blk.term.get("k") == "ConditionalOperator":
                    self.tern[blk.term["s"]] = val
                cond = f.s(blk.term.get("cond"))
                atoms = cond_atoms(f, cond, val)
                for a in atoms:
                    if a[0] == "truth" and a[1]:
                        tok = self.tf.get(a[1])
                        if tok in ("true", "false"):
                            if (tok == "true") != a[3]:
                                self.feasible = False
                        elif tok is not None:
                            old = self.truth.get(tok)
                            if old is not None and old != a[3]:
                                self.feasible = False
                            self.truth[tok] = a[3]
                    elif a[0] == "eq" and a[2] == "nullptr" and isinstance(a[1], str):
                        tok = self.tf.get(a[1])
                        # the value of an ATOMIC read belongs to that read: a second load of the same location is another
                        # value (a reader may have left in between), it must not be identified with the first one
                        for d_ in (f.descendants(a[4]) if len(a) > 4 and a[4] is not None else []):
                            if d_["id"] in aops and aops[d_["id"]]["op"] == "load" and "call:" + d_["id"] in self.tf.val:
                                tok = self.tf.val["call:" + d_["id"]]
                        if tok is not None and tok not in ("true", "false"):
                            old = self.truth.get(tok)
                            want = not a[3]
                            if old is not None and old != want:
                                self.feasible = False
                            self.truth[tok] = want
                self.events.append(dict(k="branch", atoms=atoms, taken=val, pos=pos, cond=cond,
                                        toks={a[1]: self.tf.get(a[1]) for a in atoms if isinstance(a[1], str)}))

    def tok_of_base(self, objpath):
        """token of the pointer variable an atomic object is reached through (l:n->owner -> token of l:n)"""
        if not objpath:
            return None
        m = re.match(r"^((?:l|p):[A-Za-z_0-9$]+)(->|\.)", objpath)
        if m:
            return self.tf.get(m.group(1))
        return None


class Unresolved(Exception):
    pass


def all_paths(f, objects=(), unroll=None, strict=True):
    """feasible paths of f with their events.  strict: an atomic operation on a list link / log field that cannot be
    attributed to a member (reached through a pointer-to-member, an opaque alias) makes every protocol rule undecidable
    for this function - raised as Unresolved, which the rule runner reports as 'analysis broken', never as a verdict"""
    out = []
    for p in paths(f, unroll=unroll):
        pe = PathEvents(f, p, objects)
        if pe.feasible:
            if strict and pe.unresolved:
                op = pe.unresolved[0]
                raise Unresolved("%s: atomic %s at %s acts on an object the path interpreter cannot name (%s)"
                                 % (f.label, op["name"], f.loc(op["st"]), op.get("obj")))
            out.append(pe)
    return out


def insertion_body(f):
    """(function holding the linking stores, access path of the new node there, allocate_unique call in f, position in
    f from which the linking code runs).  The linking code is either in the insertion function itself or in a private
    helper of rcu_list that receives the freshly allocated node."""
    mk = [st for st in f.stmts.values() if st["k"] == "CallExpr" and callee_fq(st) == "gmlc::libguarded::detail::allocate_unique"]
    var = None
    for st in f.stmts.values():
        if st["k"] == "DeclStmt":
            for d in st["decls"]:
                if d.get("init") and mk and any(x["id"] == mk[0]["id"] for x in f.descendants(f.s(d["init"]))):
                    var = "l:" + d["name"]
    if var is None:
        return None
    if any(op["op"] in ("store", "rmw", "cas") for op in atomic_ops(f)):
        return f, var, mk, None
    for st in f.stmts.values():
        if st["k"] == "CXXMemberCallExpr" and path(f, f.s(st.get("obj"))) == "this":
            g = f.unit.fn_by_id.get((st.get("callee") or {}).get("id"))
            if g is None or g.rec != RCU or g.access == "public":
                continue
            for i, a in enumerate(st["args"]):
                if path(f, f.s(a)) == var and i < len(g.params):
                    return g, "p:" + g.params[i]["name"], mk, f.pos_of(st)
    return f, var, mk, None


def node_names(f, var):
    """access paths that denote the freshly allocated node in f: the owning local itself and every never-reassigned
    pointer copy of it made for an inlined helper (`link_front(newNode.release())`, `link(newNode.get())`)"""
    from .engine import _only_rvalue_uses
    names = {var}
    changed = True
    while changed:
        changed = False
        for st in f.stmts.values():
            if st["k"] != "DeclStmt":
                continue
            for d in st["decls"]:
                nm = "l:" + d["name"]
                if nm in names or not d.get("init") or d.get("ref") or not d.get("type", "").rstrip().endswith("*"):
                    continue
                if path(f, f.s(d["init"])) in names and \
                        _only_rvalue_uses(f, lambda x, i=d["id"]: x["k"] == "DeclRefExpr" and x["d"].get("id") == i, True):
                    names.add(nm)
                    changed = True
    return names


MUTATOR_NAMES = ("push_front", "emplace_front", "push_back", "emplace_back", "erase")


def forwards_to_sibling(fb, f):
    """a public mutator whose whole body hands its argument on to a sibling public mutator of the same list
    (`push_front(T v) { emplace_front(std::move(v)); }`): the sibling is the one that is judged.  Returns the sibling."""
    if any(True for _ in atomic_ops(f)):
        return None
    sib = []
    for st in f.stmts.values():
        if st["k"] == "CXXMemberCallExpr" and path(f, f.s(st.get("obj"))) == "this":
            g = fb.callee_fn(f, st)
            if g is not None and g.rec == f.rec and g.name in MUTATOR_NAMES and g.name != f.name:
                sib.append(g)
        elif st["k"] in CALLS and callee_fq(st) not in ("std::move", "std::forward") and st.get("callee", {}).get("inrepo"):
            return None
    return sib[0] if len(sib) == 1 else None
