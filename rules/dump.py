"""Development aid: print a function's CFG in readable form.
usage: python3 -m rules.dump facts.json <regex on qname> [--all]"""
import re
import sys

from .facts import Unit


def render(f, st, depth=0):
    if st is None:
        return "<?>"
    if depth > 12:
        return "..."
    k = st["k"]
    ch = [f.stmts.get(c) if c else None for c in st.get("ch", [])]

    def r(x):
        return render(f, x, depth + 1)
    if k == "DeclRefExpr":
        return st["d"]["name"]
    if k == "MemberExpr":
        return r(f.s(st["base"])) + ("->" if st["arrow"] else ".") + st["m"]["name"]
    if k == "CXXThisExpr":
        return "this"
    if k in ("ImplicitCastExpr",):
        return r(ch[0]) if ch else "?"
    if k in ("ParenExpr", "ExprWithCleanups", "MaterializeTemporaryExpr",
             "CXXBindTemporaryExpr", "ConstantExpr", "CXXFunctionalCastExpr",
             "CXXStaticCastExpr", "CStyleCastExpr"):
        return r(ch[0]) if ch else "?"
    if k == "UnaryOperator":
        return ("%s%s" % (r(ch[0]), st["op"])) if st.get("postfix") else ("%s%s" % (st["op"], r(ch[0])))
    if k in ("BinaryOperator", "CompoundAssignOperator"):
        return "(%s %s %s)" % (r(ch[0]), st["op"], r(ch[1]))
    if k in ("CXXBoolLiteralExpr", "IntegerLiteral"):
        return str(st["v"]).lower()
    if k == "CXXNullPtrLiteralExpr":
        return "nullptr"
    if k == "StringLiteral":
        return repr(st.get("v", ""))
    if k in ("CallExpr", "CXXMemberCallExpr", "CXXOperatorCallExpr"):
        c = st.get("callee")
        args = ", ".join(r(f.s(a)) for a in st["args"])
        mo = (" mo=%s" % st["mo"]) if "mo" in st else ""
        if k == "CXXMemberCallExpr":
            return "%s.%s(%s)%s" % (r(f.s(st["obj"])), c["name"] if c else "?", args, mo)
        if c:
            return "%s(%s)%s" % (c["qname"] if k == "CallExpr" else c["name"], args, mo)
        return "(*%s)(%s)" % (r(f.s(st["calleeExpr"])), args)
    if k in ("CXXConstructExpr", "CXXTemporaryObjectExpr"):
        return "new-obj %s(%s)" % (st["t"], ", ".join(r(f.s(a)) for a in st["args"]))
    if k == "LambdaExpr":
        return "[lambda %s]" % ",".join(st.get("call_ops", []))
    if k == "DeclStmt":
        return "; ".join("%s %s = %s" % (d["type"], d["name"], r(f.s(d.get("init")))) for d in st["decls"])
    if k == "ReturnStmt":
        return "return " + (r(ch[0]) if ch else "")
    if k == "CXXNewExpr":
        return "new %s(%s)" % (st["alloc_type"], r(f.s(st.get("init"))) if st.get("init") else "")
    if k == "CXXDeleteExpr":
        return "delete " + r(f.s(st["arg"]))
    if k == "CXXThrowExpr":
        return "throw" + ("" if st.get("rethrow") else " " + r(ch[0]))
    if k == "ConditionalOperator":
        return "(%s ? %s : %s)" % (r(f.s(st["cond"])), r(f.s(st["then"])), r(f.s(st["else"])))
    if k == "CXXDefaultArgExpr":
        return "default(" + r(f.s(st["expr"])) + ")"
    return k + "(" + ", ".join(r(x) for x in ch if x) + ")"


def dump(f, full=False):
    print("=" * 78)
    print(f.label, "invalid" if f.invalid else "", "const" if f.constm else "")
    print("  ret:", f.ret, " targs:", f.targs)
    for bid in sorted(f.blocks, reverse=True):
        b = f.blocks[bid]
        print(" B%d preds=%s succs=%s%s" % (bid, b.preds, b.succs, " label=" + b.label if b.label else ""))
        for i, e in enumerate(b.elems):
            if e["k"] == "S":
                st = f.stmts[e["s"]]
                if not full and st["k"] in ("DeclRefExpr", "ImplicitCastExpr", "MemberExpr", "CXXThisExpr",
                                             "ParenExpr", "IntegerLiteral", "CXXBoolLiteralExpr",
                                             "MaterializeTemporaryExpr", "CXXBindTemporaryExpr"):
                    continue
                print("   %2d  %-22s L%-4s %s" % (i, st["k"], st["l"], render(f, st)[:150]))
            else:
                d = {k: v for k, v in e.items() if k not in ("dtor",)}
                dt = e.get("dtor", {}).get("qname", "") if isinstance(e.get("dtor"), dict) else ""
                print("   %2d  [%s] %s %s" % (i, e["k"], d.get("var", {}).get("name", d.get("field", d.get("type", ""))), dt))
        if b.term:
            c = f.s(b.term.get("cond"))
            print("   T: %s cond=%s" % (b.term["k"], render(f, c) if c else None))


if __name__ == "__main__":
    u = Unit(sys.argv[1])
    rx = re.compile(sys.argv[2])
    full = "--all" in sys.argv
    for f in u.functions:
        if rx.search(f.qname):
            dump(f, full)
