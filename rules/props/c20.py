"""C20 - throwing user code never leaves a wrapper locked or half-modified."""
import re

from ..engine import CALLS, CTORS, HELD, callee_fq, is_lock_carrier, path, unwrap
from ..guards import locks_of, top_function
from ..lr import LR
from . import c03, c06, c16
from .. import common

EXPLANATION = (
    "Decided over the eight anchored headers: [C20.raii] every lock acquisition is an RAII object (no raw mutex "
    "lock/unlock/try_lock, no adopt_lock, no lock.release()), so unwinding from ANY throwing user call releases it - a "
    "language guarantee that holds for every invocation of user code; [C20.user-calls] every call into user code "
    "(functor parameters, std::function members, predicates) is enumerated with the locks held there, and each such "
    "lock is owned by an RAII object whose destructor is on the unwinding path (manual unlock()/lock() windows never "
    "enclose user code in the locked state through a non-RAII owner); [C20.lr] lr_guarded::modify: each of the two "
    "applications sits in a try whose catch(...) restores the copy being written FROM the other copy and rethrows; the "
    "first application precedes the flip of m_readingLeft, so a throw leaves flags and value unchanged (all-or-nothing); "
    "the second handler copies from the already-modified copy (roll-forward); handlers never write the copy readers are "
    "directed to; [C20.noexcept] DelayedDestructor::destroyObjects is noexcept with everything inside a non-rethrowing "
    "catch-all; [C20.deferred] queued modifications run inside std::packaged_task and the direct modify_async path inside "
    "try/catch(...) set_exception. Not decided: the state of a payload whose own assignment throws half-way (documented "
    "as indeterminate by the library).")
ASSUMPTIONS = ["destructors of std::lock_guard/unique_lock/shared_lock run during stack unwinding (language guarantee)",
               "the payload's copy assignment used for roll-back/roll-forward does not itself throw"]

FILES = ["lr_guarded.hpp", "ordered_guarded.hpp", "guarded.hpp", "atomic_guarded.hpp", "cow_guarded.hpp",
         "deferred_guarded.hpp", "DelayedDestructor.hpp", "SearchableObjectHolder.hpp", "guarded_opt.hpp",
         "shared_guarded.hpp", "shared_guarded_opt.hpp", "handles.hpp"]


def run(ctx):
    ctx.step(common.raii_only, ctx, "C20.raii", FILES, floor=100)
    ctx.step(user_calls, ctx)
    ctx.step(c03.lr_handlers, ctx, "C20.lr")
    ctx.step(c03.handler_rules, ctx, "C20.lr-writes")
    ctx.step(c16.noexcept_rule, ctx, "C20.noexcept")
    ctx.step(noexcept_user, ctx)
    ctx.step(cow_user_calls, ctx)
    ctx.step(rollback_source, ctx)
    ctx.step(c06.capture, ctx, "C20.deferred")
    ctx.step(c06.exception_identity, ctx, "C20.deferred-exc")
    # a functor that runs in the submitting thread (lock obtained) is applied directly, after the drain: its exception
    # reaches the submitter instead of vanishing in a packaged_task nobody holds a future for
    if c06.striped_queue(ctx, "C20.deferred-order") is None:
        ctx.step(c06.submit, ctx, "C20.deferred-submit")
    else:
        ctx.unknown("C20.deferred-submit: deferred_guarded keeps its pending work in several queues; the rule follows the single "
                    "queue of the reference tree")
    ctx.step(c16.unlocked, ctx, "C20.dd-unlocked")
    # DelayedObjects: a throwing payload copy inside set_value must not leave the request half-retired
    from . import c18
    ctx.step(c18.pair, ctx, "C20.delayed")
    # recovery code (catch handlers included: they run with the locks taken before the try still held) never calls back
    # into an operation that blocks on a mutex the function already owns
    ctx.step(single_step, ctx)
    ctx.step(common.lock_order, ctx, "C20.selflock", scope_pred=lambda f: common.in_files(f, FILES), floor=20)


is_user_call = common.is_user_call


def user_calls(ctx):
    rid = "C20.user-calls"
    ctx.rule(rid, "every call into user code runs either unlocked or under locks that are all owned by RAII objects "
             "alive at that point (released by unwinding)", floor=15)
    fb, eng = ctx.fb, ctx.eng
    n = 0
    for f in fb.functions():
        if not common.in_files(f, FILES):
            continue
        calls = [st for st in f.stmts.values() if is_user_call(f, st)]
        if not calls:
            continue
        la = locks_of(eng, fb, f)
        for c in calls:
            pos = f.pos_of(c)
            held = la.held_at(pos) if pos else []
            # every held lock has an RAII owner key (variable / temporary / member / inherited from the caller)
            ok = all(k == "inherited" or k.startswith(("l:", "t:", "this.", "p:")) for _m, _mo, k in held)
            # a lock object that was manually unlocked is simply not held; one that may or may not be owned is suspicious
            maybe = [k for k, v in la.state_at(pos).items() if v.st == "maybe"] if pos else []
            ok = ok and not maybe
            top = top_function(fb, f) if f.is_lambda else f
            ctx.ob(rid, ok, f.loc(c), "user code called from %s runs under RAII-owned locks only (%s)" % (
                top.name, ", ".join("%s[%s]" % (m, mo) for m, mo, _ in held) or "no lock"),
                "" if ok else "lock objects in an undetermined state here: %s" % maybe, fn=top.label, inst=f.qname)
            n += 1
    return n


def noexcept_user(ctx):
    common.noexcept_user(ctx, "C20.noexcept-user", FILES, floor=20)


def cow_user_calls(ctx, rid="C20.cow-cancel"):
    """a cow_guarded write handle publishes its private copy when it is destroyed - also when it is destroyed by
    unwinding.  User code that runs while an operation of cow_guarded holds such a handle therefore runs inside a try
    block whose handler cancels the handle: otherwise a functor that throws half-way gets its half-modified copy
    published to every reader."""
    ctx.rule(rid, "cow_guarded runs user code under a write handle only where a throw cancels the handle", floor=0)
    COW = "gmlc::libguarded::cow_guarded"
    for f in ctx.fb.functions(rec=COW):
        handles = []
        for st in f.stmts.values():
            if st["k"] == "DeclStmt" and f.pos_of(st):
                for d in st["decls"]:
                    t = d.get("type", "")
                    if not d.get("ref") and "cow_guarded<" in t and ("::deleter" in t or t.endswith("::handle")):
                        handles.append((st, d))
        if not handles:
            continue
        for c in f.stmts.values():
            if c["k"] not in CALLS or not common.is_user_call(f, c) or f.pos_of(c) is None:
                continue
            anc = list(f.ancestors(c))
            ids = {a["id"] for a in anc}
            for st, d in handles:
                par = f.par(st)
                if par is None or par["id"] not in ids or not f.dominates(tuple(f.pos_of(st)), tuple(f.pos_of(c))):
                    continue
                ok = False
                for a in anc:
                    if a["k"] == "CXXTryStmt" and any(x["id"] == c["id"] for x in f.descendants(f.s(a["try"]))):
                        for hid in a["handlers"]:
                            h = f.s(hid)
                            if h.get("all") and any(x["k"] == "CXXMemberCallExpr" and (x.get("callee") or {}).get("name") == "cancel"
                                                    for x in f.descendants(f.s(h["body"]))):
                                ok = True
                ctx.ob(rid, ok, f.loc(c), "%s cancels its write handle when the user code throws" % f.name, "" if ok else
                       "user code runs while the write handle '%s' is alive and no catch(...) cancels it: the handle's destructor "
                       "commits the partially modified copy during unwinding" % d["name"], fn=f.label, inst=f.qname)


def rollback_source(ctx, rid="C20.rollback-source"):
    """a handler that restores the payload after a failed modification restores what the payload was WHEN THE CRITICAL
    SECTION BEGAN: the saved value is taken from m_obj with the exclusive lock already held.  A snapshot taken before the
    lock (load() under the shared lock, then lock again) is stale by the time it is written back - it wipes every update
    another writer made in between."""
    from ..guards import field_refs
    ctx.rule(rid, "a roll-back restores a value that was saved inside the same exclusive section", floor=0)
    for cls in REPLACERS:
        for f in ctx.fb.functions(rec=cls):
            la = None
            for ts in [s for s in f.stmts.values() if s["k"] == "CXXTryStmt"]:
                for hid in ts["handlers"]:
                    h = f.s(hid)
                    for d in f.descendants(f.s(h["body"])):
                        if not (d["k"] == "CXXOperatorCallExpr" and d.get("op") == "=" and len(d["args"]) == 2 and
                                path(f, f.s(d["args"][0])) == "this.m_obj"):
                            continue
                        src = unwrap(f, f.s(d["args"][1]))
                        while src is not None and src["k"] in CALLS and callee_fq(src) in ("std::move", "std::forward"):
                            src = unwrap(f, f.s(src["args"][0]))
                        if src is None or src["k"] != "DeclRefExpr" or src["d"].get("k") != "local":
                            continue
                        decl = [s for s in f.stmts.values() if s["k"] == "DeclStmt" and any(x["id"] == src["d"]["id"] for x in s["decls"])]
                        if not decl or f.pos_of(decl[0]) is None:
                            continue
                        la = la or ctx.eng.locks(f)
                        ok = la.holds(f.pos_of(decl[0]), "this.m_mutex", "X")
                        ctx.ob(rid, ok, f.loc(d), "%s restores a value saved under the exclusive lock" % f.name, "" if ok else
                               "'%s' was saved at %s, before m_mutex was taken exclusively: restoring it overwrites whatever other "
                               "writers stored between the snapshot and this critical section" % (src["d"]["name"], f.loc(decl[0])),
                               fn=f.label, inst=f.qname)


REPLACERS = ["gmlc::libguarded::guarded", "gmlc::libguarded::guarded_opt", "gmlc::libguarded::ordered_guarded",
             "gmlc::libguarded::atomic_guarded"]


def single_step(ctx):
    """store() / operator= replace the payload with ONE user operation (the payload's own assignment): if it throws,
    the object is in whatever state that single assignment leaves, never in a state the wrapper composed from several
    steps (std::swap is three user operations; a throw in the middle leaves a moved-from payload behind)"""
    from ..guards import field_refs, effective_access, READ_KINDS
    rid = "C20.single-step"
    ctx.rule(rid, "store / operator= of the value wrappers modify the payload by exactly one assignment", floor=8)
    fb, eng = ctx.fb, ctx.eng
    for cls in REPLACERS:
        for f in fb.functions(rec=cls):
            if f.name not in ("store", "operator="):
                continue
            muts = []
            for st in field_refs(f, cls):
                if st["m"]["name"] != "m_obj":
                    continue
                if path(f, f.s(st.get("base"))) not in ("this", "*this", None):
                    continue        # the payload of ANOTHER wrapper (the source of a copy / move assignment)
                acc, user = effective_access(eng, f, st)
                if acc in READ_KINDS:
                    continue
                is_assign = user is not None and ((user["k"] == "CXXOperatorCallExpr" and user.get("op") == "=") or
                                                  (user["k"] == "BinaryOperator" and user.get("op") == "="))
                muts.append((st, acc, user, is_assign))
            delegated = [c for c in f.stmts.values() if c["k"] == "CXXMemberCallExpr" and (c.get("callee") or {}).get("name") in ("store", "operator=")
                         and path(f, f.s(c["obj"])) in ("this", "*this")]
            if not muts and not delegated:
                # written THROUGH a handle of the wrapper itself (`*lock() = v;`, `auto h = lock(); *h = v;`): the
                # assignment to the dereferenced handle is the modification
                for st in f.stmts.values():
                    tgt = None
                    if st["k"] == "CXXOperatorCallExpr" and st.get("op") == "=" and len(st["args"]) == 2:
                        tgt = unwrap(f, f.s(st["args"][0]))
                    elif st["k"] == "BinaryOperator" and st.get("op") == "=":
                        tgt = unwrap(f, f.children(st)[0])
                    if tgt is None or not ((tgt["k"] == "CXXOperatorCallExpr" and tgt.get("op") == "*") or
                                           (tgt["k"] == "UnaryOperator" and tgt.get("op") == "*")):
                        continue
                    src = unwrap(f, f.s(tgt["args"][0]) if tgt["k"] == "CXXOperatorCallExpr" else f.children(tgt)[0])
                    if src is not None and src["k"] == "DeclRefExpr":
                        inits = [f.s(d.get("init")) for s_ in f.stmts.values() if s_["k"] == "DeclStmt" for d in s_["decls"]
                                 if d["id"] == src["d"].get("id") and d.get("init")]
                        src = unwrap(f, inits[0]) if len(inits) == 1 else None
                    while src is not None and src["k"] in CTORS and len(src["args"]) == 1:
                        src = unwrap(f, f.s(src["args"][0]))
                    if src is not None and src["k"] == "CXXMemberCallExpr" and path(f, f.s(src["obj"])) in ("this", "*this") and \
                            (src.get("callee") or {}).get("name") in ("lock", "try_lock", "try_lock_for", "try_lock_until"):
                        muts.append((st, "write", dict(st, callee={"fq": "assignment through the handle of %s()" % src["callee"]["name"]}), True))
            if not muts and not delegated:
                # forwarded to another member (e.g. exchange()): judge the steps that member performs on the payload
                for c in f.stmts.values():
                    if c["k"] == "CXXMemberCallExpr" and path(f, f.s(c["obj"])) in ("this", "*this"):
                        g = fb.callee_fn(f, c)
                        if g is None or g.rec != cls or g.name in ("modify", "read"):
                            continue        # functor forms are judged through the closure they are given (below)
                        for st in field_refs(g, cls):
                            if st["m"]["name"] != "m_obj":
                                continue
                            acc, user = effective_access(eng, g, st)
                            if acc in READ_KINDS:
                                continue
                            is_assign = user is not None and ((user["k"] == "CXXOperatorCallExpr" and user.get("op") == "=") or
                                                              (user["k"] == "BinaryOperator" and user.get("op") == "="))
                            muts.append((st, acc, dict(user or {}, callee=dict((user or {}).get("callee") or {},
                                         fq="%s() -> %s" % (g.name, ((user or {}).get("callee") or {}).get("fq") or (user or {}).get("k")))), is_assign))
                        if muts:
                            f_loc = g
                            break
            if not muts and not delegated:
                # expressed through modify(closure): the closure's writes to its parameter are the payload modification
                for c in f.stmts.values():
                    if c["k"] == "CXXMemberCallExpr" and (c.get("callee") or {}).get("name") == "modify" and \
                            path(f, f.s(c["obj"])) in ("this", "*this") and c["args"]:
                        lam = unwrap(f, f.s(c["args"][0]))
                        while lam is not None and lam["k"] in CTORS and len(lam["args"]) == 1:
                            lam = unwrap(f, f.s(lam["args"][0]))
                        if lam is None or lam["k"] != "LambdaExpr":
                            continue
                        for oid in lam.get("call_ops", []):
                            g = f.unit.fn_by_id.get(oid)
                            if g is None or not g.params:
                                continue
                            pn = "p:" + g.params[0]["name"]
                            for st in g.stmts.values():
                                tgt = None
                                if st["k"] == "CXXOperatorCallExpr" and st.get("op") == "=" and st["args"]:
                                    tgt = path(g, g.s(st["args"][0]))
                                elif st["k"] == "BinaryOperator" and st.get("op") == "=":
                                    tgt = path(g, g.children(st)[0])
                                elif st["k"] == "CallExpr" and callee_fq(st) in ("std::swap", "std::exchange") and st["args"]:
                                    if pn in [path(g, g.s(a)) for a in st["args"]]:
                                        muts.append((st, "call", dict(st, callee=dict(st.get("callee") or {}, fq="modify(closure) -> " + callee_fq(st))), False))
                                if tgt == pn:
                                    muts.append((st, "write", dict(st, callee={"fq": "modify(closure) -> assignment"}), True))
            if not muts and delegated:
                ctx.ob(rid, len(delegated) == 1, f.where, "%s::%s forwards to one replacing operation" % (cls.split("::")[-1], f.name),
                       "", fn=f.label, inst=f.qname)
                continue
            # at most one modification on any path (an unlocked arm for disabled locking next to the locked one is fine)
            seq = [(a, b) for a in muts for b in muts if a is not b and a[0]["id"] in f.stmts and b[0]["id"] in f.stmts and
                   f.pos_of(a[0]) and f.pos_of(b[0]) and f.reach_avoiding(f.pos_of(a[0]), f.pos_of(b[0]), [])]
            ok = len(muts) >= 1 and all(m[3] for m in muts) and not seq
            what = ""
            if not ok:
                what = "; ".join("%s" % ((m[2] or {}).get("callee", {}).get("fq") or (m[2] or {}).get("k") or m[1]) for m in muts) or "no modification found"
            ctx.ob(rid, ok, f.where, "%s::%s changes m_obj through a single assignment" % (cls.split("::")[-1], f.name),
                   "" if ok else "payload modified by: %s - a throw between the steps leaves a value that is neither the old nor "
                   "the new one" % what, fn=f.label, inst=f.qname)
