"""C18 - every DelayedObjects future is fulfilled exactly once and never hangs."""
import re

from ..engine import CALLS, CTORS, callee_fq, path, unwrap
from ..flow import cond_atoms, path_positions, paths, TooManyPaths
from ..guards import check_guarded_fields, locks_of
from ..common import call_closure
from .. import common

EXPLANATION = (
    "Decided on every instantiated member of DelayedObjects: [C18.guard] the four maps are only touched with "
    "promiseLock held; [C18.onecs] every public operation is exactly one critical section (one acquisition of "
    "promiseLock, none through a callee), so queries observe one consistent state; [C18.pair] typestate of a pending "
    "promise on every path: set_value is only ever called on a promise that is still in a pending map (or, in the "
    "destructor, on all that remain), it is followed - before the lock is released - by moving that promise into the "
    "matching 'used' map and removing it from the pending map (erase of that iterator, or clear() after the loop); a "
    "promise leaves the pending map only AFTER its set_value succeeded; unknown or completed keys (find == end) change "
    "nothing. Hence a pending promise is never already satisfied, nothing is satisfied twice, and a throwing set_value "
    "leaves the key pending; [C18.dtor] the destructor satisfies every remaining pending promise of both maps with X{} "
    "under the lock; [C18.query] isCompleted consults the used map, isRecognized both maps of the right key type, "
    "getFuture takes the future from the promise it stores. Not decided: which value wins a race between "
    "setDelayedValue and fulfillAllPromises (either is allowed).")
ASSUMPTIONS = ["each key is requested once (the property's premise)", "std::promise::set_value throws only if already satisfied or the value's copy/move throws"]

CLS = "gmlc::concurrency::DelayedObjects"
PENDING = {"promiseByInteger": "usedPromiseByInteger", "promiseByString": "usedPromiseByString"}
LOCK = "this.promiseLock"


def run(ctx):
    ctx.rule("C18.guard", "A3: the four maps only under promiseLock", floor=15)
    ctx.step(check_guarded_fields, ctx, "C18.guard", CLS)
    ctx.step(onecs, ctx)
    ctx.step(pair, ctx)
    ctx.step(drop_rule, ctx)
    ctx.step(fulfill_all, ctx)
    ctx.step(dtor, ctx)
    ctx.step(query, ctx)
    ctx.step(common.no_repeated_moves, ctx, "C18.broadcast",
             [f for f in ctx.fb.functions() if f.file.endswith("/DelayedObjects.hpp")], floor=2)
    ctx.step(common.no_uninitialised_locals, ctx, "C18.init",
             [f for f in ctx.fb.functions() if f.file.endswith("/DelayedObjects.hpp")], floor=10)
    ctx.step(common.find_results_checked, ctx, "C18.lookup",
             [f for f in ctx.fb.functions() if f.file.endswith("/DelayedObjects.hpp")], floor=4)
    ctx.step(common.generic_witnesses, ctx, "C18.generic", ["C18"])
    ctx.step(common.raii_only, ctx, "C18.raii", ["DelayedObjects.hpp"], floor=5)


def public_methods(ctx):
    return [f for f in ctx.fb.functions(rec=CLS) if f.access == "public" and f.kind not in ("ctor", "dtor")]


def onecs(ctx):
    rid = "C18.onecs"
    ctx.rule(rid, "every public operation is exactly one critical section of promiseLock (no second section through a callee)", floor=5)
    fb, eng = ctx.fb, ctx.eng
    for f in public_methods(ctx):
        total = 0
        where = []
        for g, via, caller in call_closure(fb, f):
            if g.rec != CLS:
                continue
            la = locks_of(eng, fb, g)
            for pos, key, v, kind, st in la.acquire_events:
                if v.mutex == LOCK:
                    total += 1
                    where.append("%s:%s" % (g.name, g.loc(st)))
        ok = total == 1
        ctx.ob(rid, ok, f.where, "%s locks promiseLock exactly once" % f.name,
               "" if ok else "%d acquisitions (%s): the operation observes the maps in more than one critical section"
               % (total, ", ".join(where)), fn=f.label, inst=f.qname)


def _map_of(f, p, at=None):
    """which map field an access path is rooted in: 'l:fnd->second' -> map the iterator came from;
    `at`: the statement using it (selects the enclosing range-for when loop variables share a name)"""
    if p is None:
        return None
    if at is not None:
        m0 = re.match(r"^l:([\w$]+)", p)
        if m0:
            for a in f.ancestors(at):
                if a["k"] == "CXXForRangeStmt" and a.get("loopvar", {}).get("name") == m0.group(1):
                    ri = f.s(a.get("range_init"))
                    if ri is not None:
                        for x in f.descendants(ri):
                            if x["k"] == "MemberExpr" and x["m"].get("is_field") and x["m"].get("rec") == CLS:
                                return x["m"]["name"]
    m = re.match(r"^this\.(\w+)", p)
    if m:
        return m.group(1)
    m = re.match(r"^l:([\w$]+)", p)
    if not m:
        return None
    var = m.group(1)
    for st in f.stmts.values():
        if st["k"] == "DeclStmt":
            for d in st["decls"]:
                if d["name"] == var and d.get("init"):
                    for x in f.descendants(f.s(d["init"])):
                        if x["k"] == "MemberExpr" and x["m"].get("is_field") and x["m"].get("rec") == CLS:
                            return x["m"]["name"]
                    for x in f.descendants(f.s(d["init"])):
                        # the container may be named through a reference (a helper's `Map& pending` bound to the member)
                        if x["k"] == "CXXMemberCallExpr" and x.get("obj"):
                            op_ = path(f, f.s(x["obj"])) or ""
                            m2 = re.match(r"^this\.(\w+)$", op_)
                            if m2:
                                return m2.group(1)
        if st["k"] == "CXXForRangeStmt" and st.get("loopvar", {}).get("name") == var:
            ri = f.s(st.get("range_init"))
            if ri is not None:
                for x in f.descendants(ri):
                    if x["k"] == "MemberExpr" and x["m"].get("is_field") and x["m"].get("rec") == CLS:
                        return x["m"]["name"]
    return None


STORING = ("insert_or_assign", "emplace", "try_emplace", "insert", "emplace_hint")


def _stored_into(f, st, mapname):
    """the expression a statement files into member map `mapname` (`m[k] = v`, `m.insert_or_assign(k, v)`,
    `m.emplace(k, v)`, `m.insert({k, v})`), or None"""
    if st["k"] == "CXXOperatorCallExpr" and st.get("op") == "=" and len(st["args"]) == 2:
        lhs = unwrap(f, f.s(st["args"][0]))
        if lhs is not None and lhs["k"] == "CXXOperatorCallExpr" and lhs.get("op") == "[]" and \
                path(f, f.s(lhs["args"][0])) == "this." + mapname:
            return f.s(st["args"][1])
    if st["k"] == "CXXMemberCallExpr" and (st.get("callee") or {}).get("name") in STORING and st["args"] and \
            path(f, f.s(st.get("obj"))) == "this." + mapname:
        v = unwrap(f, f.s(st["args"][-1]))
        # insert(std::make_pair(k, v)) / insert({k, v}) / insert(value_type(k, v))
        while v is not None and (v["k"] in CTORS or v["k"] == "InitListExpr" or
                                 (v["k"] == "CallExpr" and callee_fq(v) == "std::make_pair")) and \
                (v["k"] == "InitListExpr" or len(v.get("args", [])) in (1, 2)):
            ch = f.children(v) if v["k"] == "InitListExpr" else [f.s(a) for a in v["args"]]
            if not ch:
                break
            nxt = unwrap(f, ch[-1])
            if nxt is None or nxt["id"] == v["id"]:
                break
            if path(f, nxt) is not None or _mapped_of(f, nxt) is not None:
                return nxt
            v = nxt
        return v
    return None


def _mapped_of(f, e):
    """`node.mapped()` of a node handle taken with `<map>.extract(x)`: (map name, path of x, position of the extract)"""
    e = unwrap(f, e)
    while e is not None and e["k"] == "CallExpr" and callee_fq(e) in ("std::move", "std::forward") and e["args"]:
        e = unwrap(f, f.s(e["args"][0]))
    if e is None or e["k"] != "CXXMemberCallExpr" or (e.get("callee") or {}).get("name") != "mapped":
        return None
    o = unwrap(f, f.s(e.get("obj")))
    if o is None or o["k"] != "DeclRefExpr":
        return None
    for st in f.stmts.values():
        if st["k"] == "DeclStmt":
            for d in st["decls"]:
                if d["id"] == o["d"].get("id") and d.get("init"):
                    for x in [f.s(d["init"])] + list(f.descendants(f.s(d["init"]))):
                        if x is not None and x["k"] == "CXXMemberCallExpr" and (x.get("callee") or {}).get("name") == "extract" and x["args"]:
                            mp = path(f, f.s(x.get("obj"))) or ""
                            if mp.startswith("this."):
                                a = unwrap(f, f.s(x["args"][0]))
                                while a is not None and a["k"] in CTORS and len(a["args"]) == 1:     # iterator -> const_iterator
                                    a = unwrap(f, f.s(a["args"][0]))
                                return mp[5:], path(f, a), f.pos_of(x)
    return None


def _same_promise(f, e, tgt, pm):
    """does expression e denote the promise `tgt` (an element of pending map pm) - directly, or as the mapped value of
    the node handle that element was extracted into"""
    if e is None:
        return False
    if path(f, e) == tgt:
        return True
    mo = _mapped_of(f, e)
    if mo is not None and mo[0] == pm and mo[1] is not None:
        it = re.sub(r"(->|\.)second$", "", tgt)
        return mo[1] == it
    return False


def drop_rule(ctx, rid="C18.drop"):
    """a promise whose future has been handed out is never destroyed unsatisfied (the consumer would get broken_promise):
    an operation that replaces or empties a whole pending map (assignment, clear, swap) satisfies its promises first"""
    ctx.rule(rid, "a pending map is overwritten or emptied only after its promises were satisfied", floor=2)
    for f in ctx.fb.functions(rec=CLS):
        if f.kind == "ctor":
            continue
        svs = [st for st in f.stmts.values() if st["k"] == "CXXMemberCallExpr" and st["callee"]["name"] in ("set_value", "set_exception")
               and f.pos_of(st)]
        for st in f.stmts.values():
            tgt = None
            how = None
            if st["k"] == "CXXOperatorCallExpr" and st.get("op") == "=" and len(st["args"]) == 2:
                tgt, how = path(f, f.s(st["args"][0])), "assigned over"
            elif st["k"] == "CXXMemberCallExpr" and st["callee"]["name"] in ("clear", "swap"):
                tgt, how = path(f, f.s(st["obj"])), st["callee"]["name"] + "()"
            if not tgt or not tgt.startswith("this.") or tgt[5:] not in PENDING or f.pos_of(st) is None:
                continue
            pm = tgt[5:]
            def map_of_sv(sv):
                # by declaration (two loops may both call their iterator `obj`)
                for d in f.descendants(f.s(sv["obj"])):
                    if d["k"] == "DeclRefExpr" and d["d"].get("k") == "local":
                        for s2 in f.stmts.values():
                            if s2["k"] == "DeclStmt":
                                for dd in s2["decls"]:
                                    if dd["id"] == d["d"].get("id") and dd.get("init"):
                                        for x in f.descendants(f.s(dd["init"])):
                                            if x["k"] == "MemberExpr" and x["m"].get("is_field") and x["m"].get("rec") == CLS:
                                                return x["m"]["name"]
                return _map_of(f, path(f, f.s(sv["obj"])), sv)
            before = [sv for sv in svs if map_of_sv(sv) == pm and
                      f.reach_avoiding(tuple(f.pos_of(sv)), tuple(f.pos_of(st)), [])]
            ok = bool(before)
            ctx.ob(rid, ok, f.loc(st), "%s: %s is %s only after its promises were given a value" % (f.name, pm, how), "" if ok else
                   "the promises still waiting in %s are destroyed without a value: every consumer blocked on one of their futures "
                   "gets std::future_error(broken_promise)" % pm, fn=f.label, inst=f.qname)


def pair(ctx, rid="C18.pair"):
    ctx.rule(rid, "set_value only on a promise still in a pending map; then moved to the matching used map and removed "
             "from the pending map before the lock is released; removal only after set_value", floor=6)
    fb = ctx.fb
    seen = 0
    for f in fb.functions(rec=CLS):
        if f.kind in ("ctor", "dtor"):
            continue
        if f.name == "operator=" and f.params and f.params[0].get("type", "").rstrip().endswith("&&"):
            continue        # a move assignment retires the old content the way the destructor does (C18.drop judges it)
        svs = [st for st in f.stmts.values() if st["k"] == "CXXMemberCallExpr" and st["callee"]["name"] in ("set_value", "set_exception")]
        muts = [st for st in f.stmts.values() if (st["k"] == "CXXMemberCallExpr" and st["callee"]["name"] in
                                                   ("erase", "clear", "extract", "insert", "emplace", "try_emplace", "emplace_hint", "insert_or_assign", "swap", "merge")
                                                   and (path(f, f.s(st["obj"])) or "").startswith("this."))
                or (st["k"] == "CXXOperatorCallExpr" and st.get("op") == "[]" and (path(f, f.s(st["args"][0])) or "").startswith("this."))]
        if not svs:
            continue
        seen += 1
        try:
            ps = paths(f)
        except TooManyPaths:
            ctx.broken("too many paths in " + f.label)
        for sv in svs:
            tgt = path(f, f.s(sv["obj"]))
            pm = _map_of(f, tgt, sv)
            ok = pm in PENDING
            ctx.ob(rid, ok, f.loc(sv), "set_value is called on a promise that is still in a pending map",
                   "" if ok else "target %s is not an element of promiseByInteger/promiseByString: if set_value throws "
                   "(payload copy), the promise is already out of the map and the future is broken" % tgt, fn=f.label, inst=f.qname)
            if not ok:
                continue
            used = PENDING[pm]
            sp = tuple(f.pos_of(sv))
            # on every path through this set_value: afterwards a move into used[...] from the same promise, and a removal
            n_ok = True
            detail = ""
            for p in ps:
                ev = [(kind, tuple(pos), val) for kind, pos, val in path_positions(f, p)]
                idx = [i for i, (k, pos, v) in enumerate(ev) if k == "elem" and pos == sp]
                if not idx:
                    continue
                after = {pos for k, pos, v in ev[idx[0] + 1:] if k == "elem"}
                before = {pos for k, pos, v in ev[:idx[0]] if k == "elem"}
                moved = False
                removed = False
                removed_before = False
                for st in f.stmts.values():
                    pos = f.pos_of(st)
                    if pos is None:
                        continue
                    pos = tuple(pos)
                    if pos in after and _same_promise(f, _stored_into(f, st, used), tgt, pm):
                        moved = True
                    if st["k"] == "CXXMemberCallExpr" and path(f, f.s(st["obj"])) == "this." + pm and \
                            st["callee"]["name"] in ("erase", "clear", "extract"):
                        if pos in after:
                            removed = True
                        if pos in before and st["callee"]["name"] != "clear":
                            removed_before = True
                if not (moved and removed):
                    n_ok = False
                    detail = "after set_value: moved to %s=%s, removed from %s=%s" % (used, moved, pm, removed)
                if removed_before:
                    n_ok = False
                    detail = "the promise is taken out of %s before set_value" % pm
            ctx.ob(rid, n_ok, f.loc(sv), "the satisfied promise is moved to %s and removed from %s on every path" % (used, pm),
                   detail, fn=f.label, inst=f.qname)
            # nothing that can throw a payload exception sits between set_value and the hand-over to the used map: a throw
            # there leaves a SATISFIED promise in the pending map (isCompleted() false for a ready future, the next
            # setDelayedValue / fulfillAllPromises of that key raises promise_already_satisfied)
            removals = []
            for st in f.stmts.values():
                if f.pos_of(st) and _same_promise(f, _stored_into(f, st, used), tgt, pm):
                    removals.append(tuple(f.pos_of(st)))
            between = None
            for st in f.stmts.values():
                if st["k"] not in CALLS and st["k"] not in CTORS:
                    continue
                c = st.get("callee") or {}
                if st["id"] == sv["id"] or c.get("noexcept") or c.get("fq") in ("std::move", "std::forward"):
                    continue
                # an operation ON the payload (a member of it, or a function handed a payload object) - not a member of a
                # container or iterator whose type merely mentions it
                from ..engine import strip_cvref
                if not (c.get("qname", "").startswith("vdrv::") or any(strip_cvref(p_).startswith("vdrv::") for p_ in c.get("params", []))):
                    continue
                if st["k"] in CTORS and c.get("params") and c["params"][0].rstrip().endswith("&&"):
                    continue
                pos = f.pos_of(st)
                if pos is None or any(d["id"] == st["id"] for d in f.descendants(sv)):
                    continue
                if f.reach_avoiding(sp, tuple(pos), removals) and any(f.reach_avoiding(tuple(pos), r, []) for r in removals) and \
                        not f.reach_avoiding(tuple(pos), sp, []):
                    between = st
            ctx.ob(rid, between is None, f.loc(between) if between else f.loc(sv), "no payload operation that can throw runs between "
                   "set_value and the move of the promise to %s" % used, "" if between is None else
                   "%s may throw after the promise has been satisfied and before it leaves %s: the key stays 'pending' with a "
                   "ready future" % ((between.get("callee") or {}).get("qname", "?")[:70], pm), fn=f.label, inst=f.qname)
        # unknown / completed key: find == end -> no mutation
        for p in ps:
            ev = [(kind, tuple(pos), val) for kind, pos, val in path_positions(f, p)]
            notfound = False
            for kind, pos, val in ev:
                if kind == "branch":
                    blk = f.blocks[pos[0]]
                    for a in cond_atoms(f, f.s(blk.term.get("cond")), val):
                        if a[0] == "eq" and a[3] is True and a[2] is None and isinstance(a[1], str) and a[1].startswith("l:"):
                            notfound = True
            if notfound:
                poss = {pos for k, pos, v in ev if k == "elem"}
                bad = [st for st in svs + muts if f.pos_of(st) and tuple(f.pos_of(st)) in poss]
                ctx.ob(rid, not bad, f.where, "an unknown or already completed key changes nothing", "" if not bad else
                       "mutation at %s on the not-found path" % f.loc(bad[0]), fn=f.label, inst=f.qname)
    if seen < 5:
        ctx.broken("only %d functions of DelayedObjects call set_value (5 confirmed by hand)" % seen)


def fulfill_all(ctx):
    """fulfillAllPromises: on every path to the exit each pending map is either traversed by its satisfy-loop or known
    to be empty (an early return that looks at one map only leaves the other map's futures hanging)"""
    rid = "C18.fulfill-all"
    ctx.rule(rid, "fulfillAllPromises reaches the satisfy-loop of BOTH pending maps on every path, unless that map is "
             "known empty on the path", floor=2)
    fs = list(ctx.fb.functions(rec=CLS, name="fulfillAllPromises"))
    if not fs:
        ctx.broken("DelayedObjects::fulfillAllPromises not instantiated")
    for f in fs:
        loops = {}     # map -> set of blocks of its range-for condition
        for st in f.stmts.values():
            if st["k"] == "CXXForRangeStmt":
                ri = f.s(st.get("range_init"))
                mp = None
                if ri is not None:
                    for x in f.descendants(ri):
                        if x["k"] == "MemberExpr" and x["m"].get("is_field") and x["m"].get("rec") == CLS:
                            mp = x["m"]["name"]
                    if mp is None:
                        rp_ = path(f, ri) or ""       # the map named through a reference (closure / helper parameter)
                        if rp_.startswith("this.") and rp_[5:] in PENDING:
                            mp = rp_[5:]
                has_set = any(d["k"] == "CXXMemberCallExpr" and d["callee"]["name"] == "set_value"
                              for d in f.descendants(f.s(st["body"])))
                if mp in PENDING and has_set:
                    hb = [b.id for b in f.blocks.values() if b.term and b.term.get("s") == st["id"]]
                    loops.setdefault(mp, set()).update(hb)
        # the satisfy-loop may live in a local lambda that is called once per map with the map as argument
        for st in f.stmts.values():
            if st["k"] == "CXXOperatorCallExpr" and st.get("op") == "()":
                g = f.unit.fn_by_id.get((st.get("callee") or {}).get("id"))
                if g is None or not g.is_lambda:
                    continue
                for ls in g.stmts.values():
                    if ls["k"] != "CXXForRangeStmt":
                        continue
                    rp = path(g, g.s(ls.get("range_init"))) if ls.get("range_init") else None
                    has_set = any(d["k"] == "CXXMemberCallExpr" and d["callee"]["name"] == "set_value"
                                  for d in g.descendants(g.s(ls["body"])))
                    if not (rp and rp.startswith("p:") and has_set):
                        continue
                    idx = [i for i, pr in enumerate(g.params) if "p:" + pr["name"] == rp]
                    if idx and idx[0] + 1 < len(st["args"]):
                        ap = path(f, f.s(st["args"][idx[0] + 1])) or ""
                        pos = f.pos_of(st)
                        if ap.startswith("this.") and ap[5:] in PENDING and pos:
                            loops.setdefault(ap[5:], set()).add(pos[0])
        for mp in PENDING:
            if mp not in loops:
                ctx.ob(rid, False, f.where, "fulfillAllPromises has a satisfy-loop over %s" % mp, "no range-for with set_value over it",
                       fn=f.label, inst=f.qname)
        try:
            ps = paths(f)
        except TooManyPaths:
            ctx.broken("too many paths in " + f.label)
        bad = {}
        for p in ps:
            if p[-1][0] != f.exit:
                continue
            visited = {b for b, _c in p}
            empty = set()
            for b, choice in p:
                blk = f.blocks[b]
                if blk.term and blk.term.get("cond") and choice is not None and len(blk.succs) == 2:
                    c = unwrap(f, f.s(blk.term["cond"]))
                    val = (choice == 0)
                    while c is not None and c["k"] == "UnaryOperator" and c["op"] == "!":
                        val = not val
                        c = unwrap(f, f.children(c)[0])
                    if c is not None and c["k"] == "CXXMemberCallExpr" and c["callee"]["name"] == "empty" and val:
                        mp = (path(f, f.s(c["obj"])) or "")[5:]
                        empty.add(mp)
            for mp, hb in loops.items():
                if not (visited & hb) and mp not in empty:
                    bad[mp] = True
        for mp in loops:
            ok = mp not in bad
            ctx.ob(rid, ok, f.where, "every path of fulfillAllPromises satisfies what is pending in %s" % mp,
                   "" if ok else "a path returns without traversing %s and without knowing it is empty: its futures never "
                   "receive the value" % mp, fn=f.label, inst=f.qname)


def dtor(ctx):
    rid = "C18.dtor"
    ctx.rule(rid, "the destructor satisfies every remaining pending promise of both pending maps under the lock", floor=1)
    eng = ctx.eng
    for f in ctx.fb.functions(rec=CLS):
        if f.kind != "dtor":
            continue
        la = eng.locks(f)
        done = set()
        for st in f.stmts.values():
            if st["k"] == "CXXMemberCallExpr" and st["callee"]["name"] == "set_value":
                pm = _map_of(f, path(f, f.s(st["obj"])), st)
                inloop = any(a["k"] == "CXXForRangeStmt" for a in f.ancestors(st))
                held = la.holds(f.pos_of(st), LOCK, "X")
                if pm in PENDING and inloop and held:
                    done.add(pm)
        for pm in PENDING:
            ok = pm in done
            ctx.ob(rid, ok, f.where, "~DelayedObjects fulfils everything left in %s (no future hangs)" % pm,
                   "" if ok else "futures for keys in %s would throw broken_promise / never become ready with a value" % pm,
                   fn=f.label, inst=f.qname)


def query(ctx):
    rid = "C18.query"
    ctx.rule(rid, "isCompleted reads the used map, isRecognized both maps of its key type; getFuture stores the promise "
             "whose future it returns", floor=3)
    fb = ctx.fb
    for f in fb.functions(rec=CLS):
        finds = sorted({path(f, f.s(st["obj"]))[5:] for st in f.stmts.values() if st["k"] == "CXXMemberCallExpr" and
                        st["callee"]["name"] in ("find", "count", "contains") and (path(f, f.s(st["obj"])) or "").startswith("this.")})
        key = "Integer" if f.params and f.params[0]["type"] == "int" else "String"
        if f.name == "isCompleted":
            ok = finds == ["usedPromiseBy" + key]
            ctx.ob(rid, ok, f.where, "isCompleted consults usedPromiseBy%s only" % key, "" if ok else str(finds), fn=f.label, inst=f.qname)
        elif f.name == "isRecognized":
            ok = finds == sorted(["promiseBy" + key, "usedPromiseBy" + key])
            ctx.ob(rid, ok, f.where, "isRecognized consults the pending and the used map of its key type", "" if ok else str(finds),
                   fn=f.label, inst=f.qname)
        elif f.name == "finishedWithValue":
            # the maps it touches at all (find + erase(iterator), or erase(key)): the used map of its key type, nothing else
            touched = sorted({path(f, f.s(st["obj"]))[5:] for st in f.stmts.values() if st["k"] == "CXXMemberCallExpr" and
                              (path(f, f.s(st["obj"])) or "").startswith("this.") and st["callee"].get("rec", "").startswith("std::map")})
            ok = touched == ["usedPromiseBy" + key] and (finds == ["usedPromiseBy" + key] or not finds)
            finds = touched
            ctx.ob(rid, ok, f.where, "finishedWithValue only drops a completed entry", "" if ok else str(finds), fn=f.label, inst=f.qname)
        elif f.name == "getFuture":
            gf = [st for st in f.stmts.values() if st["k"] == "CXXMemberCallExpr" and st["callee"]["name"] == "get_future"]
            stores = [(st, _stored_into(f, st, "promiseBy" + key)) for st in f.stmts.values()]
            stores = [(st, v) for st, v in stores if v is not None and f.pos_of(st)]
            elsewhere = [st for st in f.stmts.values() for m_ in list(PENDING) + list(PENDING.values())
                         if m_ != "promiseBy" + key and _stored_into(f, st, m_) is not None]
            ok = len(gf) == 1 and len(stores) == 1 and not elsewhere and \
                path(f, stores[0][1]) == path(f, f.s(gf[0]["obj"])) and f.dominates(f.pos_of(gf[0]), f.pos_of(stores[0][0]))
            ctx.ob(rid, ok, f.where, "getFuture returns the future of the promise it files under the key (pending map of its key type)",
                   "" if ok else "shape changed", fn=f.label, inst=f.qname)
