"""C06 - deferred_guarded applies each modification once, exclusively, in order."""
import re

from ..engine import (CALLS, CTORS, HELD, MAYBE, atomic_ops, atomic_field_of, callee_fq, path, unwrap,
                      handle_class, is_lock_carrier)
from ..flow import paths, path_positions, TooManyPaths
from ..guards import check_guarded_fields, field_refs, locks_of
from ..typestate import NonNull
from ..facts import short
from .. import common

EXPLANATION = (
    "Ordering (dominance / path) rules on every instantiated member of deferred_guarded (4 mutex types, void and "
    "value-returning functors). Decided: [C06.submit] modify_detach / modify_async take the mutex with an exclusive "
    "TRY lock; on the owned branch the queued work is drained before the functor is applied (older work first); on "
    "the other branch the task is enqueued under the pending-list lock and only then (inside or after that critical "
    "section, never before) is the pending flag raised, and the object is not touched; modify_async takes the future "
    "before the task is moved into the queue; [C06.drain] the drain helper requires the mutex exclusively at all "
    "its callers, clears the flag before (or within the same list critical section as) taking the queue, swaps the "
    "queue into a local that is traversed forward running each task once; do_pending_writes = flag test, exclusive "
    "try lock, drain; [C06.shared] every shared acquisition (and load) passes through do_pending_writes before the "
    "handle is built; [C06.capture] every task_runner's run_task invokes a std::packaged_task (results and "
    "exceptions reach the future, a throwing task cannot abort the drain) and the direct modify_async path runs the "
    "functor inside try/catch(...) set_exception; [C06.guard] lockset rule on m_obj; [C06.raii] no raw mutex "
    "operations. Not decided: exactly-once and ordering over all interleavings as such; the floor for "
    "m_pendingWrites is relaxed on purpose (the queue has its own mutex).")
ASSUMPTIONS = ["std::packaged_task::operator() stores the result or the exception in the shared state and never lets it escape",
               "std::vector range-for visits elements in insertion order"]

CLS = "gmlc::libguarded::deferred_guarded"


def fns(ctx, name):
    return list(ctx.fb.functions(rec=CLS, name=name))


def striped_queue(ctx, rid="C06.order"):
    """representation anchor: the pending work is kept in SEVERAL queues (an array / vector of lists).  The rules that
    follow one queue - enqueue, flag, swap, forward traversal - do not describe that; what must hold for any such
    representation is that entries of different queues have an order at all: each carries a sequence number drawn from
    one shared counter when it is submitted.  Returns None (single queue) / True (striped, tickets present: undecided) /
    False (striped without a common sequence: reported)."""
    key = "_c06_striped"
    if key in ctx.__dict__:
        return ctx.__dict__[key]
    res = None
    for r_ in ctx.fb.records(tmpl=CLS):
        fl = r_.field("m_pendingList")
        if fl is None:
            ctx.broken("deferred_guarded::m_pendingList not found (anchor vanished)")
        t = fl["type"].replace("mutable ", "")
        if re.match(r"^(std::array<|std::vector<gmlc|std::deque<gmlc)", t) or t.rstrip().endswith("]"):
            counters = [x for x in r_.fields if re.match(r"^(mutable )?std::atomic<(unsigned |std::u?int|long|int|std::size_t|size_t)", x["type"])]
            drawn = False
            for f in ctx.fb.functions(rec=CLS):
                for op in atomic_ops(f):
                    fld = atomic_field_of(f, op)
                    if fld and fld[0] == CLS and fld[1] in [c["name"] for c in counters] and op["op"] == "rmw":
                        drawn = True
            res = bool(counters) and drawn
            ctx.ob(rid, res, "%s:%d" % (short(r_.file), fl.get("line", r_.line)), "pending work kept in several queues carries a sequence "
                   "number from one shared counter", "" if res else "m_pendingList is %s and no shared counter orders entries of different "
                   "queues: two modifications submitted one after the other by different threads are applied in whatever order the "
                   "queues happen to be drained" % t[:60], inst=r_.qname)
            break
    ctx.__dict__[key] = res
    return res


def run(ctx):
    ctx.rule("C06.guard", "A3: m_obj only under m_mutex (S for reads, X for every non-const use); the private drain "
             "helper is only called with m_mutex held exclusively", floor=20)
    ctx.step(check_guarded_fields, ctx, "C06.guard", CLS)
    ctx.rule("C06.order", "modifications are applied in submission order", floor=0)
    st_ = ctx.step(striped_queue, ctx)
    if st_ is not None:
        if st_:
            ctx.unknown("C06: deferred_guarded keeps its pending work in several queues ordered by a ticket; the rules that follow "
                        "the single queue of the reference tree (submit / drain / order) do not describe this representation")
        ctx.step(shared, ctx)
        ctx.step(capture, ctx)
        ctx.step(owned_functor, ctx)
        ctx.step(exception_identity, ctx, "C06.exc")
        ctx.step(result_identity, ctx)
        ctx.step(common.raii_only, ctx, "C06.raii", ["deferred_guarded.hpp"], floor=20)
        return
    ctx.step(submit, ctx)
    ctx.step(drain, ctx)
    ctx.step(shared, ctx)
    ctx.step(capture, ctx)
    ctx.step(owned_functor, ctx)
    ctx.step(common.no_move_from_callers_object, ctx, "C06.forward",
             [f for f in ctx.fb.functions() if f.file.endswith("/deferred_guarded.hpp")], floor=20)
    ctx.step(exception_identity, ctx, "C06.exc")
    ctx.step(result_identity, ctx)
    ctx.step(later_operations, ctx)
    ctx.step(common.raii_only, ctx, "C06.raii", ["deferred_guarded.hpp"], floor=20)
    ctx.step(common.witnesses, ctx, "C06.witness", ["C06"])


def _calls(f, pred):
    return [st for st in f.stmts.values() if st["k"] in CALLS and pred(st)]


def _is_enqueue(f, st):
    """m_pendingList.lock()->emplace_back/push_back(...)"""
    if st["k"] != "CXXMemberCallExpr" or (st.get("callee") or {}).get("name") not in ("emplace_back", "push_back", "insert", "emplace"):
        return False
    p = path(f, f.s(st["obj"]))
    return False if p is None else False


def enqueue_sites(f, la):
    """container insertions executed while a handle on this.m_pendingList's mutex is held"""
    out = []
    for st in f.stmts.values():
        if st["k"] == "CXXMemberCallExpr" and (st.get("callee") or {}).get("name") in ("emplace_back", "push_back", "insert", "emplace"):
            pos = f.pos_of(st)
            if pos and la.holds(pos, "this.m_pendingList.m_mutex", "X"):
                out.append(st)
    return out


def flag_ops(f, kind, value=None):
    out = []
    for op in atomic_ops(f):
        if atomic_field_of(f, op) != (CLS, "m_pendingWrites"):
            continue
        if op["op"] != kind:
            continue
        if value is not None:
            v = unwrap(f, op["value"]) if op["value"] is not None else None
            if not (v is not None and v["k"] == "CXXBoolLiteralExpr" and v["v"] is value):
                continue
        out.append(op)
    return out


def functor_applications(f):
    """direct applications of the user functor to m_obj in f: operator()(func, m_obj) or
    call_returning_future(func, m_obj)"""
    out = []
    for st in f.stmts.values():
        if st["k"] == "CXXOperatorCallExpr" and st.get("op") == "()" and len(st["args"]) >= 2 and \
                path(f, f.s(st["args"][1])) == "this.m_obj":
            out.append(st)
        if st["k"] == "CallExpr" and callee_fq(st) == "gmlc::libguarded::call_returning_future" and \
                len(st["args"]) >= 2 and path(f, f.s(st["args"][1])) == "this.m_obj":
            out.append(st)
    return out


def _drained_when_owned(f, la, drain_pos, app_pos):
    """path-sensitive on lock ownership: on every way to app_pos ON WHICH THE LOCK IS OWNED, a drain was executed.
    Abstract state: set of (owned?, drained?) pairs; a branch whose outcome the lock analysis refines (owns_lock(),
    operator bool of the lock or of a guard object wrapping it) keeps only the matching pairs."""
    def owned_at_entry(b):
        st = la.block_in.get(b) or {}
        vals = {v.st for v in st.values() if v.mutex == "this.m_mutex"}
        return vals
    block_in = {f.entry: frozenset([(False, False)])}
    work = [f.entry]
    it = 0
    result = None
    while work and it < 4000:
        it += 1
        b = work.pop(0)
        cur = set(block_in[b])
        blk = f.blocks[b]
        for i in range(len(blk.elems)):
            pos = (b, i)
            if pos == app_pos:
                # ownership as the lock analysis knows it here decides which pairs are real
                own_here = {v.st for v in la.state_at(pos).values() if v.mutex == "this.m_mutex"}
                live = [p_ for p_ in cur if p_[0] or own_here != {HELD}]
                bad = [p_ for p_ in cur if p_[0] and not p_[1]]
                result = (result if result is not None else True) and not bad
            if pos in drain_pos:
                cur = {(o, True) for o, _d in cur}
            # acquisition events flip ownership to 'maybe owned': split
            for ev in la.acquire_events:
                if tuple(ev[0]) == pos and ev[2].mutex == "this.m_mutex":
                    cur = {(True, d_) for _o, d_ in cur} | {(False, d_) for _o, d_ in cur} if ev[3] is not True else {(True, d_) for _o, d_ in cur}
        for idx, s_ in enumerate(blk.succs):
            if s_ is None:
                continue
            nxt = set(cur)
            # refine by what the lock analysis knows on this edge (the outcome of an ownership test)
            est = la.edge_out.get((b, idx))
            own = {v.st for v in est.values() if v.mutex == "this.m_mutex"} if est is not None else owned_at_entry(s_)
            if own == {HELD}:
                nxt = {p_ for p_ in nxt if p_[0]}
            elif own and HELD not in own and MAYBE not in own:
                nxt = {p_ for p_ in nxt if not p_[0]}
            old = block_in.get(s_)
            j_ = frozenset(nxt) if old is None else (old | frozenset(nxt))
            if old is None or j_ != old:
                block_in[s_] = j_
                if s_ not in work:
                    work.append(s_)
    return bool(result)


def submit(ctx, rid="C06.submit"):
    ctx.rule(rid, "submit: exclusive try lock; owned branch drains before applying; other branch enqueues before "
             "raising the flag and never touches the object", floor=30)
    fb, eng = ctx.fb, ctx.eng
    n = 0
    for nm in ("modify_detach", "modify_async"):
        for f in fns(ctx, nm):
            n += 1
            la = eng.locks(f)
            acq = [ev for ev in la.acquire_events if ev[2].mutex == "this.m_mutex"]
            ok = len(acq) == 1 and acq[0][3] == "try" and acq[0][2].mode == "X"
            ctx.ob(rid, ok, f.where, "%s takes m_mutex with one exclusive try lock (a submitter never waits for readers)" % nm,
                   "" if ok else "acquisitions: %s" % [(e[3], e[2].mode) for e in acq], fn=f.label, inst=f.qname)
            apps = functor_applications(f)
            drains = _calls(f, lambda s: (s.get("callee") or {}).get("name") == "do_pending_writes_internal"
                            and path(f, f.s(s.get("obj"))) == "this")
            if not apps:
                ctx.unknown("%s: no direct application path recognised in %s" % (rid, f.label))
            for a in apps:
                ap = f.pos_of(a)
                ok = la.holds(ap, "this.m_mutex", "X")
                ctx.ob(rid, ok, f.loc(a), "the direct application runs with m_mutex held exclusively",
                       "" if ok else "lock not known to be owned here", fn=f.label, inst=f.qname)
                ok = any(f.dominates(f.pos_of(d), ap) and f.pos_of(d) != ap for d in drains)
                if not ok and drains:
                    ok = _drained_when_owned(f, la, [tuple(f.pos_of(d)) for d in drains if f.pos_of(d)], tuple(ap))
                ctx.ob(rid, ok, f.loc(a), "queued work is drained before the functor is applied (older submissions first)",
                       "" if ok else "no do_pending_writes_internal() dominates the application", fn=f.label, inst=f.qname)
            enq = enqueue_sites(f, la)
            raises = flag_ops(f, "store", True) + [o for o in flag_ops(f, "rmw")]
            if not enq or (not raises and not flag_ops(f, "store")):
                ctx.unknown("%s: no queued path recognised in %s (enqueue sites=%d, flag raises=%d)" % (rid, f.label, len(enq), len(raises)))
            elif not raises:
                ctx.ob(rid, False, f.where, "%s raises the pending flag after enqueuing" % nm,
                       "the task is queued but the flag is never raised: the drain never looks at the queue", fn=f.label, inst=f.qname)
            for r in raises:
                rp = f.pos_of(r["st"])
                # the pending-list critical section in which the task was enqueued must have STARTED before the raise:
                # an enqueue dominates the raise, or the raise happens while the same list lock is held after ... no:
                ok = any(f.dominates(f.pos_of(e), rp) and f.pos_of(e) != rp for e in enq)
                if not ok:
                    # raised inside the critical section in which the enqueue follows: list lock held at the raise
                    ok = la.holds(rp, "this.m_pendingList.m_mutex", "X") and \
                        any(f.dominates(rp, f.pos_of(e)) for e in enq) and \
                        all(_same_section(f, la, rp, f.pos_of(e)) for e in enq if f.dominates(rp, f.pos_of(e)))
                ctx.ob(rid, ok, f.loc(r["st"]), "the pending flag is raised only after (or inside the list critical section of) the enqueue",
                       "" if ok else "the flag is raised before the task is in the queue: a drainer can clear the flag, find "
                       "the queue empty, and the task is stranded with the flag down", fn=f.label, inst=f.qname)
                # the queued branch does not touch the object
                okb = not la.holds(rp, "this.m_mutex", "S")
                ctx.ob(rid, okb, f.loc(r["st"]), "the queued branch runs without m_mutex", "", fn=f.label, inst=f.qname)
            for st in field_refs(f, CLS):
                if st["m"]["name"] != "m_obj":
                    continue
                pos = f.pos_of(st)
                ok = pos is not None and la.holds(pos, "this.m_mutex", "X")
                ctx.ob(rid, ok, f.loc(st), "the object is only touched on the branch that owns the lock", "" if ok else
                       "m_obj used where the try lock may have failed", fn=f.label, inst=f.qname)
            if nm == "modify_async":
                # the future leaves the package before the task is moved into the queue
                mv = [st for st in f.stmts.values() if st["k"] == "CallExpr" and callee_fq(st) == "std::move"]
                fut = [s for s in mv if (path(f, f.s(s["args"][0])) or "").endswith(".second")]
                tsk = [s for s in mv if (path(f, f.s(s["args"][0])) or "").endswith(".first")]
                ok = bool(fut) and bool(tsk) and all(f.dominates(f.pos_of(a), f.pos_of(b)) for a in fut for b in tsk)
                ctx.ob(rid, ok, f.where, "modify_async keeps the future before handing the task to the queue",
                       "" if ok else "future taken after the task was moved away", fn=f.label, inst=f.qname)
    if n == 0:
        ctx.broken("modify_detach / modify_async not instantiated")
    for f in fb.functions(name="package_task_void"):
        gf = [st for st in f.stmts.values() if st["k"] == "CXXMemberCallExpr" and st["callee"]["name"] == "get_future"]
        mv = [st for st in f.stmts.values() if st["k"] == "CallExpr" and callee_fq(st) == "std::move" and
              (path(f, f.s(st["args"][0])) or "").endswith("task") and "future" not in (path(f, f.s(st["args"][0])) or "")]
        ok = len(gf) == 1 and bool(mv) and all(f.dominates(f.pos_of(gf[0]), f.pos_of(m)) for m in mv)
        ctx.ob(rid, ok, f.where, "package_task_void obtains the future before giving the task away", "", fn=f.label, inst=f.qname)


def _same_section(f, la, p1, p2):
    """is the pending-list lock held continuously from p1 to p2 (same key, straight line)"""
    k1 = [k for m, mo, k in la.held_at(p1) if m == "this.m_pendingList.m_mutex"]
    k2 = [k for m, mo, k in la.held_at(p2) if m == "this.m_pendingList.m_mutex"]
    return bool(set(k1) & set(k2))


def drain(ctx):
    rid = "C06.drain"
    ctx.rule(rid, "drain: flag cleared before / within the same list critical section as the swap; queue swapped into a "
             "local traversed forward, each task run once; do_pending_writes = flag test, exclusive try lock, drain", floor=12)
    fb, eng = ctx.fb, ctx.eng
    fs = fns(ctx, "do_pending_writes_internal")
    if not fs:
        ctx.broken("do_pending_writes_internal not instantiated")
    for f in fs:
        la = eng.locks(f)
        # whoever drains holds the object exclusively and is the only one who can run the queue: it waits for the list
        # (a submitter holds it for an append only) - a try form that gives up leaves older submissions behind the caller's
        soft = [st for st in f.stmts.values() if st["k"] == "CXXMemberCallExpr" and (st.get("callee") or {}).get("name", "").startswith("try_lock")
                and path(f, f.s(st.get("obj"))) == "this.m_pendingList"]
        ctx.ob(rid, not soft, f.loc(soft[0]) if soft else f.where, "the drain takes the pending list with a blocking lock", "" if not soft else
               "%s() on the pending list: when a submitter is appending at that moment the drain returns without running the queue, and "
               "the caller's own modification (or read) overtakes submissions that were accepted earlier" % soft[0]["callee"]["name"],
               fn=f.label, inst=f.qname)
        swaps = [st for st in f.stmts.values() if st["k"] == "CallExpr" and callee_fq(st) in ("std::swap", "swap")
                 or (st["k"] == "CXXMemberCallExpr" and (st.get("callee") or {}).get("name") == "swap")]
        swaps = [s for s in swaps if f.pos_of(s) and la.holds(f.pos_of(s), "this.m_pendingList.m_mutex", "X")]
        clears = flag_ops(f, "store", False)
        ok = len(swaps) == 1 and bool(clears)
        ctx.ob(rid, ok, f.where, "the drain clears the flag and swaps the queue out under the list lock",
               "" if ok else "swaps under list lock=%d, flag clears=%d" % (len(swaps), len(clears)), fn=f.label, inst=f.qname)
        if not ok:
            continue
        sp = f.pos_of(swaps[0])
        for c in clears:
            cp = f.pos_of(c["st"])
            ok = (f.dominates(cp, sp) and cp != sp) or (la.holds(cp, "this.m_pendingList.m_mutex", "X") and _same_section(f, la, cp, sp))
            ctx.ob(rid, ok, f.loc(c["st"]), "the flag is cleared before the queue is taken (or inside the same list critical section)",
                   "" if ok else "queue taken first and flag cleared afterwards outside the list lock: a task enqueued in "
                   "between is left in the queue with the flag down", fn=f.label, inst=f.qname)
        # the local that receives the queue
        local = None
        operands = [f.s(a) for a in swaps[0]["args"]]
        if swaps[0]["k"] == "CXXMemberCallExpr":
            operands.append(f.s(swaps[0].get("obj")))        # local.swap(*handle) as well as swap(local, *handle)
        for a in operands:
            p = path(f, a)
            if p and re.match(r"^l:[\w$]+$", p) and (a or {}).get("t", "").replace("const ", "").startswith("std::vector<"):
                local = p
        ok = local is not None
        ctx.ob(rid, ok, f.loc(swaps[0]), "the queue is swapped into a local vector", "", fn=f.label, inst=f.qname)
        # forward traversal with run_task on each element: a range-for over the local
        rf = [st for st in f.stmts.values() if st["k"] == "CXXForRangeStmt"]
        ok = False
        runs = [st for st in f.stmts.values() if st["k"] == "CXXMemberCallExpr" and st["callee"]["name"] == "run_task"]
        for r_ in rf:
            ri = f.s(r_.get("range_init"))
            if ri is not None and path(f, ri) == local:
                body = f.s(r_["body"])
                inside = [x for x in runs if any(a["id"] == body["id"] for a in f.ancestors(x))]
                lv = r_.get("loopvar", {}).get("name")
                if len(inside) == 1 and len(runs) == 1:
                    objp = path(f, f.s(inside[0]["obj"]))
                    argp = path(f, f.s(inside[0]["args"][0])) if inside[0]["args"] else None
                    ok = objp is not None and objp.startswith("l:" + str(lv)) and argp == "this.m_obj"
        if not ok and local is not None and len(runs) == 1:
            ok = _iterator_traversal(f, local, runs[0])
        ctx.ob(rid, ok, f.where, "the local queue is traversed front to back with exactly one run_task(m_obj) per element",
               "" if ok else "no forward loop over the local with a single run_task on the current element", fn=f.label, inst=f.qname)
        # tasks run after the list lock is released (no user code under the internal section) and after the swap
        for r_ in runs:
            rp = f.pos_of(r_)
            ok = f.dominates(sp, rp) and not la.holds(rp, "this.m_pendingList.m_mutex", "S")
            ctx.ob(rid, ok, f.loc(r_), "tasks run after the swap, outside the list lock", "", fn=f.label, inst=f.qname)
    for f in fns(ctx, "do_pending_writes"):
        la = eng.locks(f)
        acq = [ev for ev in la.acquire_events if ev[2].mutex == "this.m_mutex"]
        ok = len(acq) == 1 and acq[0][3] in ("try", True) and acq[0][2].mode == "X"
        ctx.ob(rid, ok, f.where, "do_pending_writes takes m_mutex exclusively (whether it may wait is C08's concern)",
               "" if ok else "acquisitions: %s" % [(e[3], e[2].mode) for e in acq], fn=f.label, inst=f.qname)
        calls = _calls(f, lambda s: (s.get("callee") or {}).get("name") == "do_pending_writes_internal")
        ok = len(calls) == 1 and la.holds(f.pos_of(calls[0]), "this.m_mutex", "X")
        ctx.ob(rid, ok, f.where, "the drain is called exactly on the branch that owns the lock", "", fn=f.label, inst=f.qname)


def _iterator_traversal(f, local, run):
    """`auto it = local.begin(); while (it != local.end()) { (*it)->run_task(m_obj); ++it; }` (any loop form)"""
    objp = path(f, f.s(run["obj"])) or ""
    m = re.match(r"^\*?(l:\w+)", objp)
    if not m:
        return False
    it = m.group(1)
    init_ok = False
    endvars = set()
    for st in f.stmts.values():
        if st["k"] == "DeclStmt":
            for d in st["decls"]:
                init = unwrap(f, f.s(d.get("init"))) if d.get("init") else None
                while init is not None and init["k"] in CTORS and len(init["args"]) == 1:
                    init = unwrap(f, f.s(init["args"][0]))
                if init is not None and init["k"] == "CXXMemberCallExpr" and path(f, f.s(init["obj"])) == local:
                    if "l:" + d["name"] == it and init["callee"]["name"] in ("begin", "cbegin"):
                        init_ok = True
                    if init["callee"]["name"] in ("end", "cend"):
                        endvars.add("l:" + d["name"])
    if not init_ok:
        return False
    # the run is inside a loop whose condition compares the iterator with end
    pos = f.pos_of(run)
    in_loop = False
    for h, body in f.loops():
        if pos[0] not in body:
            continue
        for b in body:
            blk = f.blocks[b]
            if blk.term and blk.term.get("cond") and any(s is not None and s not in body for s in blk.succs):
                c = unwrap(f, f.s(blk.term["cond"]))
                if c is not None and c["k"] == "CXXOperatorCallExpr" and c.get("op") == "!=":
                    a0 = path(f, f.s(c["args"][0]))
                    a1u = unwrap(f, f.s(c["args"][1]))
                    a1 = path(f, a1u)
                    is_end = a1 in endvars or (a1u is not None and a1u["k"] == "CXXMemberCallExpr" and
                                               a1u["callee"]["name"] in ("end", "cend") and path(f, f.s(a1u["obj"])) == local)
                    if a0 == it and is_end:
                        in_loop = True
    if not in_loop:
        return False
    # the iterator only moves forward by one
    for st in f.stmts.values():
        if st["k"] == "CXXOperatorCallExpr" and st["args"] and path(f, f.s(st["args"][0])) == it:
            if st.get("op") in ("--", "+=", "-=", "="):
                return False
    incs = [st for st in f.stmts.values() if st["k"] == "CXXOperatorCallExpr" and st.get("op") == "++" and
            path(f, f.s(st["args"][0])) == it]
    return len(incs) == 1


def shared(ctx):
    rid = "C06.shared"
    ctx.rule(rid, "every shared acquisition calls do_pending_writes() before the handle is constructed", floor=6)
    fb = ctx.fb
    n = 0
    for nm in ("lock_shared", "try_lock_shared", "try_lock_shared_for", "try_lock_shared_until"):
        for f in fns(ctx, nm):
            n += 1
            dp = _calls(f, lambda s: (s.get("callee") or {}).get("name") == "do_pending_writes"
                        and path(f, f.s(s.get("obj"))) == "this")
            builds = [st for st in f.stmts.values() if (st["k"] in CTORS and handle_class(st.get("t", ""))) or
                      (st["k"] == "CallExpr" and callee_fq(st).startswith("gmlc::libguarded::try_lock_shared_handle"))]
            ok = bool(dp) and bool(builds) and all(any(f.dominates(f.pos_of(d), f.pos_of(b)) and f.pos_of(d) != f.pos_of(b)
                                                       for d in dp) for b in builds)
            if not ok and dp and builds:
                # a drain that is skipped only when the pending flag was seen clear is as good (nothing is queued then)
                nn = NonNull(f)
                ok = all(any(f.dominates(f.pos_of(d), f.pos_of(b)) and f.pos_of(d) != f.pos_of(b) for d in dp) or
                         ("null", "this.m_pendingWrites") in nn.before.get(tuple(f.pos_of(b)), set()) for b in builds)
            ctx.ob(rid, ok, f.where, "%s attempts a drain before it builds the shared handle" % nm,
                   "" if ok else "a path grants shared access without having tried to apply queued work", fn=f.label, inst=f.qname)
    for f in fns(ctx, "load"):
        calls = _calls(f, lambda s: (s.get("callee") or {}).get("name") == "lock_shared" and path(f, f.s(s.get("obj"))) == "this")
        ok = len(calls) == 1
        if not calls:
            # spelled out: the drain attempt first, then a shared acquisition of its own under which the value is copied
            dp = _calls(f, lambda s: (s.get("callee") or {}).get("name") == "do_pending_writes" and path(f, f.s(s.get("obj"))) == "this")
            la = ctx.eng.locks(f)
            acq = [e for e in la.acquire_events if e[2].mutex == "this.m_mutex" and e[3] is True]
            ok = bool(dp) and bool(acq) and all(any(f.dominates(f.pos_of(d), tuple(e[0])) for d in dp) for e in acq)
        ctx.ob(rid, ok, f.where, "load goes through lock_shared (and therefore through the drain), or drains and locks itself",
               "", fn=f.label, inst=f.qname)
    if n == 0:
        ctx.broken("no shared acquisition method of deferred_guarded instantiated")


def owned_functor(ctx, rid="C06.capture"):
    """a queued task outlives the call that queued it: it must OWN its function object - no std::ref / std::cref to
    the (by-value) parameter, no lambda capturing a local or parameter by reference"""
    n = 0
    for nm in ("modify_detach", "modify_async"):
        for f in fns(ctx, nm):
            n += 1
            bad = None
            for st in f.stmts.values():
                if st["k"] == "CallExpr" and callee_fq(st) in ("std::ref", "std::cref"):
                    bad = (st, "%s(...) hands the task a reference to an object that dies when %s returns" % (callee_fq(st), nm))
                if st["k"] == "LambdaExpr":
                    for c in st.get("caps", []):
                        v = c.get("var") or {}
                        if c.get("by") == "ref" and v.get("k") in ("local", "param"):
                            # only when the closure is what gets queued / packaged
                            par = f.par(st)
                            while par is not None and par["k"] in ("ImplicitCastExpr", "MaterializeTemporaryExpr", "CXXBindTemporaryExpr",
                                                                   "ExprWithCleanups", "CXXFunctionalCastExpr", "CXXConstructExpr"):
                                if par["k"] == "CXXConstructExpr" and "packaged_task" in par.get("t", ""):
                                    break
                                par = f.par(par)
                            if par is not None and (par["k"] in ("CXXNewExpr",) or "packaged_task" in par.get("t", "") or
                                                    (par["k"] == "CallExpr" and "package_task" in callee_fq(par))):
                                bad = (st, "the queued closure captures '%s' by reference" % v.get("name"))
            ctx.ob(rid, bad is None, f.loc(bad[0]) if bad else f.where, "%s queues a task that owns its function object" % nm,
                   "" if bad is None else bad[1] + ": the drainer later calls a destroyed object", fn=f.label, inst=f.qname)
    if n == 0:
        ctx.broken("modify_detach / modify_async not instantiated")


KNOWN_OPS = ("modify_detach", "modify_async", "do_pending_writes", "do_pending_writes_internal", "lock", "try_lock", "try_lock_for",
             "try_lock_until", "lock_shared", "try_lock_shared", "try_lock_shared_for", "try_lock_shared_until", "load")


def later_operations(ctx, rid="C06.order"):
    """operations added to deferred_guarded after the rules above were written take part in the same protocol:
    (a) whoever modifies the object under the exclusive lock first applies what is queued, inside that critical section
        (older submissions first) - a try-lock flush BEFORE the blocking acquisition does not do: submissions can be queued
        in between;
    (b) a queued modification leaves the queue only by being executed: nothing but the drain empties the pending list"""
    ctx.rule(rid, "every modifier drains the queue inside its exclusive section before it touches the object; only the drain "
             "removes entries from the pending list", floor=0)
    fb, eng = ctx.fb, ctx.eng
    for f in fb.functions(rec=CLS):
        if f.kind in ("ctor", "dtor"):
            continue
        la = eng.locks(f)
        if f.name not in KNOWN_OPS and f.access == "public":
            muts = list(functor_applications(f))
            for st in field_refs(f, CLS):
                if st["m"]["name"] == "m_obj":
                    acc, _user = eng.classify_access(f, st)
                    if acc in ("write", "call", "addr", "bind"):
                        muts.append(st)
            drains = [tuple(f.pos_of(s)) for s in _calls(f, lambda s: (s.get("callee") or {}).get("name") == "do_pending_writes_internal"
                      and path(f, f.s(s.get("obj"))) == "this") if f.pos_of(s)]
            for m in muts:
                mp = f.pos_of(m)
                if mp is None or not la.holds(mp, "this.m_mutex", "X"):
                    continue        # the guard rule judges accesses without the exclusive lock
                ok = any(f.dominates(d, tuple(mp)) and la.holds(d, "this.m_mutex", "X") and _same_section(f, la, d, tuple(mp)) for d in drains)
                if not ok and drains:
                    ok = _drained_when_owned(f, la, drains, tuple(mp))
                ctx.ob(rid, ok, f.loc(m), "%s applies the queued modifications before its own, inside the same exclusive section" % f.name,
                       "" if ok else "the object is modified under the exclusive lock without do_pending_writes_internal() having run "
                       "in this critical section: a modification queued earlier is applied AFTER this one", fn=f.label, inst=f.qname)
        if f.name != "do_pending_writes_internal":
            for st in f.stmts.values():
                if st["k"] == "CXXMemberCallExpr" and (st.get("callee") or {}).get("name") in (
                        "clear", "erase", "pop_back", "pop_front", "resize", "assign", "swap", "shrink_to_fit"):
                    o = f.s(st.get("obj"))
                    on_list = o is not None and any(d["k"] == "MemberExpr" and d["m"].get("name") == "m_pendingList"
                                                    for d in f.descendants(o))
                    if on_list:
                        ctx.ob(rid, False, f.loc(st), "queued modifications leave the pending list only by being executed",
                               "%s() on the pending list in %s: the queued functions are dropped - they are never applied and "
                               "their futures are never satisfied" % (st["callee"]["name"], f.name), fn=f.label, inst=f.qname)


def result_identity(ctx, rid="C06.result"):
    """a future holds its function's RESULT: when the function returns a reference (std::future<R&>), the promise is
    given that reference - not a reference to a local copy that dies with the helper"""
    ctx.rule(rid, "a promise of a reference is never set to a local (non-reference) variable", floor=1)
    n = 0
    for f in ctx.fb.functions():
        if not f.file.endswith("/deferred_guarded.hpp"):
            continue
        for st in f.stmts.values():
            if st["k"] != "CXXMemberCallExpr" or (st.get("callee") or {}).get("name") != "set_value" or not st["args"]:
                continue
            ot = (f.s(st["obj"]) or {}).get("t", "")
            if not re.match(r"^std::promise<.*&\s*>$", ot.strip()):
                continue
            n += 1
            a = unwrap(f, f.s(st["args"][0]))
            bad = a is not None and a["k"] == "DeclRefExpr" and a["d"].get("k") == "local" and not a["d"].get("ref") \
                and not a["d"].get("inl_ret")
            ctx.ob(rid, not bad, f.loc(st), "%s hands the reference its function returned to the promise" % f.name,
                   "" if not bad else "the promise of a reference is bound to the local '%s' (a decayed copy of the result): the "
                   "future refers to a dead stack object, not to the protected data" % a["d"]["name"], fn=f.label, inst=f.qname)
    if n == 0:
        ctx.broken("no std::promise<R&>::set_value found: the driver no longer instantiates modify_async with a "
                   "reference-returning function, or the direct path changed shape")


def exception_identity(ctx, rid):
    """what the future rethrows is the exception the user function threw: every handler that stores into the promise
    captures with std::current_exception() (make_exception_ptr(e) of a caught base-class reference copies by the
    static type and slices the user's exception)"""
    ctx.rule(rid, "exceptions are handed to the promise as std::current_exception()", floor=2)
    n = 0
    for f in ctx.fb.functions():
        if not f.file.endswith("/deferred_guarded.hpp"):
            continue
        for st in f.stmts.values():
            if st["k"] == "CXXMemberCallExpr" and (st.get("callee") or {}).get("name") == "set_exception" and st["args"]:
                a = unwrap(f, f.s(st["args"][0]))
                while a is not None and a["k"] in CTORS and len(a["args"]) == 1:
                    a = unwrap(f, f.s(a["args"][0]))
                ok = a is not None and a["k"] == "CallExpr" and callee_fq(a) == "std::current_exception"
                n += 1
                ctx.ob(rid, ok, f.loc(st), "the promise receives the in-flight exception object itself",
                       "" if ok else "argument is %s: the stored exception is a copy made by static type, the user's exception "
                       "type and payload are lost" % (callee_fq(a) if a is not None and a["k"] == "CallExpr" else (a or {}).get("k")),
                       fn=f.label, inst=f.qname)
    if n == 0:
        ctx.broken("no promise.set_exception call in deferred_guarded.hpp (anchor vanished)")


def capture(ctx, rid="C06.capture"):
    ctx.rule(rid, "queued work runs inside std::packaged_task; the direct modify_async path runs the functor inside "
             "try/catch(...) set_exception", floor=4)
    fb = ctx.fb
    runners = [r for r in fb.records() if any(b.get("tmpl") == "gmlc::libguarded::task_runner" for b in r.bases)]
    if not runners:
        ctx.broken("no class derived from task_runner found")
    for r in runners:
        fs = [f for f in fb.functions(rec=r.tmpl, name="run_task") if f.recq == r.qname]
        site = "%s:%d" % (r.file.replace("/repo/", ""), r.line)
        if not fs:
            continue
        for f in fs:
            inv = [st for st in f.stmts.values() if st["k"] in CALLS and (st.get("callee") or {}).get("name") == "operator()"]
            ok = len(inv) == 1 and inv[0]["callee"].get("rec", "").startswith("std::packaged_task")
            ctx.ob(rid, ok, f.where, "%s::run_task invokes a std::packaged_task (exceptions are captured in the future)" % r.name,
                   "" if ok else "it invokes %s: an exception thrown by a queued modification escapes into the thread "
                   "that drains and aborts the rest of the queue" % [i["callee"].get("rec") for i in inv], fn=f.label, inst=f.qname)
    # whatever is enqueued is a task_runner subclass built from a packaged_task
    for nm in ("modify_detach",):
        for f in fns(ctx, nm):
            news = [st for st in f.stmts.values() if st["k"] == "CXXNewExpr"]
            ok = bool(news) and all(re.match(r"^gmlc::libguarded::(void_runner|type_runner)<", n_["alloc_type"]) or
                                    any(r.qname == n_["alloc_type"] for r in runners) for n_ in news)
            if not news:
                # what is queued may be a std::packaged_task held by value: it captures exceptions just the same
                enq = [st for st in f.stmts.values() if st["k"] == "CXXMemberCallExpr" and
                       (st.get("callee") or {}).get("name") in ("emplace_back", "push_back")]
                ok = bool(enq) and all("std::packaged_task<" in (st["callee"].get("recq") or "") or
                                       "task_runner<" in (st["callee"].get("recq") or "") for st in enq)
            ctx.ob(rid, ok, f.where, "modify_detach queues a task_runner / packaged_task", "" if ok else str([n_["alloc_type"] for n_ in news]),
                   fn=f.label, inst=f.qname)
    for f in fb.functions(name="call_returning_future"):
        apps = [st for st in f.stmts.values() if st["k"] == "CXXOperatorCallExpr" and st.get("op") == "()"]
        ok = bool(apps)
        for a in apps:
            prot = False
            for anc in f.ancestors(a):
                if anc["k"] == "CXXTryStmt":
                    for hid in anc["handlers"]:
                        h = f.s(hid)
                        if h.get("all"):
                            body = f.s(h["body"])
                            se = any(d["k"] == "CXXMemberCallExpr" and d["callee"]["name"] == "set_exception"
                                     for d in f.descendants(body))
                            rt = any(d["k"] == "CXXThrowExpr" for d in f.descendants(body))
                            prot = se and not rt
            ok = ok and prot
        ctx.ob(rid, ok, f.where, "call_returning_future runs the functor inside try/catch(...) set_exception",
               "" if ok else "the functor's exception would escape modify_async", fn=f.label, inst=f.qname)
        # the promise is satisfied exactly once: set_value only inside the try (after the functor returned normally),
        # set_exception only in the handler, nothing after the try statement
        tries = [s_ for s_ in f.stmts.values() if s_["k"] == "CXXTryStmt"]
        sets = [s_ for s_ in f.stmts.values() if s_["k"] == "CXXMemberCallExpr" and s_["callee"]["name"] in ("set_value", "set_exception")
                and (s_["callee"].get("rec", "").startswith("std::promise"))]
        ok = len(tries) == 1 and bool(sets)
        detail = ""
        if ok:
            body = {d["id"] for d in f.descendants(f.s(tries[0]["try"]))}
            hand = {d["id"] for h in tries[0]["handlers"] for d in f.descendants(f.s(h))}
            for s_ in sets:
                if s_["callee"]["name"] == "set_value" and s_["id"] not in body:
                    ok = False
                    detail = "set_value at %s is outside the try block: after a throwing functor the handler has already stored " \
                             "the exception and this second set throws future_error out of modify_async" % f.loc(s_)
                if s_["callee"]["name"] == "set_exception" and s_["id"] not in hand:
                    ok = False
                    detail = "set_exception outside the handler"
            # within the try: the functor application precedes set_value
            for a in apps:
                for s_ in sets:
                    if s_["callee"]["name"] == "set_value" and s_["id"] in body and a["id"] in body:
                        if not (f.dominates(f.pos_of(a), f.pos_of(s_))):
                            ok = False
                            detail = "set_value does not follow the functor application"
        ctx.ob(rid, ok, f.where, "the promise is satisfied exactly once: value inside the try after the functor, exception in the handler",
               detail, fn=f.label, inst=f.qname)
