"""C16 - DelayedDestructor destroys late, once, and never under its own lock."""
import re

from ..engine import CALLS, CTORS, HELD, MAYBE, UNOWNED, callee_fq, path, unwrap
from ..guards import check_guarded_fields, locks_of
from ..blocking import classify_loops
from .. import common

EXPLANATION = (
    "Decided on every instantiated member of DelayedDestructor (and the order rules on the single-thread class): "
    "[C16.guard] ElementsToBeDestroyed and callBeforeDeleteFunction are only touched with destructionLock held "
    "(destructor exempt: single-threaded by object lifetime), so concurrent add/size/destroy neither lose nor "
    "duplicate an entry; [C16.unlocked] in destroyObjects() every invocation of the callback copy and every point at "
    "which the local keep-alive vector can release objects (clear(), scope end) is reached with the lock NOT owned, or "
    "with the vector provably empty - object destructors and callbacks never run under the container lock, so they "
    "may re-enter; iterators into the shared vector are not used across an unlock; destroyObjects(delay) calls "
    "destroyObjects() and sleeps only with the lock released (no self-deadlock on the non-recursive timed mutex); "
    "[C16.select] only elements with use_count()==1 are copied into the keep-alive vector, the removal predicate tests "
    "membership in that collection, callbacks run before the vector is cleared; [C16.noexcept] destroyObjects() is "
    "noexcept and everything that can throw is inside try/catch(...) without rethrow; [C16.dtor] the destructor's "
    "retry loop is bounded by a local counter. Not decided: exactly-once destruction and 'never while another owner "
    "holds it' beyond shared_ptr's own contract.")
ASSUMPTIONS = ["std::shared_ptr destroys the object when the last owner releases it, exactly once",
               "use_count() == 1 under the container lock means the container holds the only reference (no weak_ptr::lock races)"]

DD = "gmlc::concurrency::DelayedDestructor"
DS = "gmlc::concurrency::DelayedDestructorSingleThread"
LOCK = "this.destructionLock"


def run(ctx):
    ctx.rule("C16.guard", "A3: ElementsToBeDestroyed / callBeforeDeleteFunction only under destructionLock", floor=6)
    ctx.step(check_guarded_fields, ctx, "C16.guard", DD)
    ctx.step(unlocked, ctx)
    ctx.step(select, ctx, DD)
    ctx.step(select, ctx, DS)
    ctx.step(noexcept_rule, ctx)
    ctx.step(dtor_rule, ctx)
    ctx.step(common.no_repeated_moves, ctx, "C16.moves",
             [f for f in ctx.fb.functions() if f.file.endswith("/DelayedDestructor.hpp")], floor=1)
    ctx.step(common.raii_only, ctx, "C16.raii", ["DelayedDestructor.hpp"], floor=10)


def destroy_fn(ctx, cls, nparams=0):
    return [f for f in ctx.fb.functions(rec=cls, name="destroyObjects") if len(f.params) == nparams]


def container_may_be_nonempty(f, var, paired=None):
    """forward may-analysis: at each position, can local container `var` hold elements?
    `paired`: another local container that is pushed in the same blocks; a branch on its empty() then
    also decides `var`"""
    pushes = ("push_back", "emplace_back", "insert", "emplace", "assign", "resize")
    block_in = {f.entry: False}
    before = {}
    work = [f.entry]
    it = 0
    while work and it < 3000:
        it += 1
        b = work.pop(0)
        st_ = block_in[b]
        blk = f.blocks[b]
        for i, e in enumerate(blk.elems):
            before[(b, i)] = st_
            if e["k"] == "S":
                s = f.stmts[e["s"]]
                if s["k"] == "CXXMemberCallExpr" and path(f, f.s(s["obj"])) == var:
                    nm = s["callee"]["name"]
                    if nm in pushes:
                        st_ = True
                    elif nm == "clear":
                        st_ = False
                elif s["k"] == "DeclStmt" and any("l:" + d["name"] == var for d in s["decls"]):
                    st_ = False
                elif s["k"] == "CXXOperatorCallExpr" and s.get("op") == "=" and path(f, f.s(s["args"][0])) == var:
                    st_ = True
        outs = [st_] * len(blk.succs)
        if blk.term and blk.term.get("cond") and len(blk.succs) == 2:
            c = unwrap(f, f.s(blk.term["cond"]))
            neg = False
            while c is not None and c["k"] == "UnaryOperator" and c["op"] == "!":
                neg = not neg
                c = unwrap(f, f.children(c)[0])
            if c is not None and c["k"] == "CXXMemberCallExpr" and c["callee"]["name"] == "empty" and \
                    path(f, f.s(c["obj"])) in (var, paired):
                # true edge: empty() is true (unless negated)
                t_empty = not neg
                outs = [False if t_empty else st_, st_ if t_empty else False]
        for idx, s in enumerate(blk.succs):
            if s is None:
                continue
            new = outs[idx]
            old = block_in.get(s)
            j = new if old is None else (old or new)
            if old is None or j != old:
                block_in[s] = j
                if s not in work:
                    work.append(s)
    return before


def unlocked(ctx, rid="C16.unlocked"):
    ctx.rule(rid, "callbacks and every release point of the keep-alive vector are reached with destructionLock not owned "
             "(or the vector empty); no iterator into the shared vector survives an unlock; destroyObjects(delay) "
             "calls destroyObjects()/sleeps only unlocked", floor=6)
    fb, eng = ctx.fb, ctx.eng
    fs = destroy_fn(ctx, DD, 0)
    if not fs:
        ctx.broken("DelayedDestructor::destroyObjects() not instantiated")
    for f in fs:
        la = eng.locks(f)

        def lock_state(pos):
            for k, v in la.state_at(pos).items():
                if v.mutex == LOCK:
                    return v.st
            return UNOWNED

        # keep-alive vector: the local vector<shared_ptr<X>> that elements are copied into
        keep = None
        for st in f.stmts.values():
            if st["k"] == "DeclStmt":
                for d in st["decls"]:
                    if d["type"].startswith("std::vector<std::shared_ptr<") and d.get("k") == "local" and not d.get("ref"):
                        keep = "l:" + d["name"]
        if keep is None:
            ctx.broken("no local keep-alive vector in destroyObjects()")
        # a container pushed in the same blocks
        paired = None
        kblocks = {f.pos_of(s)[0] for s in f.stmts.values() if s["k"] == "CXXMemberCallExpr" and
                   path(f, f.s(s["obj"])) == keep and s["callee"]["name"] in ("push_back", "emplace_back")}
        cand = {}
        for s in f.stmts.values():
            if s["k"] == "CXXMemberCallExpr" and s["callee"]["name"] in ("push_back", "emplace_back"):
                p = path(f, f.s(s["obj"]))
                if p and p != keep and p.startswith("l:"):
                    cand.setdefault(p, set()).add(f.pos_of(s)[0])
        for p, bl in cand.items():
            if bl == kblocks:
                paired = p
        ne = container_may_be_nonempty(f, keep, paired)
        # callbacks
        cbs = [st for st in f.stmts.values() if st["k"] == "CXXOperatorCallExpr" and st.get("op") == "()" and
               (f.s(st["args"][0]) or {}).get("t", "").replace("const ", "").startswith("std::function<")]
        for c in cbs:
            s_ = lock_state(f.pos_of(c))
            ok = s_ == UNOWNED
            ctx.ob(rid, ok, f.loc(c), "the pre-destruction callback runs with destructionLock released",
                   "" if ok else "lock state here: %s (a callback that calls size()/add deadlocks)" % s_, fn=f.label, inst=f.qname)
        ctx.ob(rid, bool(cbs), f.where, "destroyObjects() invokes the callback copy", "", fn=f.label, inst=f.qname)
        # the callback object itself must be a local copy taken under the lock
        for c in cbs:
            p = path(f, f.s(c["args"][0]))
            ok = p is not None and p.startswith("l:")
            ctx.ob(rid, ok, f.loc(c), "the callback invoked outside the lock is a local copy (not the shared member)",
                   "" if ok else "invokes %s" % p, fn=f.label, inst=f.qname)
        # release points of the keep-alive vector
        n_rel = 0
        for pos in f.positions():
            e = f.elem(pos)
            rel = None
            if e["k"] == "AD" and "l:" + e["var"]["name"] == keep:
                rel = "scope end of %s" % keep[2:]
            elif e["k"] == "S":
                s = f.stmts[e["s"]]
                if s["k"] == "CXXMemberCallExpr" and path(f, f.s(s["obj"])) == keep and \
                        s["callee"]["name"] in ("clear", "pop_back", "erase", "resize", "shrink_to_fit"):
                    rel = "%s.%s()" % (keep[2:], s["callee"]["name"])
            if rel is None:
                continue
            n_rel += 1
            s_ = lock_state(pos)
            maybe_full = ne.get(tuple(pos), True)
            ok = (s_ == UNOWNED) or (not maybe_full)
            site = f.loc(f.elem_stmt(pos)) if f.elem_stmt(pos) else "%s:%s" % (f.where.split(":")[0], e.get("l", "?"))
            ctx.ob(rid, ok, site, "objects kept alive are released (%s) only with destructionLock released" % rel,
                   "" if ok else "lock state %s and the vector may still hold the last references: element destructors run "
                   "under the container lock" % s_, fn=f.label, inst=f.qname)
        ctx.ob(rid, n_rel >= 2, f.where, "release points of the keep-alive vector found", "", fn=f.label, inst=f.qname)
        # iterators into the shared vector do not survive an unlock
        unl = [f.pos_of(s) for s in f.stmts.values() if s["k"] == "CXXMemberCallExpr" and s["callee"]["name"] == "unlock"
               and (f.s(s["obj"]) or {}).get("t", "").startswith("std::unique_lock<")]
        for st in f.stmts.values():
            if st["k"] != "DeclStmt":
                continue
            for d in st["decls"]:
                if not re.search(r"__normal_iterator<", d.get("type", "")) or d["name"].startswith("__"):
                    continue
                init = f.s(d.get("init"))
                if init is None or not any(x["k"] == "MemberExpr" and x["m"]["name"] == "ElementsToBeDestroyed"
                                           for x in f.descendants(init)):
                    continue
                dp = f.pos_of(st)
                for u in f.stmts.values():
                    if u["k"] == "DeclRefExpr" and u["d"]["name"] == d["name"] and u["id"] != st["id"]:
                        up = f.pos_of(u)
                        if up is None or up == dp:
                            continue
                        crossed = any(f.reach_avoiding(dp, x, []) and f.reach_avoiding(x, up, []) for x in unl)
                        ctx.ob(rid, not crossed, f.loc(u), "iterator %s into the shared vector is not used after the lock was released"
                               % d["name"], "" if not crossed else "another thread may have added/removed elements in between: "
                               "the range erased is stale", fn=f.label, inst=f.qname)
    for f in destroy_fn(ctx, DD, 1):
        la = eng.locks(f)
        for st in f.stmts.values():
            if st["k"] == "CXXMemberCallExpr" and st["callee"]["name"] == "destroyObjects" and path(f, f.s(st["obj"])) == "this":
                s_ = [v.st for v in la.state_at(f.pos_of(st)).values() if v.mutex == LOCK]
                ok = all(x == UNOWNED for x in s_)
                ctx.ob(rid, ok, f.loc(st), "destroyObjects(delay) calls destroyObjects() with the lock released",
                       "" if ok else "the timed mutex is not recursive: the inner try_lock_for can never succeed", fn=f.label, inst=f.qname)
            if st["k"] == "CallExpr" and callee_fq(st).startswith("std::this_thread::sleep"):
                s_ = [v.st for v in la.state_at(f.pos_of(st)).values() if v.mutex == LOCK]
                ok = all(x == UNOWNED for x in s_)
                ctx.ob(rid, ok, f.loc(st), "destroyObjects(delay) sleeps with the lock released", "", fn=f.label, inst=f.qname)


def select(ctx, cls):
    rid = "C16.select"
    ctx.rule(rid, "only use_count()==1 elements are kept alive and removed; callbacks precede the clear", floor=3)
    fs = destroy_fn(ctx, cls, 0)
    if not fs:
        ctx.broken("%s::destroyObjects() not instantiated" % cls)
    for f in fs:
        pushes = [s for s in f.stmts.values() if s["k"] == "CXXMemberCallExpr" and s["callee"]["name"] in ("push_back", "emplace_back")
                  and (f.s(s["obj"]) or {}).get("t", "").startswith("std::vector<std::shared_ptr<") and
                  (path(f, f.s(s["obj"])) or "").startswith("l:")]
        ok = bool(pushes)
        for p in pushes:
            b = f.pos_of(p)[0]
            preds = f.blocks[b].preds
            good = False
            if len(preds) == 1:
                pb = f.blocks[preds[0]]
                c = unwrap(f, f.s((pb.term or {}).get("cond")))
                if c is not None and c["k"] == "BinaryOperator" and c["op"] == "==" and pb.succs[0] == b:
                    l, r = [unwrap(f, x) for x in f.children(c)]
                    if l is not None and l["k"] == "CXXMemberCallExpr" and l["callee"]["name"] == "use_count" and \
                            r is not None and r.get("v") == 1:
                        good = True
            ok = ok and good
        ctx.ob(rid, ok, f.where, "an element is kept alive for destruction only if the container holds its last reference "
               "(use_count() == 1)", "" if ok else "selection is not guarded by use_count() == 1", fn=f.label, inst=f.qname)
        rm = [s for s in f.stmts.values() if s["k"] == "CallExpr" and callee_fq(s) == "std::remove_if"]
        ok = len(rm) == 1
        if ok:
            lam = unwrap(f, f.s(rm[0]["args"][2]))
            while lam is not None and lam["k"] in CTORS and len(lam["args"]) == 1:
                lam = unwrap(f, f.s(lam["args"][0]))
            ok = lam is not None and lam["k"] == "LambdaExpr"
            if ok:
                g = None
                for oid in lam["call_ops"]:
                    g = f.unit.fn_by_id.get(oid)
                ok = g is not None and any(s["k"] == "CallExpr" and callee_fq(s) == "std::find" for s in g.stmts.values()) \
                    and any(s["k"] == "CXXMemberCallExpr" and s["callee"]["name"] == "use_count" for s in g.stmts.values())
        ctx.ob(rid, ok, f.where, "the removal predicate tests membership in the collected set (and the expected use_count)",
               "" if ok else "remove_if predicate shape changed", fn=f.label, inst=f.qname)
        cbs = [st for st in f.stmts.values() if st["k"] == "CXXOperatorCallExpr" and st.get("op") == "()" and
               (f.s(st["args"][0]) or {}).get("t", "").replace("const ", "").startswith("std::function<")]
        clears = [s for s in f.stmts.values() if s["k"] == "CXXMemberCallExpr" and s["callee"]["name"] == "clear" and
                  (f.s(s["obj"]) or {}).get("t", "").startswith("std::vector<std::shared_ptr<")]
        ok = bool(cbs) and all(not f.reach_avoiding(f.pos_of(c), f.pos_of(cb), []) for c in clears for cb in cbs)
        ctx.ob(rid, ok, f.where, "callbacks run before the objects are released (no callback is reachable after the clear)",
               "", fn=f.label, inst=f.qname)


def noexcept_rule(ctx, rid="C16.noexcept"):
    ctx.rule(rid, "destroyObjects() is noexcept; everything that can throw is inside try { } catch (...) { } without rethrow", floor=2)
    for cls in (DD, DS):
        for f in destroy_fn(ctx, cls, 0):
            ctx.ob(rid, f.noexcept, f.where, "destroyObjects() is declared noexcept", "", fn=f.label, inst=f.qname)
            tries = [s for s in f.stmts.values() if s["k"] == "CXXTryStmt"]
            ok = len(tries) == 1
            detail = ""
            if ok:
                t = tries[0]
                hs = [f.s(h) for h in t["handlers"]]
                ok = any(h.get("all") for h in hs) and not any(d["k"] == "CXXThrowExpr" for h in hs for d in f.descendants(h))
                detail = "" if ok else "no non-rethrowing catch-all"
                body = f.s(t["try"])
                inside = {d["id"] for d in f.descendants(body)} | {d["id"] for h in hs for d in f.descendants(h)}
                for st in f.stmts.values():
                    if st["id"] in inside:
                        continue
                    if st["k"] in CALLS and not (st.get("callee") or {}).get("noexcept"):
                        ok = False
                        detail = "potentially throwing call outside the try block at %s" % f.loc(st)
                    if st["k"] in CTORS and not st.get("t", "").startswith("std::chrono::") and \
                            not (st.get("callee") or {}).get("noexcept"):
                        ok = False
                        detail = "potentially throwing construction outside the try block at %s" % f.loc(st)
            ctx.ob(rid, ok, f.where, "every potentially throwing operation of destroyObjects() is inside its catch-all try",
                   detail, fn=f.label, inst=f.qname)


def dtor_rule(ctx):
    rid = "C16.dtor"
    ctx.rule(rid, "the destructor's retry loop is bounded by a local counter and then falls through to member destruction", floor=1)
    for cls in (DD, DS):
        for f in ctx.fb.functions(rec=cls):
            if f.kind != "dtor":
                continue
            loops = f.loops()
            ok = len(loops) == 1
            bounded = False
            for h, body in loops:
                for b in body:
                    blk = f.blocks[b]
                    if blk.term and blk.term.get("cond") and any(s is not None and s not in body for s in blk.succs):
                        c = unwrap(f, f.s(blk.term["cond"]))
                        if c is not None and c["k"] == "BinaryOperator" and c["op"] in (">", ">=", "==", "<", "<="):
                            l, r = [unwrap(f, x) for x in f.children(c)]
                            if l is not None and l["k"] == "DeclRefExpr" and l["d"].get("k") == "local" and r is not None and \
                                    r["k"] == "IntegerLiteral":
                                # the counter is incremented in the loop
                                v = l["d"]["name"]
                                inc = any(f.stmts[e["s"]]["k"] == "UnaryOperator" and f.stmts[e["s"]]["op"] == "++" and
                                          path(f, f.children(f.stmts[e["s"]])[0]) == "l:" + v
                                          for bb in body for e in f.blocks[bb].elems if e["k"] == "S")
                                bounded = bounded or inc
            ctx.ob(rid, ok and bounded, f.where, "the destructor retries a bounded number of times", "" if ok and bounded else
                   "no exit bounded by a local counter", fn=f.label, inst=f.qname)
            tries = [s for s in f.stmts.values() if s["k"] == "CXXTryStmt"]
            ok = len(tries) == 1 and any(f.s(h).get("all") for h in tries[0]["handlers"])
            ctx.ob(rid, ok, f.where, "the destructor cannot throw", "", fn=f.label, inst=f.qname)
