"""C16 - DelayedDestructor destroys late, once, and never under its own lock."""
import re

from ..engine import is_lock_carrier, CALLS, CTORS, HELD, MAYBE, UNOWNED, callee_fq, path, unwrap
from ..guards import check_guarded_fields, locks_of
from ..blocking import classify_loops
from .. import common

EXPLANATION = (
    "Decided on every instantiated member of DelayedDestructor (and the order rules on the single-thread class): "
    "[C16.guard] ElementsToBeDestroyed and callBeforeDeleteFunction are only touched with destructionLock held "
    "(destructor exempt: single-threaded by object lifetime), so concurrent add/size/destroy neither lose nor "
    "duplicate an entry; [C16.unlocked] in destroyObjects() every invocation of the callback copy and every point at "
    "which the local keep-alive vector can release objects (clear(), scope end) is reached with the lock NOT owned, or "
    "with the vector provably empty - object destructors and callbacks never run under the container lock, so they "
    "may re-enter; iterators into the shared vector are not used across an unlock; destroyObjects(delay) calls "
    "destroyObjects() and sleeps only with the lock released (no self-deadlock on the non-recursive timed mutex); "
    "[C16.select] only elements with use_count()==1 are copied into the keep-alive vector, the removal predicate tests "
    "membership in that collection, callbacks run before the vector is cleared; [C16.noexcept] destroyObjects() is "
    "noexcept and everything that can throw is inside try/catch(...) without rethrow; [C16.dtor] the destructor's "
    "retry loop is bounded by a local counter. Not decided: exactly-once destruction and 'never while another owner "
    "holds it' beyond shared_ptr's own contract.")
ASSUMPTIONS = ["std::shared_ptr destroys the object when the last owner releases it, exactly once",
               "use_count() == 1 under the container lock means the container holds the only reference (no weak_ptr::lock races)"]

DD = "gmlc::concurrency::DelayedDestructor"
DS = "gmlc::concurrency::DelayedDestructorSingleThread"
LOCK = "this.destructionLock"


def run(ctx):
    ctx.rule("C16.guard", "A3: ElementsToBeDestroyed / callBeforeDeleteFunction only under destructionLock", floor=6)
    ctx.step(check_guarded_fields, ctx, "C16.guard", DD)
    ctx.step(unlocked, ctx)
    ctx.step(select, ctx, DD)
    ctx.step(select, ctx, DS)
    ctx.step(noexcept_rule, ctx)
    ctx.step(dtor_rule, ctx)
    ctx.step(fresh_count, ctx)
    ctx.step(resident, ctx)
    ctx.step(common.no_repeated_moves, ctx, "C16.moves",
             [f for f in ctx.fb.functions() if f.file.endswith("/DelayedDestructor.hpp")], floor=1)
    ctx.step(common.raii_only, ctx, "C16.raii", ["DelayedDestructor.hpp"], floor=10)


def destroy_fn(ctx, cls, nparams=0):
    return [f for f in ctx.fb.functions(rec=cls, name="destroyObjects") if len(f.params) == nparams]


def container_may_be_nonempty(f, var, paired=None, others=()):
    """forward may-analysis: at each position, can local container `var` hold elements?
    `paired`: another local container that is pushed in the same blocks; a branch on its empty() then
    also decides `var`.  `others`: further local containers of the same kind - contents travel between them by
    swap / move / copy."""
    pushes = ("push_back", "emplace_back", "insert", "emplace", "assign", "resize")
    allv = [var] + [o for o in others if o != var]
    before = {}
    work = [f.entry]
    it = 0

    def moved_src(e):
        """(path, moved?) of a container expression used as the source of a construction / assignment"""
        e = unwrap(f, e)
        while e is not None and e["k"] in CTORS and len(e["args"]) == 1:
            e = unwrap(f, f.s(e["args"][0]))
        if e is not None and e["k"] == "CallExpr" and callee_fq(e) in ("std::move",) and e["args"]:
            return path(f, f.s(e["args"][0])), True
        return (path(f, e) if e is not None else None), False

    def transfer(st_, s):
        """effect of statement s on one world (a set of atoms: names of containers that may hold elements, and facts
        'B+<id>' / 'B-<id>' about bool locals that were last assigned a literal)"""
        if s["k"] == "CXXMemberCallExpr" and path(f, f.s(s["obj"])) in allv:
            nm = s["callee"]["name"]
            v = path(f, f.s(s["obj"]))
            if nm in pushes:
                st_.add(v)
            elif nm == "clear":
                st_.discard(v)
            elif nm == "swap" and s["args"]:
                o = path(f, f.s(s["args"][0]))
                a_, b_ = v in st_, o in st_
                (st_.add if b_ else st_.discard)(v)
                if o in allv:
                    (st_.add if a_ else st_.discard)(o)
        elif s["k"] == "CallExpr" and callee_fq(s) == "std::swap" and len(s["args"]) == 2:
            x, y = path(f, f.s(s["args"][0])), path(f, f.s(s["args"][1]))
            if x in allv or y in allv:
                a_, b_ = x in st_, y in st_
                if x in allv:
                    (st_.add if b_ else st_.discard)(x)
                if y in allv:
                    (st_.add if a_ else st_.discard)(y)
        elif s["k"] == "DeclStmt":
            for d in s["decls"]:
                v = "l:" + d["name"]
                if v not in allv:
                    iu = unwrap(f, f.s(d.get("init"))) if d.get("init") else None
                    st_.discard("B+" + d["id"])
                    st_.discard("B-" + d["id"])
                    if iu is not None and iu["k"] == "CXXBoolLiteralExpr":
                        st_.add(("B+" if iu["v"] else "B-") + d["id"])
                    continue
                st_.discard(v)
                if d.get("init"):
                    src, mv = moved_src(f.s(d["init"]))
                    if src in allv and src in st_:
                        st_.add(v)
                        if mv:
                            st_.discard(src)
                    elif src is not None and src not in allv and unwrap(f, f.s(d["init"])) is not None and \
                            (unwrap(f, f.s(d["init"])) or {}).get("args"):
                        st_.add(v)         # built from something else: may hold elements
        elif s["k"] == "CXXOperatorCallExpr" and s.get("op") == "=" and path(f, f.s(s["args"][0])) in allv:
            v = path(f, f.s(s["args"][0]))
            src, mv = moved_src(f.s(s["args"][1]))
            if src in allv:
                (st_.add if src in st_ else st_.discard)(v)
                if mv:
                    st_.discard(src)
            else:
                st_.add(v)
        elif s["k"] == "BinaryOperator" and s.get("op") == "=":
            # a bool local (or the result variable of an inlined helper) given a literal: remembered, so that a later
            # branch on it selects the worlds in which it was set that way
            l, r = f.children(s)
            lu, ru = unwrap(f, l) if l is not None and l["k"] != "DeclRefExpr" else l, unwrap(f, r)
            if lu is not None and lu["k"] == "DeclRefExpr" and lu["d"].get("k") == "local":
                st_.discard("B+" + lu["d"]["id"])
                st_.discard("B-" + lu["d"]["id"])
                if ru is not None and ru["k"] == "CXXBoolLiteralExpr":
                    st_.add(("B+" if ru["v"] else "B-") + lu["d"]["id"])

    def names(worlds):
        out_ = set()
        for w in worlds:
            out_ |= {a for a in w if not a.startswith(("B+", "B-"))}
        return frozenset(out_)

    block_in = {f.entry: frozenset([frozenset()])}
    while work and it < 3000:
        it += 1
        b = work.pop(0)
        worlds = [set(w) for w in block_in[b]]
        blk = f.blocks[b]
        for i, e in enumerate(blk.elems):
            before[(b, i)] = names(worlds)
            if e["k"] == "S":
                s = f.stmts[e["s"]]
                for w in worlds:
                    transfer(w, s)
        allw = frozenset(frozenset(w) for w in worlds)
        outs = [allw] * len(blk.succs)
        if blk.term and blk.term.get("cond") and len(blk.succs) == 2:
            c = f.s(blk.term["cond"])
            neg = False
            cu = unwrap(f, c) if c is not None and c["k"] != "DeclRefExpr" else c
            while cu is not None and cu["k"] == "UnaryOperator" and cu["op"] == "!":
                neg = not neg
                c = f.children(cu)[0]
                cu = unwrap(f, c) if c is not None and c["k"] != "DeclRefExpr" else c
            # (unwrap looks through the result variable of an inlined helper with a single return; keep the variable)
            cv_ = c
            while cv_ is not None and cv_["k"] in ("ImplicitCastExpr", "ParenExpr", "ExprWithCleanups"):
                ch_ = f.children(cv_)
                cv_ = ch_[0] if ch_ else None
            if cu is not None and cu["k"] == "CXXMemberCallExpr" and cu["callee"]["name"] == "empty":
                cp_ = path(f, f.s(cu["obj"]))
                pset = paired if isinstance(paired, (set, frozenset, list, tuple)) else ([paired] if paired else [])
                tested = [cp_] if cp_ in allv else ([var] if cp_ in pset else [])
                if tested:
                    emp = frozenset(frozenset(x for x in w if x not in tested) for w in allw)
                    t_empty = not neg
                    outs = [emp if t_empty else allw, allw if t_empty else emp]
            elif cv_ is not None and cv_["k"] == "DeclRefExpr" and cv_["d"].get("k") == "local":
                did = cv_["d"]["id"]
                t_w = frozenset(w for w in allw if ("B-" + did) not in w)
                f_w = frozenset(w for w in allw if ("B+" + did) not in w)
                outs = [f_w, t_w] if neg else [t_w, f_w]
        for idx, s in enumerate(blk.succs):
            if s is None:
                continue
            new_ = outs[idx]
            if not new_:
                continue        # no world takes this edge
            old = block_in.get(s)
            j_ = new_ if old is None else (old | new_)
            if len(j_) > 96:
                j_ = frozenset([names(j_)])      # too many combinations: forget the bool facts
            if old is None or j_ != old:
                block_in[s] = j_
                if s not in work:
                    work.append(s)
    # per position: may `var` be non-empty (bool, as before); the full sets are available as .sets
    res = _NE({k: (var in v) for k, v in before.items()})
    res.sets = before
    return res


class _NE(dict):
    pass


def unlocked(ctx, rid="C16.unlocked"):
    ctx.rule(rid, "callbacks and every release point of the keep-alive vector are reached with destructionLock not owned "
             "(or the vector empty); no iterator into the shared vector survives an unlock; destroyObjects(delay) "
             "calls destroyObjects()/sleeps only unlocked", floor=6)
    fb, eng = ctx.fb, ctx.eng
    fs = destroy_fn(ctx, DD, 0)
    if not fs:
        ctx.broken("DelayedDestructor::destroyObjects() not instantiated")
    for f in fs:
        la = eng.locks(f)

        def lock_state(pos):
            for k, v in la.state_at(pos).items():
                if v.mutex == LOCK:
                    return v.st
            return UNOWNED

        # keep-alive vector: the local vector<shared_ptr<X>> that elements are copied into
        keep = None
        keeps = []
        for st in f.stmts.values():
            if st["k"] == "DeclStmt":
                for d in st["decls"]:
                    if d["type"].startswith("std::vector<std::shared_ptr<") and d.get("k") == "local" and not d.get("ref"):
                        keeps.append("l:" + d["name"])
        # the one elements are copied into
        for k_ in keeps:
            if any(s_["k"] == "CXXMemberCallExpr" and path(f, f.s(s_["obj"])) == k_ and s_["callee"]["name"] in ("push_back", "emplace_back")
                   for s_ in f.stmts.values()):
                keep = k_
        if keep is None and keeps:
            keep = keeps[-1]
        if keep is None:
            ctx.broken("no local keep-alive vector in destroyObjects()")
        # a container pushed in the same blocks
        paired = None
        kblocks = {f.pos_of(s)[0] for s in f.stmts.values() if s["k"] == "CXXMemberCallExpr" and
                   path(f, f.s(s["obj"])) == keep and s["callee"]["name"] in ("push_back", "emplace_back")}
        cand = {}
        for s in f.stmts.values():
            if s["k"] == "CXXMemberCallExpr" and s["callee"]["name"] in ("push_back", "emplace_back"):
                p = path(f, f.s(s["obj"]))
                if p and p != keep and p.startswith("l:"):
                    cand.setdefault(p, set()).add(f.pos_of(s)[0])
        paired = [p for p, bl in cand.items() if bl == kblocks] or None      # every container filled in step with it
        ne = container_may_be_nonempty(f, keep, paired, others=keeps)
        # callbacks
        cbs = [st for st in f.stmts.values() if st["k"] == "CXXOperatorCallExpr" and st.get("op") == "()" and
               (f.s(st["args"][0]) or {}).get("t", "").replace("const ", "").startswith("std::function<")]
        for c in cbs:
            s_ = lock_state(f.pos_of(c))
            ok = s_ == UNOWNED
            ctx.ob(rid, ok, f.loc(c), "the pre-destruction callback runs with destructionLock released",
                   "" if ok else "lock state here: %s (a callback that calls size()/add deadlocks)" % s_, fn=f.label, inst=f.qname)
        ctx.ob(rid, bool(cbs), f.where, "destroyObjects() invokes the callback copy", "", fn=f.label, inst=f.qname)
        # the callback object itself must be a local copy taken under the lock
        for c in cbs:
            p = path(f, f.s(c["args"][0]))
            ok = p is not None and p.startswith("l:")
            if not ok and p and p.startswith("this."):
                from ..guards import written_after_construction
                w = written_after_construction(ctx.fb, ctx.eng, f.rec, p[5:])
                ok = not w
                p = "%s, which is written at %s" % (p, w[0]) if w else p
            ctx.ob(rid, ok, f.loc(c), "the callback invoked outside the lock is a local copy, or a member nobody writes after "
                   "construction", "" if ok else "invokes %s" % p, fn=f.label, inst=f.qname)
        # release points of the keep-alive vector
        n_rel = 0
        for pos in f.positions():
            e = f.elem(pos)
            rel = None
            which = None
            if e["k"] == "AD" and "l:" + e["var"]["name"] in keeps:
                which = "l:" + e["var"]["name"]
                rel = "scope end of %s" % which[2:]
            elif e["k"] == "S":
                s = f.stmts[e["s"]]
                if s["k"] == "CXXMemberCallExpr" and path(f, f.s(s["obj"])) in keeps and \
                        s["callee"]["name"] in ("clear", "pop_back", "erase", "resize", "shrink_to_fit"):
                    which = path(f, f.s(s["obj"]))
                    rel = "%s.%s()" % (which[2:], s["callee"]["name"])
            if rel is None:
                continue
            n_rel += 1
            s_ = lock_state(pos)
            maybe_full = which in ne.sets.get(tuple(pos), frozenset(keeps))
            ok = (s_ == UNOWNED) or (not maybe_full)
            site = f.loc(f.elem_stmt(pos)) if f.elem_stmt(pos) else "%s:%s" % (f.where.split(":")[0], e.get("l", "?"))
            ctx.ob(rid, ok, site, "objects kept alive are released (%s) only with destructionLock released" % rel,
                   "" if ok else "lock state %s and the vector may still hold the last references: element destructors run "
                   "under the container lock" % s_, fn=f.label, inst=f.qname)
        ctx.ob(rid, n_rel >= 2, f.where, "release points of the keep-alive vector found", "", fn=f.label, inst=f.qname)
        # unwinding: when a callback throws, the locals alive at the call die in reverse order of declaration.  A guard
        # object declared AFTER the keep-alive vector whose destructor takes the lock again therefore re-locks BEFORE the
        # vector releases the last references: the element destructors run under the container lock.
        decl_pos = {}
        for st in f.stmts.values():
            if st["k"] == "DeclStmt" and f.pos_of(st):
                for d in st["decls"]:
                    decl_pos["l:" + d["name"]] = (tuple(f.pos_of(st)), d)
        relockers = {}      # local -> site of a lock acquisition performed by its (inlined) destructor
        for st in f.stmts.values():
            if st["k"] == "CXXMemberCallExpr" and st["callee"]["name"] in ("lock", "try_lock", "try_lock_for", "try_lock_until"):
                o = f.s(st["obj"])
                base = unwrap(f, f.s(o.get("base"))) if o is not None and o["k"] == "MemberExpr" and o.get("base") else None
                if base is not None and base["k"] == "DeclRefExpr" and base["d"].get("inl_this") and "dtor_" in base["d"].get("name", ""):
                    # whose destructor: the object the inlined `this` is bound to
                    from ..engine import _ref_target
                    tgt = _ref_target(f, base["d"]["id"])
                    op_ = path(f, tgt) if tgt is not None else None
                    key = la.key_of_expr(o)
                    v = la.state_at(f.pos_of(st)).get(key) if f.pos_of(st) else None
                    if op_ and op_.startswith("&l:") and (v is None or v.mutex == LOCK or v.mutex is None):
                        if common.runs_only_when_not_unwinding(f, st):
                            continue        # the guard stays unlocked when its scope is left by an exception
                        relockers[op_[1:]] = st
        for c in cbs:
            cp = f.pos_of(c)
            if cp is None:
                continue
            for var, site in relockers.items():
                if var not in decl_pos:
                    continue
                vpos = decl_pos[var][0]
                bad = None
                for k_ in keeps:
                    if k_ not in decl_pos:
                        continue
                    kpos = decl_pos[k_][0]
                    alive = f.dominates(vpos, cp) and f.dominates(kpos, cp) and k_ in ne.sets.get(tuple(cp), frozenset(keeps))
                    later = f.dominates(kpos, vpos) and kpos != vpos
                    if alive and later:
                        bad = k_
                ctx.ob(rid, bad is None, f.loc(site), "if the callback throws, the kept-alive objects are not destroyed under the lock",
                       "" if bad is None else "%s (declared after %s) re-acquires destructionLock in its destructor: on unwinding it runs "
                       "first, so %s then drops the last references - and runs the element destructors - with the lock held"
                       % (var[2:], bad[2:], bad[2:]), fn=f.label, inst=f.qname)
        # iterators into the shared vector do not survive an unlock
        unl = [f.pos_of(s) for s in f.stmts.values() if s["k"] == "CXXMemberCallExpr" and s["callee"]["name"] == "unlock"
               and (f.s(s["obj"]) or {}).get("t", "").startswith("std::unique_lock<")]
        for st in f.stmts.values():
            if st["k"] != "DeclStmt":
                continue
            for d in st["decls"]:
                if not re.search(r"__normal_iterator<", d.get("type", "")) or d["name"].startswith("__"):
                    continue
                init = f.s(d.get("init"))
                if init is None or not any(x["k"] == "MemberExpr" and x["m"]["name"] == "ElementsToBeDestroyed"
                                           for x in f.descendants(init)):
                    continue
                dp = f.pos_of(st)
                for u in f.stmts.values():
                    if u["k"] == "DeclRefExpr" and u["d"]["name"] == d["name"] and u["id"] != st["id"]:
                        up = f.pos_of(u)
                        if up is None or up == dp:
                            continue
                        crossed = any(f.reach_avoiding(dp, x, []) and f.reach_avoiding(x, up, []) for x in unl)
                        ctx.ob(rid, not crossed, f.loc(u), "iterator %s into the shared vector is not used after the lock was released"
                               % d["name"], "" if not crossed else "another thread may have added/removed elements in between: "
                               "the range erased is stale", fn=f.label, inst=f.qname)
    for f in destroy_fn(ctx, DD, 1):
        la = eng.locks(f)
        for st in f.stmts.values():
            if st["k"] == "CXXMemberCallExpr" and st["callee"]["name"] == "destroyObjects" and path(f, f.s(st["obj"])) == "this":
                s_ = [v.st for v in la.state_at(f.pos_of(st)).values() if v.mutex == LOCK]
                ok = all(x == UNOWNED for x in s_)
                ctx.ob(rid, ok, f.loc(st), "destroyObjects(delay) calls destroyObjects() with the lock released",
                       "" if ok else "the timed mutex is not recursive: the inner try_lock_for can never succeed", fn=f.label, inst=f.qname)
            if st["k"] == "CallExpr" and callee_fq(st).startswith("std::this_thread::sleep"):
                s_ = [v.st for v in la.state_at(f.pos_of(st)).values() if v.mutex == LOCK]
                ok = all(x == UNOWNED for x in s_)
                ctx.ob(rid, ok, f.loc(st), "destroyObjects(delay) sleeps with the lock released", "", fn=f.label, inst=f.qname)


def select(ctx, cls):
    rid = "C16.select"
    ctx.rule(rid, "only use_count()==1 elements are kept alive and removed; callbacks precede the clear", floor=3)
    fs = destroy_fn(ctx, cls, 0)
    if not fs:
        ctx.broken("%s::destroyObjects() not instantiated" % cls)
    for f in fs:
        pushes = [s for s in f.stmts.values() if s["k"] == "CXXMemberCallExpr" and s["callee"]["name"] in ("push_back", "emplace_back")
                  and (f.s(s["obj"]) or {}).get("t", "").startswith("std::vector<std::shared_ptr<") and
                  (path(f, f.s(s["obj"])) or "").startswith("l:")]
        # callbacks (and with them arbitrary re-entrant calls: add, destroyObjects) never run over a range of the MEMBER
        # vector: an insertion from inside the callback invalidates the iterators the loop is standing on
        FIELD = "ElementsToBeDestroyed"
        def from_member(e, depth=0):
            e = unwrap(f, e)
            if e is None or depth > 3:
                return False
            if any(d["k"] == "MemberExpr" and d["m"].get("is_field") and d["m"]["name"] == FIELD for d in [e] + list(f.descendants(e))):
                return True
            if e["k"] == "DeclRefExpr" and e["d"].get("k") == "local":
                return any(from_member(f.s(d.get("init")), depth + 1) for s_ in f.stmts.values() if s_["k"] == "DeclStmt"
                           for d in s_["decls"] if d["id"] == e["d"].get("id") and d.get("init"))
            return False
        for s in f.stmts.values():
            if s["k"] == "CallExpr" and callee_fq(s) in ("std::for_each", "std::for_each_n") and len(s["args"]) >= 3 and \
                    "std::function<" in (f.s(s["args"][-1]) or {}).get("t", "") + ((unwrap(f, f.s(s["args"][-1])) or {}).get("t", "")):
                bad_rng = from_member(f.s(s["args"][0])) or from_member(f.s(s["args"][1]))
                ctx.ob(rid, not bad_rng, f.loc(s), "the pre-destruction callback is applied to a local collection, not to a range of the "
                       "member vector", "" if not bad_rng else "the callback runs while the loop iterates over %s itself: a callback that "
                       "adds an object (or reaps again) reallocates the vector under the loop" % FIELD, fn=f.label, inst=f.qname)
        if not pushes:
            # selection by an algorithm over the member (partition / remove_if with a predicate on use_count) and a local vector
            # filled from the selected range: not the loop this clause reads
            # (std::remove_if is NOT such an algorithm: it keeps the prefix and leaves the tail moved-from - the "removed"
            # objects are destroyed inside it, under the lock and without their callback)
            algs = [s for s in f.stmts.values() if s["k"] == "CallExpr" and callee_fq(s) in ("std::stable_partition", "std::partition")
                    and s["args"] and from_member(f.s(s["args"][0]))]
            uses = False
            for a_ in algs:
                lam = unwrap(f, f.s(a_["args"][-1]))
                while lam is not None and lam["k"] in CTORS and len(lam["args"]) == 1:
                    lam = unwrap(f, f.s(lam["args"][0]))
                for oid in (lam or {}).get("call_ops", []) if lam is not None and lam["k"] == "LambdaExpr" else []:
                    g = f.unit.fn_by_id.get(oid)
                    if g is not None and any(x["k"] == "CXXMemberCallExpr" and x["callee"]["name"] == "use_count" for x in g.stmts.values()):
                        uses = True
            keepers = [d for s_ in f.stmts.values() if s_["k"] == "DeclStmt" for d in s_["decls"]
                       if d.get("type", "").startswith("std::vector<std::shared_ptr<") and not d.get("ref") and d.get("init") and
                       from_member(f.s(d["init"]))]
            if algs and uses and keepers:
                ctx.unknown("%s: %s selects the objects to reap with %s over the member vector and moves the selected range into a "
                            "local; the shape of that selection is not decided by this clause" % (rid, f.label, callee_fq(algs[0])))
                continue
        ok = bool(pushes)
        for p in pushes:
            b = f.pos_of(p)[0]
            preds = f.blocks[b].preds
            good = False
            if len(preds) == 1:
                pb = f.blocks[preds[0]]
                c = unwrap(f, f.s((pb.term or {}).get("cond")))
                if c is not None and c["k"] == "BinaryOperator" and c["op"] == "==" and pb.succs[0] == b:
                    l, r = [unwrap(f, x) for x in f.children(c)]
                    if l is not None and l["k"] == "CXXMemberCallExpr" and l["callee"]["name"] == "use_count" and \
                            r is not None and r.get("v") == 1:
                        good = True
            ok = ok and good
        ctx.ob(rid, ok, f.where, "an element is kept alive for destruction only if the container holds its last reference "
               "(use_count() == 1)", "" if ok else "selection is not guarded by use_count() == 1", fn=f.label, inst=f.qname)
        rm = [s for s in f.stmts.values() if s["k"] == "CallExpr" and callee_fq(s) == "std::remove_if"]
        ok = len(rm) == 1
        if not rm:
            # the removal is no longer a remove_if with a predicate (a hand-written compaction, ...): the membership test is
            # looked for in the function itself; where it is, is not judged by this clause
            body_ok = (any(s["k"] == "CallExpr" and callee_fq(s) == "std::find" for s in f.stmts.values()) and
                       sum(1 for s in f.stmts.values() if s["k"] == "CXXMemberCallExpr" and s["callee"]["name"] == "use_count") >= 2) or \
                (bool(pushes) and all(any(d["k"] == "CallExpr" and callee_fq(d) == "std::move" for d in f.descendants(p)) for p in pushes) and
                 any(s["k"] == "CXXMemberCallExpr" and s["callee"]["name"] == "erase" for s in f.stmts.values()))
            # (second form: the selected elements are MOVED into the keep-alive vector in the selecting pass itself and the
            # emptied tail is erased - a compaction written by hand)
            if body_ok:
                ctx.unknown("%s: %s removes the collected elements without std::remove_if; the shape of its selection is not "
                            "decided by this clause" % (rid, f.label))
                continue
        if ok:
            lam = unwrap(f, f.s(rm[0]["args"][2]))
            while lam is not None and lam["k"] in CTORS and len(lam["args"]) == 1:
                lam = unwrap(f, f.s(lam["args"][0]))
            ok = lam is not None and lam["k"] == "LambdaExpr"
            if ok:
                g = None
                for oid in lam["call_ops"]:
                    g = f.unit.fn_by_id.get(oid)
                ok = g is not None and any(s["k"] == "CallExpr" and callee_fq(s) == "std::find" for s in g.stmts.values()) \
                    and any(s["k"] == "CXXMemberCallExpr" and s["callee"]["name"] == "use_count" for s in g.stmts.values())
        ctx.ob(rid, ok, f.where, "the removal predicate tests membership in the collected set (and the expected use_count)",
               "" if ok else "remove_if predicate shape changed", fn=f.label, inst=f.qname)
        cbs = [st for st in f.stmts.values() if st["k"] == "CXXOperatorCallExpr" and st.get("op") == "()" and
               (f.s(st["args"][0]) or {}).get("t", "").replace("const ", "").startswith("std::function<")]
        clears = [s for s in f.stmts.values() if s["k"] == "CXXMemberCallExpr" and s["callee"]["name"] == "clear" and
                  (f.s(s["obj"]) or {}).get("t", "").startswith("std::vector<std::shared_ptr<")]
        ok = bool(cbs) and all(not f.reach_avoiding(f.pos_of(c), f.pos_of(cb), []) for c in clears for cb in cbs)
        ctx.ob(rid, ok, f.where, "callbacks run before the objects are released (no callback is reachable after the clear)",
               "", fn=f.label, inst=f.qname)


def resident(ctx, rid="C16.resident"):
    """an object that still has other owners stays IN the container for as long as the container is unlocked: size(),
    a concurrent destroyObjects() and the destructor's drain loop decide by what they find there.  A member function
    that takes the whole list out (swap with a local, std::move, clear, assignment) must have put back what is not
    reaped before it lets go of destructionLock - otherwise concurrent callers see an empty container while objects are
    pending (and the destructor can finish without them)."""
    ctx.rule(rid, "the pending list is never taken out of the container as a whole across an unlocked phase", floor=0)
    fb, eng = ctx.fb, ctx.eng
    FIELD = "this.ElementsToBeDestroyed"
    n = 0
    for f in fb.functions(rec=DD):
        if f.kind in ("ctor", "dtor"):
            continue
        la = eng.locks(f)

        def lock_state(pos):
            for k, v in la.state_at(pos).items():
                if v.mutex == LOCK:
                    return v.st
            return UNOWNED
        outs, backs = [], []
        for st in f.stmts.values():
            pos = f.pos_of(st)
            if pos is None:
                continue
            if st["k"] == "CXXMemberCallExpr":
                nm = (st.get("callee") or {}).get("name")
                op_ = path(f, f.s(st.get("obj")))
                args = [path(f, f.s(a)) for a in st["args"]]
                if nm == "swap" and (op_ == FIELD or FIELD in args):
                    outs.append((st, "swapped with %s" % (args[0] if op_ == FIELD else op_)))
                    backs.append(tuple(pos))
                elif op_ == FIELD and nm == "clear":
                    outs.append((st, "cleared"))
                elif op_ == FIELD and nm in ("insert", "push_back", "emplace_back", "assign", "emplace"):
                    backs.append(tuple(pos))
            elif st["k"] == "CallExpr" and callee_fq(st) in ("std::swap", "std::exchange") and \
                    any(path(f, f.s(a)) == FIELD for a in st["args"]):
                outs.append((st, callee_fq(st)))
                backs.append(tuple(pos))
            elif st["k"] == "CallExpr" and callee_fq(st) == "std::move" and st["args"] and path(f, f.s(st["args"][0])) == FIELD and \
                    (f.s(st["args"][0]) or {}).get("t", "").startswith("std::vector<"):
                outs.append((st, "moved from"))
            elif st["k"] == "CXXOperatorCallExpr" and st.get("op") == "=" and len(st["args"]) == 2 and \
                    path(f, f.s(st["args"][0])) == FIELD:
                backs.append(tuple(pos))
        for st, how in outs:
            n += 1
            p0 = tuple(f.pos_of(st))
            others = [b for b in backs if b != p0]
            bad = None
            if f.exits_avoiding(p0, others):
                bad = "the function can return without putting the list back"
            for q in f.positions():
                q = tuple(q)
                if q != p0 and lock_state(q) != HELD and f.reach_avoiding(p0, q, others):
                    e = f.elem(q)
                    if e["k"] == "S":
                        bad = "destructionLock is not held at %s while the list is still out of the container" % f.loc(f.stmts[e["s"]])
                        break
            ctx.ob(rid, bad is None, f.loc(st), "%s: ElementsToBeDestroyed is %s and restored within the same critical section"
                   % (f.name, how), "" if bad is None else bad + ": size(), a concurrent destroyObjects() and the destructor's "
                   "drain loop see an empty container although objects are still pending", fn=f.label, inst=f.qname)
    if n == 0:
        ctx.ob(rid, True, "gmlc/concurrency/DelayedDestructor.hpp", "no member function takes the pending list out as a whole")


def noexcept_rule(ctx, rid="C16.noexcept"):
    ctx.rule(rid, "destroyObjects() is noexcept; everything that can throw is inside try { } catch (...) { } without rethrow", floor=2)
    for cls in (DD, DS):
        for f in destroy_fn(ctx, cls, 0):
            ctx.ob(rid, f.noexcept, f.where, "destroyObjects() is declared noexcept", "", fn=f.label, inst=f.qname)
            # the function's own (outermost) try statement; try blocks nested in it (e.g. inside an inlined guard
            # destructor) are part of its body
            tries = [s for s in f.stmts.values() if s["k"] == "CXXTryStmt" and not any(a["k"] == "CXXTryStmt" for a in f.ancestors(s))]
            ok = len(tries) == 1
            detail = "" if ok else "%d top-level try statements" % len(tries)
            if ok:
                t = tries[0]
                hs = [f.s(h) for h in t["handlers"]]
                ok = any(h.get("all") for h in hs) and not any(d["k"] == "CXXThrowExpr" for h in hs for d in f.descendants(h))
                detail = "" if ok else "no non-rethrowing catch-all"
                body = f.s(t["try"])
                inside = {d["id"] for d in f.descendants(body)} | {d["id"] for h in hs for d in f.descendants(h)}
                for st in f.stmts.values():
                    if st["id"] in inside:
                        continue
                    if st["k"] in CALLS and not (st.get("callee") or {}).get("noexcept"):
                        ok = False
                        detail = "potentially throwing call outside the try block at %s" % f.loc(st)
                    if st["k"] in CTORS and not st.get("t", "").startswith("std::chrono::") and \
                            not (st.get("callee") or {}).get("noexcept"):
                        ok = False
                        detail = "potentially throwing construction outside the try block at %s" % f.loc(st)
            ctx.ob(rid, ok, f.where, "every potentially throwing operation of destroyObjects() is inside its catch-all try",
                   detail, fn=f.label, inst=f.qname)


def fresh_count(ctx, rid="C16.count"):
    """what destroyObjects() reports is what is waiting when it returns: the callbacks and the destructors it ran with the
    lock released may have handed over further objects, so a size read BEFORE that unlocked phase may only be returned
    where the attempt to take the lock again has failed (the caller - the destructor's drain loop above all - otherwise
    stops while objects are still pending)"""
    ctx.rule(rid, "destroyObjects() does not return a count taken before its unlocked phase without trying to re-lock", floor=1)
    n = 0
    # the clause matters where somebody ACTS on the count: a member of the class whose control flow depends on what
    # destroyObjects() returned (a loop that drains until it reports zero)
    relied = None
    for g in ctx.fb.functions(rec=DD):
        for c in g.stmts.values():
            if c["k"] == "CXXMemberCallExpr" and (c.get("callee") or {}).get("name") == "destroyObjects" and not c.get("args") and \
                    path(g, g.s(c.get("obj"))) in ("this", "*this"):
                for b in g.blocks.values():
                    if b.term and b.term.get("cond") and any(x["id"] == c["id"] for x in g.descendants(g.s(b.term["cond"]))):
                        relied = (g, c)
    for f in ctx.fb.functions(rec=DD, name="destroyObjects"):
        if f.params:
            continue
        n += 1
        if relied is None:
            ctx.ob(rid, True, f.where, "no member of the class steers by the count destroyObjects() returns", "", fn=f.label, inst=f.qname)
            continue
        sized = {}      # local -> positions where it is assigned from ElementsToBeDestroyed.size()
        for st in f.stmts.values():
            tgt = src = None
            if st["k"] == "BinaryOperator" and st.get("op") == "=":
                tgt, src = f.children(st)
            elif st["k"] == "DeclStmt":
                for d in st["decls"]:
                    if d.get("init"):
                        e = f.s(d["init"])
                        if any(x["k"] == "CXXMemberCallExpr" and (x.get("callee") or {}).get("name") == "size" and
                               path(f, f.s(x.get("obj"))) == "this.ElementsToBeDestroyed" for x in f.descendants(e)) and f.pos_of(st):
                            sized.setdefault("l:" + d["name"], []).append(tuple(f.pos_of(st)))
                continue
            if tgt is None:
                continue
            tp = path(f, tgt)
            if tp and tp.startswith("l:") and f.pos_of(st) and any(
                    x["k"] == "CXXMemberCallExpr" and (x.get("callee") or {}).get("name") == "size" and
                    path(f, f.s(x.get("obj"))) == "this.ElementsToBeDestroyed" for x in f.descendants(src)):
                sized.setdefault(tp, []).append(tuple(f.pos_of(st)))
        unlocks = [tuple(f.pos_of(st)) for st in f.stmts.values() if st["k"] == "CXXMemberCallExpr" and f.pos_of(st) and
                   (st.get("callee") or {}).get("name") == "unlock" and is_lock_carrier((f.s(st.get("obj")) or {}).get("t", ""))]
        relocks = [tuple(f.pos_of(st)) for st in f.stmts.values() if st["k"] == "CXXMemberCallExpr" and f.pos_of(st) and
                   (st.get("callee") or {}).get("name") in ("lock", "try_lock", "try_lock_for", "try_lock_until") and
                   is_lock_carrier((f.s(st.get("obj")) or {}).get("t", ""))]
        for r in [s for s in f.stmts.values() if s["k"] == "ReturnStmt" and f.children(s)]:
            rp = f.pos_of(r)
            v = path(f, f.children(r)[0])
            if rp is None or v not in sized:
                continue
            stale = None
            for a in sized[v]:
                for u in unlocks:
                    if f.reach_avoiding(a, u, [x for x in sized[v] if x != a]) and f.reach_avoiding(u, tuple(rp), relocks + [x for x in sized[v]]):
                        stale = (a, u)
            ctx.ob(rid, stale is None, f.loc(r), "the count returned here was read after the last unlocked phase (or the re-lock failed)",
                   "" if stale is None else "%s was read from ElementsToBeDestroyed.size() before the lock was released for the callbacks and "
                   "is returned without an attempt to take the lock again: objects handed over meanwhile are not counted" % v[2:],
                   fn=f.label, inst=f.qname)
    if n == 0:
        ctx.broken("DelayedDestructor::destroyObjects() not found (anchor vanished)")


def dtor_rule(ctx):
    rid = "C16.dtor"
    ctx.rule(rid, "the destructor's retry loop is bounded by a local counter and then falls through to member destruction", floor=1)
    for cls in (DD, DS):
        for f in ctx.fb.functions(rec=cls):
            if f.kind != "dtor":
                continue
            loops = f.loops()
            ok = len(loops) == 1
            bounded = False
            for h, body in loops:
                for b in body:
                    blk = f.blocks[b]
                    if blk.term and blk.term.get("cond") and any(s is not None and s not in body for s in blk.succs):
                        c = unwrap(f, f.s(blk.term["cond"]))
                        if c is not None and c["k"] == "BinaryOperator" and c["op"] in (">", ">=", "==", "<", "<="):
                            l, r = [unwrap(f, x) for x in f.children(c)]
                            if l is not None and l["k"] == "DeclRefExpr" and l["d"].get("k") == "local" and r is not None and \
                                    r["k"] == "IntegerLiteral":
                                # the counter is incremented in the loop
                                v = l["d"]["name"]
                                inc = any(f.stmts[e["s"]]["k"] == "UnaryOperator" and f.stmts[e["s"]]["op"] == "++" and
                                          path(f, f.children(f.stmts[e["s"]])[0]) == "l:" + v
                                          for bb in body for e in f.blocks[bb].elems if e["k"] == "S")
                                bounded = bounded or inc
            ctx.ob(rid, ok and bounded, f.where, "the destructor retries a bounded number of times", "" if ok and bounded else
                   "no exit bounded by a local counter", fn=f.label, inst=f.qname)
            tries = [s for s in f.stmts.values() if s["k"] == "CXXTryStmt"]
            ok = len(tries) == 1 and any(f.s(h).get("all") for h in tries[0]["handlers"])
            ctx.ob(rid, ok, f.where, "the destructor cannot throw", "", fn=f.label, inst=f.qname)
