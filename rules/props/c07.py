"""C07 - no data races: every granted access happens-after conflicting earlier ones."""
import json
import os

from ..guards import check_guarded_fields, load_table
from ..runner import REPO
from . import c05, c12, c19
from .. import common

EXPLANATION = (
    "Three structural parts are decided; the full C++11 race-freedom statement is not. [C07.lockset] a static "
    "Eraser: for every SHARED class of the headers in scope and every non-atomic field, every access outside "
    "constructors/destructors happens with the field's guard held in a sufficient mode (shared for reads, exclusive for "
    "writes), computed by the lock-state dataflow on every instantiated method, lambdas included - mutex acquire/release "
    "edges then order all conflicting accesses; [C07.orders] every atomic operation of the lock-free protocols meets "
    "the minimum memory order its correctness argument needs (tables/atomics.json gives the synchronises-with pair per "
    "row): left-right flags/counters seq_cst (Dekker), reader departure >= release, RCU log CAS >= acq_rel, owner "
    "release/acquire, list link stores >= release with reader loads >= acquire, latch decrement >= release with "
    "fast-path load >= acquire, trigger flags release/acquire, trip line release/acquire; writer-side loads made under "
    "the writer mutex and the deferred pending flag have floor relaxed ON PURPOSE, so a behaviour-preserving relaxation "
    "is not reported; [C07.publish] a new list node is constructed and linked before the store that publishes it and a "
    "log record is complete before its CAS; thorough tier: [C07.ir] the extractor's evaluation of orders (default "
    "arguments, operator forms) is cross-checked against clang's own -O0 LLVM IR. Not decided: absence of data races in "
    "the memory-model sense for the lock-free parts (needs an RC11 model checker - a different family).")
ASSUMPTIONS = ["the standard mutexes, shared_ptr control blocks and condition variables are themselves race-free",
               "user payload types are only touched through the library"]


def run(ctx):
    tab = load_table("guards.json")["classes"]
    ctx.rule("C07.lockset", "static Eraser: every access to a non-atomic shared field happens with its guard held in a "
             "sufficient mode, on every instantiated method", floor=150)
    for cls in sorted(tab):
        ctx.step(check_guarded_fields, ctx, "C07.lockset", cls, skip_atomic=True)
    atab = json.load(open(os.path.join(os.path.dirname(os.path.dirname(os.path.dirname(os.path.abspath(__file__)))),
                                       "tables", "atomics.json")))
    ctx.step(common.atomic_floors, ctx, "C07.orders", sorted(atab["fields"]), floor=80)
    ctx.step(c19.orders, ctx, "C07.tripline")
    ctx.step(c12.publish, ctx, "C07.publish")
    ctx.step(c05.register, ctx, "C07.publish-log")
    ctx.step(common.rcu_writer_guard, ctx, "C07.rcu-writers")
    if ctx.tier == "thorough":
        from ..ircheck import cross_check
        ctx.step(cross_check, ctx, "C07.ir", REPO, (0, 1, 2, 3))
