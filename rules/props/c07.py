"""C07 - no data races: every granted access happens-after conflicting earlier ones."""
import json
import os

from ..guards import check_guarded_fields, load_table
from ..runner import REPO
from . import c05, c12, c19
from .. import common

EXPLANATION = (
    "Three structural parts are decided; the full C++11 race-freedom statement is not. [C07.lockset] a static "
    "Eraser: for every SHARED class of the headers in scope and every non-atomic field, every access outside "
    "constructors/destructors happens with the field's guard held in a sufficient mode (shared for reads, exclusive for "
    "writes), computed by the lock-state dataflow on every instantiated method, lambdas included - mutex acquire/release "
    "edges then order all conflicting accesses; [C07.orders] every atomic operation of the lock-free protocols meets "
    "the minimum memory order its correctness argument needs (tables/atomics.json gives the synchronises-with pair per "
    "row): left-right flags/counters seq_cst (Dekker), reader departure >= release, RCU log CAS >= acq_rel, owner "
    "release/acquire, list link stores >= release with reader loads >= acquire, latch decrement >= release with "
    "fast-path load >= acquire, trigger flags release/acquire, trip line release/acquire; writer-side loads made under "
    "the writer mutex and the deferred pending flag have floor relaxed ON PURPOSE, so a behaviour-preserving relaxation "
    "is not reported; [C07.publish] a new list node is constructed and linked before the store that publishes it and a "
    "log record is complete before its CAS; thorough tier: [C07.ir] the extractor's evaluation of orders (default "
    "arguments, operator forms) is cross-checked against clang's own -O0 LLVM IR. Not decided: absence of data races in "
    "the memory-model sense for the lock-free parts (needs an RC11 model checker - a different family).")
ASSUMPTIONS = ["the standard mutexes, shared_ptr control blocks and condition variables are themselves race-free",
               "user payload types are only touched through the library"]


def run(ctx):
    tab = load_table("guards.json")["classes"]
    ctx.rule("C07.lockset", "static Eraser: every access to a non-atomic shared field happens with its guard held in a "
             "sufficient mode, on every instantiated method", floor=150)
    for cls in sorted(tab):
        ctx.step(check_guarded_fields, ctx, "C07.lockset", cls, skip_atomic=True)
    atab = json.load(open(os.path.join(os.path.dirname(os.path.dirname(os.path.dirname(os.path.abspath(__file__)))),
                                       "tables", "atomics.json")))
    ctx.step(common.atomic_floors, ctx, "C07.orders", sorted(atab["fields"]), floor=80)
    ctx.step(mutable_state, ctx)
    ctx.step(lock_ordered_atomics, ctx, tab)
    ctx.step(common.handle_deref_lifetime, ctx, "C07.lifetime",
             ["gmlc::libguarded::" + c for c in ("guarded", "guarded_opt", "shared_guarded", "shared_guarded_opt", "ordered_guarded",
                                                 "deferred_guarded", "atomic_guarded", "lr_guarded", "cow_guarded")], floor=4)
    ctx.step(c19.orders, ctx, "C07.tripline")
    ctx.step(c12.publish, ctx, "C07.publish", False)
    ctx.step(c05.register, ctx, "C07.publish-log", False, True)
    ctx.step(common.rcu_writer_guard, ctx, "C07.rcu-writers", loads=False)
    if ctx.tier == "thorough":
        from ..ircheck import cross_check
        ctx.step(cross_check, ctx, "C07.ir", REPO, (0, 1, 2, 3))


def lock_ordered_atomics(ctx, tab):
    """an atomic flag with a paired mutex may be read weaker than acquire by code that holds the mutex - the mutex orders
    it after the stores - but only as long as every store is made with that mutex held.  Where some load is weaker than
    acquire, the stores of that flag are therefore held to the lock (for flags that are always read acquire / seq_cst the
    floors of C07.orders are enough, and a store outside the mutex is no data race)"""
    from ..engine import atomic_ops, atomic_field_of, mo_at_least
    from ..guards import class_functions
    rid = "C07.lockset"
    for cls in sorted(tab):
        for fld, ent in tab[cls].items():
            if ent.get("kind") != "atomic" or not ent.get("guard"):
                continue
            weak = []
            for f, top in class_functions(ctx.fb, cls):
                for op in atomic_ops(f):
                    if op["op"] == "load" and atomic_field_of(f, op) == (cls, fld) and not mo_at_least(op["order"], "acquire"):
                        weak.append((f, op))
            if weak:
                ctx.note("%s::%s is read weaker than acquire at %s: its stores are checked against %s" % (
                    cls, fld, weak[0][0].loc(weak[0][1]["st"]), ent["guard"]))
                check_guarded_fields(ctx, rid, cls, only_fields=[fld], skip_atomic=False, strict_atomic_stores=True)


def mutable_state(ctx):
    """classes not in the guard table and not confined to one thread: a const member function (callable from any
    thread by convention) must not write a plain mutable member without holding a lock"""
    from ..engine import is_atomic_type, is_mutex_type, is_condvar_type, is_lock_carrier
    from ..guards import field_refs, effective_access, READ_KINDS, locks_of
    rid = "C07.mutable-state"
    ctx.rule(rid, "const member functions of thread-shareable classes write no plain mutable member without a lock", floor=10)
    fb, eng = ctx.fb, ctx.eng
    tab = load_table("guards.json")["classes"]
    conf = load_table("classes.json")["confined"]
    seen = set()
    for r in fb.records():
        if r.is_lambda or r.tmpl in tab or r.tmpl in conf or not r.tmpl.startswith("gmlc::"):
            continue
        muts = [fl for fl in r.fields if fl.get("mutable") and not is_atomic_type(fl["type"]) and not is_mutex_type(fl["type"])
                and not is_condvar_type(fl["type"]) and not is_lock_carrier(fl["type"])
                and not fl["type"].startswith("gmlc::libguarded::")]
        key = (r.tmpl, r.qname)
        if key in seen:
            continue
        seen.add(key)
        site = "%s:%d" % (r.file.replace(REPO + "/", ""), r.line)
        if not muts:
            ctx.ob(rid, True, site, "%s has no plain mutable member" % r.name, inst=r.qname)
            continue
        for f in fb.functions(rec=r.tmpl):
            if f.recq != r.qname or not f.constm or f.kind in ("ctor", "dtor"):
                continue
            la = locks_of(eng, fb, f)
            for st in field_refs(f, r.tmpl):
                if st["m"]["name"] not in [m["name"] for m in muts]:
                    continue
                acc, user = effective_access(eng, f, st)
                if acc in READ_KINDS:
                    continue
                pos = f.pos_of(st)
                ok = pos is not None and bool(la.held_at(pos))
                ctx.ob(rid, ok, f.loc(st), "%s::%s (mutable, not atomic) is written in const %s only under a lock"
                       % (r.name, st["m"]["name"], f.name), "" if ok else "two threads calling this const function race on it",
                       fn=f.label, inst=f.qname)
