"""C15 - atomic_guarded and whole-object load/store behave as one atomic register."""
from ..engine import CALLS, CTORS, HELD, callee_fq, handle_class, is_lock_carrier, path, unwrap
from ..flow import TokenFlow, cond_atoms, path_positions, paths, TooManyPaths
from ..guards import check_guarded_fields, field_refs
from .. import common

EXPLANATION = (
    "Per operation (atomic_guarded load/store/operator=/operator T/exchange/compare_exchange; load/store/"
    "operator= of guarded, guarded_opt, ordered_guarded; deferred_guarded::load), on every instantiation and "
    "every CFG path: [C15.onecs] exactly one acquisition of the object's own mutex, never released and "
    "re-acquired inside the operation, every access to the value (directly or through the one handle taken) "
    "lies inside it, and the returned value is computed before the release (a single critical section per "
    "operation on one mutex makes every history linearizable and rules out torn loads); [C15.guard] lockset "
    "rule on atomic_guarded::m_obj; [C15.flow] value-flow facts: exchange returns the value the object held on "
    "entry and leaves the argument in the object; compare_exchange returns true only on the branch where "
    "object == expected and after assigning desired, otherwise copies the object into expected and returns "
    "false. Not decided: that T's operator== / assignment have value semantics.")
ASSUMPTIONS = ["T::operator== and T's copy/assignment behave as value operations",
               "std::swap exchanges the two values"]

OPS = {
    "gmlc::libguarded::atomic_guarded": ("load", "store", "operator=", "exchange", "compare_exchange"),
    "gmlc::libguarded::guarded": ("load", "store", "operator="),
    "gmlc::libguarded::guarded_opt": ("load", "store", "operator="),
    "gmlc::libguarded::ordered_guarded": ("load", "store", "operator="),
    "gmlc::libguarded::deferred_guarded": ("load",),
}


def run(ctx):
    ctx.rule("C15.guard", "A3 lockset rule on the value of all five register-like classes (reads under S or X, "
             "writes under X of the object's own mutex)", floor=60)
    for cls, names in OPS.items():
        ctx.step(check_guarded_fields, ctx, "C15.guard", cls, only_functions=names + ("lock_shared",), assume_enabled=False)
    ctx.step(common.handle_deref_lifetime, ctx, "C15.lifetime", list(OPS), floor=4)
    ctx.step(onecs, ctx)
    ctx.step(flow_rules, ctx)
    ctx.step(restore_rule, ctx)
    ctx.step(common.generic_witnesses, ctx, "C15.generic", ["C15"])
    ctx.step(common.witnesses, ctx, "C15.witness", ["C15"])


def _is_conv(f):
    return f.kind == "conv"


def onecs(ctx):
    rid = "C15.onecs"
    ctx.rule(rid, "each register operation is exactly one critical section of the object's own mutex: one "
             "acquisition, no unlock/relock, all value accesses inside, result computed before release", floor=40)
    fb, eng = ctx.fb, ctx.eng
    for cls, names in OPS.items():
        found = 0
        for f in fb.functions(rec=cls):
            if f.kind in ("ctor", "dtor"):
                continue
            listed = (f.name in names or (cls.endswith("atomic_guarded") and _is_conv(f)) or
                      (cls.endswith("ordered_guarded") and _is_conv(f)))
            if not listed:
                # a value operation added later (exchange, compare_exchange, update-from-value ...): a public member that
                # reads or writes m_obj itself, hands out no handle and runs no user functor is a register operation too
                if cls.endswith("deferred_guarded"):
                    continue        # writes of deferred_guarded are deferred by design; only load() is a register operation
                if f.access != "public" or f.name in common.ACQ_METHODS or handle_class(f.ret) or \
                        f.name in ("read", "modify", "modify_detach", "modify_async", "do_pending_writes", "do_pending_writes_internal") or \
                        any(st["k"] in CALLS and common.is_user_call(f, st) for st in f.stmts.values()) or \
                        not any(st["m"]["name"] == "m_obj" for st in field_refs(f, cls)):
                    continue
            # operator= of the wrapper itself only (not handle move-assign)
            found += 1
            la = eng.locks(f)
            acq = [(pos, key, v, kind, st) for pos, key, v, kind, st in la.acquire_events
                   if v.mutex == "this.m_mutex"]
            site = f.where
            if not acq:
                # a pure forwarder (operator= calling store()): the one critical section is the callee's
                fw = [st for st in f.stmts.values() if st["k"] == "CXXMemberCallExpr" and path(f, f.s(st["obj"])) in ("this", "*this")
                      and (fb.callee_fn(f, st) is not None) and fb.callee_fn(f, st).rec == cls
                      and (fb.callee_fn(f, st).name in names or _is_conv(fb.callee_fn(f, st)) or
                           fb.callee_fn(f, st).name in ("read", "modify"))]     # functor forms: one critical section around the functor
                touches = [st for st in field_refs(f, cls) if st["m"]["name"] == "m_obj"]
                ok = len(fw) == 1 and not touches
                ctx.ob(rid, ok, site, "%s forwards to exactly one register operation and touches nothing itself" % f.name,
                       "" if ok else "no acquisition of m_mutex and %d forwarded call(s), %d direct access(es)" % (len(fw), len(touches)),
                       fn=f.label, inst=f.qname)
                for st in fw:
                    # the value a forwarder returns was produced INSIDE the callee's critical section: a callee that hands
                    # back a reference (read(f) with f returning const T&) leaves the copy to the forwarder, after the unlock
                    if not f.ret.rstrip().endswith("&") and f.ret != "void":
                        byref = st.get("vk") in ("l", "x") or st.get("t", "").rstrip().endswith("&")
                        ctx.ob(rid, not byref, f.loc(st), "%s: the value returned is materialised inside the forwarded operation" % f.name,
                               "" if not byref else "the forwarded call yields a reference into the protected object; the copy that "
                               "%s returns is made from it after the lock was released" % f.name, fn=f.label, inst=f.qname)
                continue
            if not listed and len(acq) > 1:
                # a later operation with a read-only fast path (compare under the shared lock, write under the exclusive
                # one): what it writes must not rest on what it read in an EARLIER section - the section that writes
                # reads the value again first
                for st in field_refs(f, cls):
                    if st["m"]["name"] != "m_obj":
                        continue
                    acc_, _u = eng.classify_access(f, st)
                    if acc_ not in ("write", "call", "bind", "addr"):
                        continue
                    wp = f.pos_of(st)
                    if wp is None:
                        continue
                    okw = la.holds(wp, "this.m_mutex", "X")
                    reread = False
                    for st2 in field_refs(f, cls):
                        if st2["m"]["name"] == "m_obj" and st2["id"] != st["id"] and eng.classify_access(f, st2)[0] in ("read", "bind-const", "addr-const", "call-const"):
                            rp = f.pos_of(st2)
                            if rp is not None and f.dominates(tuple(rp), tuple(wp)) and la.holds(rp, "this.m_mutex", "X"):
                                reread = True
                    ctx.ob(rid, okw and reread, f.loc(st), "%s decides and writes in the same exclusive section" % f.name,
                           "" if okw and reread else "the value is written in an exclusive section that does not read it again: the "
                           "decision was taken in an earlier critical section, and another writer may have changed the value in between",
                           fn=f.label, inst=f.qname)
                continue
            ok = len(acq) == 1 and acq[0][3] is True
            ctx.ob(rid, ok, site, "%s acquires m_mutex exactly once, blocking" % f.name,
                   "" if ok else "%d acquisition(s): %s" % (len(acq), [(f.loc(a[4]), a[3]) for a in acq]),
                   fn=f.label, inst=f.qname)
            if f.name != "load" and not _is_conv(f):
                okx = all(a[2].mode == "X" for a in acq)
                ctx.ob(rid, okx, site, "%s (a writing operation) holds m_mutex exclusively" % f.name,
                       "" if okx else "shared-mode acquisition at %s" % f.loc(acq[0][4]), fn=f.label, inst=f.qname)
            apos, akey = acq[0][0], acq[0][1]
            # not inside a loop
            inloop = any(apos[0] in body for _h, body in f.loops())
            ctx.ob(rid, not inloop, site, "%s: the acquisition is not inside a loop" % f.name, "", fn=f.label, inst=f.qname)
            # no manual unlock/lock on the lock object
            manual = [st for st in f.stmts.values() if st["k"] == "CXXMemberCallExpr" and
                      is_lock_carrier((f.s(st["obj"]) or {}).get("t", "")) and
                      st["callee"]["name"] in ("unlock", "lock", "try_lock", "release")]
            ctx.ob(rid, not manual, site, "%s never unlocks/relocks inside the operation" % f.name,
                   "" if not manual else "manual %s at %s" % (manual[0]["callee"]["name"], f.loc(manual[0])),
                   fn=f.label, inst=f.qname)
            # every value access (m_obj directly, or deref of the handle) while held
            bad = None
            n_acc = 0
            for st in field_refs(f, cls):
                if st["m"]["name"] != "m_obj":
                    continue
                acc, user = eng.classify_access(f, st)
                if acc in ("addr", "addr-const"):
                    continue   # escapes are judged by the guard rule / handle summary
                n_acc += 1
                pos = f.pos_of(st)
                if pos is None or not la.holds(pos, "this.m_mutex", "S"):
                    bad = f.loc(st)
            for st in f.stmts.values():
                if st["k"] == "CXXOperatorCallExpr" and st.get("op") in ("*", "->") and st["args"]:
                    a0 = f.s(st["args"][0])
                    if a0 is not None and handle_class(a0.get("t", "")):
                        n_acc += 1
                        key = la.key_of_expr(a0)
                        v = la.state_at(f.pos_of(st)).get(key)
                        if v is None or v.st != HELD or v.mutex != "this.m_mutex":
                            bad = f.loc(st)
            ok = n_acc > 0 and bad is None
            ctx.ob(rid, ok, site, "%s: every access to the value lies inside the critical section" % f.name,
                   "" if ok else ("access outside the section at %s" % bad if bad else "no value access found"),
                   fn=f.label, inst=f.qname)
            # the function must not call other repo functions that take the same mutex again
            # (e.g. expected = load() after the section): every call to a member on this that acquires
            for st in f.stmts.values():
                if st["k"] in CALLS:
                    g = fb.callee_fn(f, st)
                    if g is None or g.rec != cls or g is f:
                        continue
                    if st["k"] == "CXXMemberCallExpr" and path(f, f.s(st["obj"])) != "this":
                        continue
                    gl = eng.locks(g)
                    inner = [e for e in gl.acquire_events if e[2].mutex == "this.m_mutex"]
                    gsum = eng.handle_summary(g) if is_lock_carrier(g.ret) else None
                    if inner and gsum is None and g.name == "do_pending_writes" and g.ret in ("void", None):
                        continue    # the drain attempt every reader of deferred_guarded makes first: it applies queued work in a
                                    # section of its own and hands nothing of the value back to this operation
                    if inner and gsum is None:
                        ctx.ob(rid, False, f.loc(st), "%s does not open a second critical section through %s()"
                               % (f.name, g.name), "callee acquires m_mutex again", fn=f.label, inst=f.qname)


def restore_rule(ctx):
    """once the stored value has been moved out of the register (`T previous(std::move(m_obj))`), the register holds a
    value nobody stored until it is written again: that write must not be able to fail - it has to be a move assignment
    from an object of type T, never a copy / converting assignment of caller-supplied data"""
    rid = "C15.restore"
    ctx.rule(rid, "after the stored value is moved out, the register is refilled by a move assignment", floor=0)
    for cls in OPS:
        for f in ctx.fb.functions(rec=cls):
            if f.kind in ("ctor", "dtor"):
                continue
            outs = [st for st in f.stmts.values() if st["k"] == "CallExpr" and callee_fq(st) == "std::move" and st.get("vk") == "x"
                    and st["args"] and path(f, f.s(st["args"][0])) == "this.m_obj"]
            for mv in outs:
                mp = f.pos_of(mv)
                for st in f.stmts.values():
                    if st["k"] == "CXXOperatorCallExpr" and st.get("op") == "=" and st["args"] and \
                            path(f, f.s(st["args"][0])) == "this.m_obj":
                        sp = f.pos_of(st)
                        if mp is None or sp is None or not f.reach_avoiding(tuple(mp), tuple(sp), []):
                            continue
                        pt = ((st.get("callee") or {}).get("params") or [""])[0]
                        ok = pt.rstrip().endswith("&&")
                        ctx.ob(rid, ok, f.loc(st), "%s refills the moved-out register with a move assignment" % f.name,
                               "" if ok else "m_obj was moved out at %s and is assigned through operator=(%s) here: if that assignment "
                               "throws, the register keeps a moved-from value that was never stored" % (f.loc(mv), pt),
                               fn=f.label, inst=f.qname)


def flow_rules(ctx):
    rid = "C15.flow"
    ctx.rule(rid, "value flow of exchange / compare_exchange (which object ends up where, on which branch)", floor=6)
    fb = ctx.fb
    cls = "gmlc::libguarded::atomic_guarded"
    n = 0
    for f in fb.functions(rec=cls, name="exchange"):
        n += 1
        p0 = "p:" + f.params[0]["name"]
        try:
            ps = paths(f)
        except TooManyPaths:
            ctx.broken("too many paths in " + f.label)
        for p in ps:
            tf = TokenFlow(f, [p0, "this.m_obj"])
            for kind, pos, _ in path_positions(f, p):
                if kind == "elem":
                    tf.step(pos)
            ok = tf.returned == "in:this.m_obj"
            ctx.ob(rid, ok, f.where, "exchange returns the value the object held on entry",
                   "" if ok else "returns %s" % tf.returned, fn=f.label, inst=f.qname)
            ok = tf.get("this.m_obj") == "in:" + p0
            ctx.ob(rid, ok, f.where, "exchange leaves the argument's value in the object",
                   "" if ok else "object ends with %s" % tf.get("this.m_obj"), fn=f.label, inst=f.qname)
    for f in fb.functions(rec=cls, name="compare_exchange"):
        n += 1
        pe = "p:" + f.params[0]["name"]
        pd = "p:" + f.params[1]["name"]
        try:
            ps = paths(f)
        except TooManyPaths:
            ctx.broken("too many paths in " + f.label)
        seen_true = seen_false = False
        for p in ps:
            tf = TokenFlow(f, [pe, pd, "this.m_obj"])
            equal = None    # outcome of the comparison obj == expected on this path
            for kind, pos, val in path_positions(f, p):
                if kind == "elem":
                    tf.step(pos)
                else:
                    blk = f.blocks[pos[0]]
                    cond = f.s(blk.term.get("cond"))
                    for a in cond_atoms(f, cond, val):
                        if a[0] == "eq" and {a[1], a[2]} == {"this.m_obj", pe}:
                            # the comparison must see the entry values
                            if tf.get("this.m_obj") == "in:this.m_obj" and tf.get(pe) == "in:" + pe:
                                equal = a[3]
            if tf.returned is None:
                continue
            if equal is None:
                ctx.ob(rid, False, f.where, "compare_exchange decides on (object == expected)",
                       "a return path does not depend on that comparison", fn=f.label, inst=f.qname)
                continue
            if equal:
                seen_true = True
                ok = tf.returned == "true" and tf.get("this.m_obj") == "in:" + pd and tf.get(pe) == "in:" + pe
                ctx.ob(rid, ok, f.where, "equal branch: object receives desired, expected untouched, returns true",
                       "" if ok else "returns %s, object=%s, expected=%s" % (tf.returned, tf.get("this.m_obj"), tf.get(pe)),
                       fn=f.label, inst=f.qname)
            else:
                seen_false = True
                ok = tf.returned == "false" and tf.get("this.m_obj") == "in:this.m_obj" and \
                    tf.get(pe) == "in:this.m_obj"
                ctx.ob(rid, ok, f.where, "unequal branch: expected receives the current value, object untouched, returns false",
                       "" if ok else "returns %s, object=%s, expected=%s" % (tf.returned, tf.get("this.m_obj"), tf.get(pe)),
                       fn=f.label, inst=f.qname)
        ok = seen_true and seen_false
        ctx.ob(rid, ok, f.where, "compare_exchange has both an equal and an unequal return path", "", fn=f.label, inst=f.qname)
    if n == 0:
        ctx.broken("atomic_guarded::exchange/compare_exchange not instantiated")
