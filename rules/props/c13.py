"""C13 - rcu_list destroys and frees everything it allocated exactly once, for any T."""
import re

from ..engine import CALLS, CTORS, callee_fq, path, unwrap, strip_cvref
from ..flow import paths, path_positions, TooManyPaths
from ..typestate import NonNull, field_uses, nullable_fields, use_after_invalidate
from .. import common

EXPLANATION = (
    "Pointer typestate over every function of rcu_list.hpp, for each element type / allocator configuration "
    "instantiated by the drivers (non-trivially destructible element types included - the case no test has). "
    "Decided: [C13.nullable] zombie_list_node::zombie_node is nullable (derived from the constructors: the "
    "rcu_guard* constructor leaves the default nullptr); every dereference of it and every flow of it into "
    "allocator_traits::destroy/deallocate is dominated by a non-null test (nothing that was never constructed "
    "is destroyed); [C13.pairing] every destroy(a,p) is followed by deallocate(a,p,1) of the same pointer with "
    "the allocator whose value_type is the pointee, every allocate is followed by construct of the same "
    "pointer, and allocate_unique's construct sits in a try whose catch-all deallocates and rethrows; "
    "[C13.ownership] every insertion path releases the new node's unique_ptr exactly once, erase pushes its "
    "record through the CAS on every path that allocated it; [C13.uaf] no pointer is dereferenced after it "
    "was destroyed/deallocated (destructor and reclaim loops advance first). Not decided: exactly-once "
    "accounting over all operation sequences.")
ASSUMPTIONS = ["std::allocator_traits forwards destroy/deallocate/construct to the allocator as specified",
               "allocators are stateless or internally synchronised (m_node_alloc/m_zombie_alloc are used by concurrent readers)"]

FILE = "rcu_list.hpp"
ZLN = "gmlc::libguarded::rcu_list::zombie_list_node"


def fns(ctx):
    return [f for f in ctx.fb.functions() if f.file.endswith("/" + FILE)]


def run(ctx):
    ctx.step(nullable, ctx)
    ctx.step(pairing, ctx)
    ctx.step(ownership, ctx)
    ctx.step(common.rcu_writer_guard, ctx, "C13.erase-once")
    from . import c05
    # ~rcu_list frees every node that is still linked; if it SKIPS nodes marked deleted (they "belong to the log"), a node
    # must never be marked without also getting its record and being unlinked: erase then has to be all-or-nothing
    skips = dtor_skips_marked(ctx)
    ctx.step(c05.unlink_first, ctx, "C13.unlink", nothrow_after_unlink=True, all_or_nothing=skips)
    ctx.step(c05.register, ctx, "C13.register")
    # what erase logged is actually reclaimed: the release path frees the older records from the cursor it scanned and
    # re-links the own record past exactly what it freed (nothing is cut off unfreed)
    ctx.step(c05.reclaim, ctx, "C13.reclaim")
    ctx.step(uaf, ctx, "C13.uaf", fns(ctx), floor=20)
    # a node linked by a re-entrant insertion (recursive mutex, element constructor adding to the same list) must not be
    # cut out again by the outer insertion's stale view of the list ends: it would never be destroyed
    from . import c12
    ctx.step(c12.reentrancy_rule, ctx, "C13.reentrancy")
    # a handle's registration record is reclaimed only after the handle gave it back: every handle does so exactly once
    ctx.step(common.raii_token_moves, ctx, "C13.balance", ["rcu_list.hpp", "rcu_guarded.hpp"])
    ctx.step(retire_once, ctx)


RCU = "gmlc::libguarded::rcu_list"


def dtor_skips_marked(ctx):
    """does ~rcu_list make the destruction of a linked node depend on node::deleted?"""
    for f in ctx.fb.functions(rec=RCU):
        if f.kind != "dtor":
            continue
        for st in f.stmts.values():
            if st["k"] == "CallExpr" and re.match(r"^std::allocator_traits<.*>::(destroy|deallocate)$", callee_fq(st)) and \
                    len(st["args"]) > 1 and "zombie_list_node" not in (f.s(st["args"][1]) or {}).get("t", ""):
                for a in f.ancestors(st):
                    if a["k"] == "IfStmt" and a.get("cond") and any(
                            d["k"] == "MemberExpr" and d["m"].get("name") == "deleted" for d in f.descendants(f.s(a["cond"]))):
                        ctx.note("~rcu_list frees a linked node only when it is not marked deleted (%s): erase is held to "
                                 "all-or-nothing marking" % f.loc(st))
                        return True
    return False


def retire_once(ctx, rid="C13.retire-once"):
    """a node gets exactly one reclamation record: whoever writes a record for a node marks the node `deleted` (under
    the write mutex), and erase() refuses marked nodes.  An operation that retires nodes without marking them lets an
    iterator obtained earlier retire the same node again: it is then destroyed and freed twice."""
    ctx.rule(rid, "every operation that creates a reclamation record for a node marks that node deleted", floor=1)
    n = 0
    for f in ctx.fb.functions(rec=RCU):
        if f.kind in ("ctor", "dtor"):
            continue
        recs = [st for st in f.stmts.values() if st["k"] == "CallExpr" and re.match(r"^std::allocator_traits<.*>::construct$", callee_fq(st))
                and len(st["args"]) == 3 and "zombie_list_node" in (f.s(st["args"][1]) or {}).get("t", "")]
        if not recs:
            continue
        n += 1
        marks = []
        for st in f.stmts.values():
            if st["k"] == "BinaryOperator" and st.get("op") == "=":
                l, r = f.children(st)
                lu = unwrap(f, l)
                if lu is not None and lu["k"] == "MemberExpr" and lu["m"].get("name") == "deleted":
                    rv = unwrap(f, r)
                    if rv is not None and rv["k"] == "CXXBoolLiteralExpr" and rv["v"] is True:
                        marks.append(st)
        ok = bool(marks)
        ctx.ob(rid, ok, f.loc(recs[0]), "%s marks the node it retires" % f.name, "" if ok else
               "%s writes a reclamation record for a node but never sets node::deleted: erase() through an iterator taken "
               "earlier accepts the node again, it gets a second record and is destroyed and deallocated twice" % f.name,
               fn=f.label, inst=f.qname)
    if n == 0:
        ctx.broken("no function of rcu_list constructs a zombie_list_node record (anchor vanished)")


def nullable(ctx):
    rid = "C13.nullable"
    ctx.rule(rid, "every dereference / destroy / deallocate of the nullable zombie_list_node::zombie_node is "
             "dominated by a non-null test of that value", floor=4)
    fb = ctx.fb
    nf = nullable_fields(fb, ZLN)
    if "zombie_node" not in nf or not any(r.startswith("ctor") for r in nf["zombie_node"]):
        ctx.broken("zombie_list_node::zombie_node is no longer derived as nullable (%s)" % nf)
    ctx.note("nullable because: " + "; ".join(nf["zombie_node"]))
    n = 0
    for f in fns(ctx):
        uses = field_uses(f, ZLN, "zombie_node")
        if not uses:
            continue
        nn = NonNull(f)
        for st, p, how in uses:
            pos = f.pos_of(st)
            ok = pos is not None and nn.known(pos, ("nn", p))
            ctx.ob(rid, ok, f.loc(st), "%s of zombie_node (%s) is null-guarded" % (how, p),
                   "" if ok else "a reader-registration record (zombie_node == nullptr) reaches this %s" % how,
                   fn=f.label, inst=f.qname)
            n += 1
    return n


def _trait_calls(f, name):
    for st in f.stmts.values():
        if st["k"] == "CallExpr" and re.match(r"^std::allocator_traits<.*>::%s$" % name, callee_fq(st)):
            yield st


def pairing(ctx):
    rid = "C13.pairing"
    ctx.rule(rid, "destroy is followed by deallocate of the same pointer with the matching allocator; allocate is "
             "followed by construct of the same pointer; allocate_unique's construct is covered by a "
             "deallocate-and-rethrow handler", floor=12)
    for f in fns(ctx):
        for st in _trait_calls(f, "destroy"):
            args = [f.s(a) for a in st["args"]]
            p = path(f, args[1])
            a = path(f, args[0])
            pos = f.pos_of(st)
            if p and p.startswith("&") and ("->" in p or "." in p[1:]):
                # a member sub-object destroyed in place (not an allocation of its own): nothing to pair it with here;
                # whether destroying it at this point is right is a lifetime question (C05), not a pairing one
                ctx.note("%s: %s destroys the sub-object %s in place" % (rid, f.loc(st), p))
                continue
            # the matching deallocate: same pointer, same allocator, post-dominates, nothing frees it in between
            ok = False
            for d in _trait_calls(f, "deallocate"):
                dargs = [f.s(x) for x in d["args"]]
                if path(f, dargs[1]) == p and path(f, dargs[0]) == a:
                    dp = f.pos_of(d)
                    if dp and pos and f.postdominates(dp, pos) and f.dominates(pos, dp):
                        ok = True
            ctx.ob(rid, ok, f.loc(st), "destroy(%s, %s) is followed by deallocate of the same pointer" % (a, p),
                   "" if ok else "no matching deallocate on every path", fn=f.label, inst=f.qname)
            # allocator's value_type is the pointee
            at = strip_cvref(args[0].get("t", ""))
            pt = strip_cvref(args[1].get("t", "")).rstrip("*").strip()
            ok = at.endswith("<" + pt + ">")
            ctx.ob(rid, ok, f.loc(st), "destroy uses the allocator whose value_type is the pointee",
                   "" if ok else "allocator %s vs pointee %s" % (at[-60:], pt[-60:]), fn=f.label, inst=f.qname)
        for st in _trait_calls(f, "deallocate"):
            args = [f.s(a) for a in st["args"]]
            at = strip_cvref(args[0].get("t", ""))
            pt = strip_cvref(args[1].get("t", "")).rstrip("*").strip()
            ok = at.endswith("<" + pt + ">")
            ctx.ob(rid, ok, f.loc(st), "deallocate uses the allocator whose value_type is the pointee",
                   "" if ok else "allocator %s vs pointee %s" % (at[-60:], pt[-60:]), fn=f.label, inst=f.qname)
            cnt = unwrap(f, args[2]) if len(args) > 2 else None
            ok = cnt is not None and cnt["k"] == "IntegerLiteral" and cnt["v"] == 1
            ctx.ob(rid, ok, f.loc(st), "deallocate releases exactly the one object that was allocated", "",
                   fn=f.label, inst=f.qname)
        for st in _trait_calls(f, "allocate"):
            # pointer the result is stored into
            tgt = None
            par = f.par(st)
            while par is not None and par["k"] in ("ImplicitCastExpr", "ExprWithCleanups", "ParenExpr"):
                par = f.par(par)
            holder = None
            if par is not None and par["k"] in CTORS and par.get("t", "").startswith("std::unique_ptr<"):
                # the raw storage goes straight into an owning local: `std::unique_ptr<T, D> storage{allocate(...), d};`
                holder = par
                while par is not None and par["k"] != "DeclStmt":
                    par = f.par(par)
            if par is not None and par["k"] == "DeclStmt":
                tgt = "l:" + par["decls"][0]["name"]
            elif par is not None and par["k"] == "BinaryOperator" and par["op"] == "=":
                tgt = path(f, f.children(par)[0])
            pos = f.pos_of(st)
            ok = False
            for c in _trait_calls(f, "construct"):
                cargs = [f.s(x) for x in c["args"]]
                if tgt and path(f, cargs[1]) == tgt:
                    cp = f.pos_of(c)
                    if cp and pos and f.dominates(pos, cp) and f.postdominates(cp, pos):
                        ok = True
                        # exception safety of the construct
                        if f.name == "allocate_unique":
                            ok2 = _construct_protected(f, c, tgt) or (holder is not None and _frees_only(ctx, f, holder))
                            ctx.ob(rid, ok2, f.loc(c), "allocate_unique: a throwing construct reaches deallocate + rethrow",
                                   "" if ok2 else "construct is not inside try { } catch (...) { deallocate(p); throw; }",
                                   fn=f.label, inst=f.qname)
                            ok3 = _no_owner_before_construct(f, st, c)
                            ctx.ob(rid, ok3, f.loc(c), "allocate_unique: the raw storage is not handed to the "
                                   "destroying deleter before it is constructed",
                                   "" if ok3 else "the unique_ptr with the destroy+deallocate deleter owns unconstructed storage",
                                   fn=f.label, inst=f.qname)
            ctx.ob(rid, ok, f.loc(st), "allocate is followed by construct of the same pointer (%s)" % tgt,
                   "" if ok else "no construct of %s on every path" % tgt, fn=f.label, inst=f.qname)


def _frees_only(ctx, f, holder):
    """the deleter of the unique_ptr that holds raw storage gives the storage back and does nothing else to it: its call
    operator reaches deallocate and no destroy (the destroying deleter of the list's nodes must not run on storage in
    which no object was constructed)"""
    t = holder.get("t", "")
    if "deallocator" in t:
        return False
    for g in f.unit.functions:
        if g.name == "operator()" and (g.is_lambda or g.rec) and g.file == f.file:
            rec_ok = (g.is_lambda and (ctx.fb and True)) or (g.rec and g.rec.split("::")[-1] in t)
            if not rec_ok:
                continue
            if g.is_lambda:
                from ..guards import top_function
                if top_function(ctx.fb, g) is not f and getattr(top_function(ctx.fb, g), "id", None) != f.id:
                    continue
            names = [callee_fq(s).split("::")[-1] for s in g.stmts.values() if s["k"] == "CallExpr"]
            if "deallocate" in names and "destroy" not in names:
                return True
    return False


def _construct_protected(f, c, tgt):
    for a in f.ancestors(c):
        if a["k"] == "CXXTryStmt":
            for hid in a["handlers"]:
                h = f.s(hid)
                if not h or not h.get("all"):
                    continue
                body = f.s(h["body"])
                has_dealloc = any(d["k"] == "CallExpr" and callee_fq(d).endswith("::deallocate") and
                                  path(f, f.s(d["args"][1])) == tgt for d in f.descendants(body))
                rethrow = any(d["k"] == "CXXThrowExpr" and d.get("rethrow") for d in f.descendants(body))
                if has_dealloc and rethrow:
                    return True
    return False


def _no_owner_before_construct(f, alloc, construct):
    """no unique_ptr<..., deallocator> is constructed from the pointer before construct()"""
    cp = f.pos_of(construct)
    for st in f.stmts.values():
        if st["k"] in CTORS and st.get("t", "").startswith("std::unique_ptr<") and "deallocator" in st.get("t", ""):
            sp = f.pos_of(st)
            if sp and cp and f.dominates(sp, cp) and sp != cp:
                return False
    return True


def ownership(ctx):
    rid = "C13.ownership"
    ctx.rule(rid, "each insertion path releases the new node's unique_ptr exactly once (one owner); erase "
             "publishes the record it allocated on every path", floor=8)
    fb = ctx.fb
    for f in fns(ctx):
        if f.name in ("push_front", "push_back", "emplace_front", "emplace_back") and f.rec == "gmlc::libguarded::rcu_list":
            from ..rcu import insertion_body, forwards_to_sibling
            if forwards_to_sibling(fb, f) is not None:
                continue
            ib = insertion_body(f)
            if ib is None:
                ctx.unknown("%s: %s: cannot find the node %s allocates" % (rid, f.where, f.name))
                continue
            g, nn, _mk, call_pos = ib
            todo = [(g, lambda st, g=g, nn=nn: st["k"] == "CXXMemberCallExpr" and st["callee"]["name"] == "release" and
                     path(g, g.s(st["obj"])) == nn, "the new node is released into the list")]
            if g is not f:
                # linking code lives in a private helper: the insertion calls it exactly once, it releases exactly once
                todo.append((f, lambda st, g=g: st["k"] == "CXXMemberCallExpr" and (st.get("callee") or {}).get("id") == g.id,
                             "the linking helper %s runs" % g.name))
            for h, pred, what in todo:
                try:
                    ps = paths(h)
                except TooManyPaths:
                    ctx.broken("too many paths in " + h.label)
                rel = [st for st in h.stmts.values() if pred(st)]
                relpos = {tuple(h.pos_of(st)) for st in rel if h.pos_of(st)}
                for p in ps:
                    if p[-1][0] != h.exit:
                        continue
                    cnt = sum(1 for kind, pos, _ in path_positions(h, p) if kind == "elem" and tuple(pos) in relpos)
                    ctx.ob(rid, cnt == 1, h.where, "%s: %s exactly once on this path" % (f.name, what),
                           "" if cnt == 1 else "%d times" % cnt, fn=h.label, inst=h.qname)
        if f.name == "erase" and f.rec == "gmlc::libguarded::rcu_list":
            allocs = list(_trait_calls(f, "allocate"))
            cas = [st for st in f.stmts.values() if st["k"] == "CXXMemberCallExpr" and
                   st["callee"]["name"].startswith("compare_exchange") and
                   path(f, f.s(st["obj"])) == "this.m_zombie_head"]
            ok = bool(allocs) and bool(cas)
            if ok:
                ap = f.pos_of(allocs[0])
                ok = any(f.pos_of(c) and f.dominates(ap, f.pos_of(c)) for c in cas)
            ctx.ob(rid, ok, f.where, "erase pushes the record it allocated onto the log (CAS with the new record)",
                   "" if ok else "allocated record is not the CAS's desired value", fn=f.label, inst=f.qname)
            # every path that allocates a record also publishes it (or gives it back)
            from ..rcu import all_paths
            try:
                ps = all_paths(f)
            except TooManyPaths:
                ctx.broken("too many paths in " + f.label)
            for pe in ps:
                al = [e for e in pe.events if e["k"] == "allocate"]
                if not al:
                    continue
                i0 = pe.events.index(al[0])
                done = [e for e in pe.events[i0:] if e["k"] in ("cas", "deallocate")]
                ctx.ob(rid, bool(done), f.loc(al[0]["st"]), "a record allocated by erase is pushed onto the log on every path that "
                       "follows the allocation", "" if done else "this path returns without publishing or freeing the record "
                       "(e.g. the node was already erased): the record is unreachable and never freed", fn=f.label, inst=f.qname)


def uaf(ctx, rid, functions, floor=1, kinds=None):
    ctx.rule(rid, "no pointer/iterator is dereferenced after erase / delete / destroy+deallocate / move-from "
             "(all paths, loop back-edges included)", floor=floor)
    fxb, _ = ctx.fx
    hit = 0
    for f in fxb.functions():
        if f.qname.startswith("fx::erase_then_use") and use_after_invalidate(f):
            hit += 1
    if hit < 2:
        ctx.broken("positive controls fx::erase_then_use::remove/dangling not reported by the use-after-invalidate rule")
    for f in functions:
        fs = use_after_invalidate(f)
        if kinds is not None:
            fs = [x for x in fs if x[4] in kinds]
        if not fs:
            ctx.ob(rid, True, f.where, "%s has no use after invalidation" % f.name, fn=f.label, inst=f.qname)
        for st, p, how, inv, kind in fs:
            ctx.ob(rid, False, f.loc(st), "%s has no use after invalidation" % f.name,
                   "%s %s after it was %s at %s" % (p, how, kind, f.loc(inv)), fn=f.label, inst=f.qname)
