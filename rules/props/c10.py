"""C10 - Latch opens exactly when the count is reached and never loses a wake-up."""
import re
from ..facts import short
from ..engine import CALLS, atomic_ops, atomic_field_of, path, unwrap
from ..cv import check_waits, notify_follows, cv_waits, enclosing_loop_cond_fields
from ..guards import check_guarded_fields, class_functions, locks_of
from .. import common

EXPLANATION = (
    "Condition-variable discipline of Latch on every CFG path. Decided: [C10.guard] every modification of "
    "counter_ happens with mtx held; [C10.cv] the wait passes a lock that owns mtx and sits in a loop that "
    "re-checks counter_ (or is predicate-form on counter_ only); [C10.stable] counter_ is only ever decremented "
    "and the waiter's continue-condition is an inequality (counter_ > 0 / >= 1), so surplus arrivals cannot "
    "make an open latch look closed again; [C10.wake] the decrement is followed by cv.notify_all(), bypassed "
    "only through a test of counter_ alone, and that test lets the arrival that reaches zero notify; "
    "[C10.nonblock] arrive contains no wait and no loop, arrive_and_wait is arrive() then wait(); [C10.orders] "
    "atomic floors (decrement >= release, unlocked fast-path load >= acquire). With the predicate written only "
    "under the waiters' mutex and followed by notify_all, no wake-up is lost for any interleaving of the "
    "unlocked check, arrivals and spurious wake-ups. Not decided: the count itself as a value property.")
ASSUMPTIONS = ["std::condition_variable semantics (atomic unlock-and-wait, spurious wake-ups possible)"]

CLS = "gmlc::concurrency::Latch"


def derived_flag(ctx):
    """representation anchor: the member the waiters actually wait on, when that is not counter_ (an `open` flag kept next
    to the count).  Returns its name or None."""
    from ..cv import predicate_lambda, shared_fields_read
    for f, top, st in cv_waits(ctx, CLS, "cv"):
        g = predicate_lambda(ctx, f, st)
        if g is not None:
            reads = shared_fields_read(ctx, g, CLS, site=f)
            if reads and "counter_" not in reads:
                return reads[0]
    return None


def derived_rules(ctx, flag):
    """what can be said about a latch whose waiters watch a flag derived from the count: the flag starts out from the
    constructor's count (a latch built with nothing to wait for is open), is only ever set - never cleared - outside the
    constructors, and is set where the count is seen to have reached zero"""
    rid = "C10.derived"
    ctx.rule(rid, "a flag the waiters watch instead of counter_ mirrors it: initialised from the count, set when zero is reached, never cleared", floor=1)
    fb = ctx.fb
    for f in fb.functions(rec=CLS):
        if f.kind != "ctor" or f.defaulted or not f.params:
            continue
        ini = [i for i in f.inits if i.get("field") == flag and i.get("written")]
        src = f.s(ini[0]["init"]) if ini else None
        ok = src is not None and any(d["k"] == "DeclRefExpr" and d["d"].get("k") == "param" for d in [src] + list(f.descendants(src)))
        ctx.ob(rid, ok, f.where, "%s starts out from the count the latch is constructed with" % flag, "" if ok else
               "%s gets a fixed initial value: a latch constructed with a count of zero (an empty batch) is never opened by any "
               "arrival and its waiters block for ever" % flag, fn=f.label, inst=f.qname)
    vals = set()
    for f, top in class_functions(fb, CLS):
        if top.kind in ("ctor", "dtor"):
            continue
        for op in atomic_ops(f):
            if atomic_field_of(f, op) == (CLS, flag) and op["op"] in ("store", "rmw", "cas"):
                v = unwrap(f, op["value"]) if op.get("value") is not None else None
                vals.add(path(f, v) or (v or {}).get("v") if v is not None else None)
                pos = f.pos_of(op["st"])
                guarded_by_zero = False
                for b, blk in f.blocks.items():
                    if blk.term and blk.term.get("cond") and len(blk.succs) == 2 and pos is not None:
                        for i_, s_ in enumerate(blk.succs):
                            if s_ is not None and f.dominates_block(s_, pos[0]) and len(f.blocks[s_].preds) == 1:
                                if _says_open(f, f.s(blk.term["cond"]), i_ == 0) is True:
                                    guarded_by_zero = True
                ctx.ob(rid, guarded_by_zero, f.loc(op["st"]), "%s is set where the count was just seen to have reached zero" % flag,
                       "" if guarded_by_zero else "the store is not on the 'count reached' side of a test of counter_", fn=top.label, inst=f.qname)
    ctx.ob(rid, len(vals) <= 1, "gmlc/concurrency/Latch.hpp", "%s is only ever set to one value after construction (an open latch stays open)" % flag,
           "" if len(vals) <= 1 else "values stored: %s" % sorted(str(v) for v in vals))


def run(ctx):
    ctx.rule("C10.guard", "every modification of counter_ happens with mtx held", floor=1)
    ctx.step(check_guarded_fields, ctx, "C10.guard", CLS)
    flag = derived_flag(ctx)
    if flag:
        ctx.step(derived_rules, ctx, flag)
        ctx.unknown("C10: the waiters of Latch wait on %s, a member derived from counter_; the rules about the wait condition "
                    "(C10.cv, C10.stable, C10.exit) describe waiting on counter_ itself and do not judge this representation" % flag)
        ctx.step(initial, ctx)
        ctx.step(nonblock, ctx)
        ctx.step(common.atomic_floors, ctx, "C10.orders", [CLS], floor=2, files=["Latch.hpp"])
        ctx.step(common.raii_only, ctx, "C10.raii", ["Latch.hpp"], floor=3)
        return
    ctx.rule("C10.cv", "wait: lock owns mtx; predicate-less wait sits in a loop re-checking counter_", floor=1)
    ws = ctx.step(check_waits, ctx, "C10.cv", CLS, "cv", "mtx", ["counter_"]) or []
    ctx.step(stable, ctx, ws)
    ctx.step(initial, ctx)
    ctx.step(wake, ctx)
    ctx.step(exit_rule, ctx)
    ctx.step(nonblock, ctx)
    ctx.step(common.atomic_floors, ctx, "C10.orders", [CLS], floor=2, files=["Latch.hpp"])
    ctx.step(common.raii_only, ctx, "C10.raii", ["Latch.hpp"], floor=3)


def counter_mods(ctx):
    out = []
    for f, top in class_functions(ctx.fb, CLS):
        if top.kind in ("ctor", "dtor"):
            continue
        for op in atomic_ops(f):
            if atomic_field_of(f, op) == (CLS, "counter_") and op["op"] in ("store", "rmw", "cas"):
                out.append((f, top, op))
    return out


def decrement_of(ctx, f, op, mods):
    """'unit' / 'n' when the modification decreases counter_ (by one / by a caller-chosen amount), None otherwise.
    A read-modify-write spelled as `counter_.store(counter_.load() - k)` is a decrement only where it cannot lose an
    update: load and store in one exclusive section of mtx, and every other modification inside mtx as well."""
    def amount(v):
        v = unwrap(f, v) if v is not None else None
        return "unit" if v is not None and v["k"] == "IntegerLiteral" and v.get("v") == 1 else "n"
    if op["name"] == "operator--":
        return "unit"
    if op["name"] in ("fetch_sub", "operator-="):
        return amount(op.get("value"))
    if op["op"] == "store" and op.get("value") is not None:
        v = unwrap(f, op["value"])
        if v is None or v["k"] != "BinaryOperator" or v.get("op") != "-":
            return None
        l, r = f.children(v)
        loads = [o for o in atomic_ops(f) if o["op"] == "load" and atomic_field_of(f, o) == (CLS, "counter_") and
                 any(d["id"] == o["st"]["id"] for d in [unwrap(f, l)] + list(f.descendants(l)) if d is not None)]
        if len(loads) != 1:
            return None
        for g, _t, o in mods:
            la = locks_of(ctx.eng, ctx.fb, g)
            if g.pos_of(o["st"]) is None or not la.holds(g.pos_of(o["st"]), "this.mtx", "X"):
                return None
        la = locks_of(ctx.eng, ctx.fb, f)
        lp = f.pos_of(loads[0]["st"])
        if lp is None or not la.holds(lp, "this.mtx", "X"):
            return None
        return amount(r)
    return None


def initial(ctx):
    """the latch opens after exactly the number of arrivals it was constructed with - also for 0 (an empty batch:
    waiters never block): the constructor stores its argument unchanged"""
    rid = "C10.initial"
    ctx.rule(rid, "the constructor initialises counter_ with its argument itself", floor=1)
    n = 0
    for f in ctx.fb.functions(rec=CLS):
        if f.kind != "ctor" or f.defaulted or not f.params:
            continue
        ini = [i for i in f.inits if i.get("field") == "counter_"]
        asg = [st for st in f.stmts.values() if st["k"] in ("BinaryOperator", "CXXOperatorCallExpr", "CXXMemberCallExpr") and
               ((st["k"] == "BinaryOperator" and st.get("op") == "=" and path(f, f.children(st)[0]) == "this.counter_") or
                (st["k"] == "CXXOperatorCallExpr" and st.get("op") == "=" and path(f, f.s(st["args"][0])) == "this.counter_") or
                (st["k"] == "CXXMemberCallExpr" and st["callee"]["name"] == "store" and path(f, f.s(st["obj"])) == "this.counter_"))]
        src = None
        if ini and not asg:
            e = unwrap(f, f.s(ini[0]["init"]))
            while e is not None and (e["k"] in ("CXXConstructExpr", "InitListExpr", "CXXTemporaryObjectExpr")):
                ch = [f.s(a) for a in e.get("args", [])] if e["k"] != "InitListExpr" else f.children(e)
                e = unwrap(f, ch[0]) if len(ch) == 1 else None
            src = path(f, e) if e is not None else None
        ok = src == "p:" + f.params[0]["name"]
        n += 1
        ctx.ob(rid, ok, f.where, "Latch(count) starts with counter_ == count", "" if ok else
               "counter_ is initialised from %s: a latch built for another number of arrivals than asked for (an empty batch, "
               "Latch(0), must never block its waiters)" % (src or "an expression other than the parameter"), fn=f.label, inst=f.qname)
    if n == 0:
        ctx.broken("Latch constructor not found (anchor vanished)")


def stable(ctx, ws):
    rid = "C10.stable"
    ctx.rule(rid, "counter_ only decreases and the waiter's condition is an inequality (an open latch stays open "
             "for every later check, also with more arrivals than the count)", floor=1)
    mods = counter_mods(ctx)
    ok = bool(mods) and all(decrement_of(ctx, f_, op, mods) is not None for f_, _t, op in mods)
    ctx.ob(rid, ok, mods[0][0].loc(mods[0][2]["st"]) if mods else "gmlc/concurrency/Latch.hpp",
           "counter_ is modified by decrements only", "" if ok else
           "modifications: %s" % [(f.loc(op["st"]), op["name"]) for f, _t, op in mods])
    for r_ in ctx.fb.records(tmpl=CLS):
        fl = r_.field("counter_")
        if fl is None:
            ctx.broken("Latch::counter_ not found (anchor vanished)")
        m_ = re.match(r"^std::atomic<(.*)>$", fl["type"])
        ok = m_ is not None and m_.group(1).strip() in ("int", "long", "long long", "short", "signed char")
        ctx.ob(rid, ok, "%s:%d" % (short(r_.file), fl.get("line", r_.line)),
               "counter_ is a signed integer (surplus arrivals take it below zero, where 'counter_ > 0' stays false)",
               "" if ok else "its type is %s: an arrival after the latch opened wraps it to a huge positive value and the "
               "latch closes again" % fl["type"], inst=r_.qname)
    for f, top, st in ws:
        lc = enclosing_loop_cond_fields(f, st, CLS)
        conds = []          # (function, expr, loop continues / wait goes on while expr is <bool>)
        if lc is not None:
            conds = [(f, e, cont) for e, cont in lc[2]]
        else:
            from ..cv import predicate_lambda
            g = predicate_lambda(ctx, f, st)
            if g is not None:
                rets = [s for s in g.stmts.values() if s["k"] == "ReturnStmt"]
                if len(rets) == 1:
                    conds = [(g, g.children(rets[0])[0], False)]    # predicate true = stop waiting
        ok, detail = False, "cannot find the waiter's condition"
        for cf, cond, cont in conds:
            cond = unwrap(cf, cond)
            while cond is not None and cond["k"] == "UnaryOperator" and cond["op"] == "!":
                cont = not cont
                cond = unwrap(cf, cf.children(cond)[0])
            ok = False
            if cond is None or cond["k"] != "BinaryOperator":
                detail = "cannot read the waiter's condition as a comparison of counter_"
                break
            op = cond["op"]
            l, r = cf.children(cond)
            lp, rp = path(cf, l), path(cf, r)
            if rp == "this.counter_" and lp != "this.counter_":
                op = {"<": ">", ">": "<", "<=": ">=", ">=": "<="}.get(op, op)
            if not cont:
                op = {">": "<=", ">=": "<", "<": ">=", "<=": ">", "==": "!=", "!=": "=="}.get(op, op)
            # normalised: the waiter keeps waiting while `counter_ op k`
            ok = op in (">", ">=")
            if not ok:
                detail = ("the condition uses '%s': once surplus arrivals take the counter below zero the latch looks "
                          "closed again and a woken waiter sleeps forever" % cond["op"])
                break
            detail = ""
        ctx.ob(rid, ok, f.loc(st), "the waiter waits while counter_ > 0 (inequality, stable under further decrements)",
               detail, fn=top.label, inst=f.qname)


def wake(ctx):
    rid = "C10.wake"
    ctx.rule(rid, "each decrement of counter_ is followed by cv.notify_all(), bypassed only by a test of counter_ alone", floor=1)
    mods = counter_mods(ctx)
    if not mods:
        ctx.broken("no modification of Latch::counter_ (anchor vanished)")
    for f, top, op in mods:
        ok, detail = notify_follows(f, f.pos_of(op["st"]), "cv", ["counter_"], CLS, la=locks_of(ctx.eng, ctx.fb, f), mutex="mtx", fb=ctx.fb)
        ctx.ob(rid, ok, f.loc(op["st"]), "the arrival is followed by cv.notify_all() when it may open the latch",
               "" if ok else detail, fn=top.label, inst=f.qname)
        # a decrement by more than one can step over zero: the decision to wake must then be an inequality
        unit = decrement_of(ctx, f, op, mods) == "unit"
        if not unit:
            eqs = []
            for st in f.stmts.values():
                if st["k"] == "BinaryOperator" and st.get("op") in ("==", "!="):
                    if any(path(f, x) == "this.counter_" for x in f.children(st)):
                        eqs.append(st)
                if st["k"] == "CXXOperatorCallExpr" and st.get("op") in ("==", "!=") and \
                        any(path(f, f.s(a)) == "this.counter_" for a in st["args"]):
                    eqs.append(st)
            ctx.ob(rid, not eqs, f.loc(eqs[0]) if eqs else f.loc(op["st"]), "a decrement by an arbitrary amount decides to wake with an "
                   "inequality on counter_", "" if not eqs else "counter_ is decreased by a caller-chosen amount at %s but tested for "
                   "equality with zero: an arrival that takes it below zero wakes nobody and the waiters stay blocked"
                   % f.loc(op["st"]), fn=top.label, inst=f.qname)


def _says_open(f, cond, val, depth=0):
    """does the outcome `val` of branch condition `cond` establish counter_ <= 0?  None: the condition does not read
    counter_; False: it reads it but this outcome says 'still counting' (or cannot be read)"""
    c = unwrap(f, cond)
    while c is not None and c["k"] == "UnaryOperator" and c.get("op") == "!":
        val = not val
        c = unwrap(f, f.children(c)[0])
    if c is None:
        return None
    if c["k"] == "DeclRefExpr" and c["d"].get("k") == "local" and depth < 4:
        # `const bool pending = counter_ > 0; if (!pending) break;` - a local computed from the counter and tested
        inits = [f.s(d.get("init")) for s_ in f.stmts.values() if s_["k"] == "DeclStmt" for d in s_["decls"]
                 if d["id"] == c["d"].get("id") and d.get("init")]
        reassigned = any(s_["k"] == "BinaryOperator" and s_.get("op") == "=" and path(f, f.children(s_)[0]) == path(f, c)
                         for s_ in f.stmts.values())
        if len(inits) == 1 and not reassigned:
            return _says_open(f, inits[0], val, depth + 1)
        return None
    reads = any(d["k"] == "MemberExpr" and d["m"].get("is_field") and d["m"]["name"] == "counter_" for d in [c] + list(f.descendants(c)))
    if not reads:
        return None
    if c["k"] == "BinaryOperator" and c.get("op") in ("&&", "||"):
        l, r = f.children(c)
        # `a && b` false / `a || b` true say nothing definite about one operand; the definite outcomes are conjunctions
        if (c["op"] == "&&" and val) or (c["op"] == "||" and not val):
            rs = [_says_open(f, x, val) for x in (l, r)]
            return True if True in rs else (False if False in rs else None)
        return False
    ops = None
    if c["k"] == "BinaryOperator":
        ops, op = f.children(c), c.get("op")
    elif c["k"] == "CXXOperatorCallExpr" and len(c["args"]) == 2:
        ops, op = [f.s(a) for a in c["args"]], c.get("op")
    if not ops or op not in (">", ">=", "<", "<=", "==", "!="):
        return False
    l, r = [unwrap(f, x) for x in ops]
    if l is not None and l["k"] == "IntegerLiteral":
        l, r = r, l
        op = {"<": ">", ">": "<", "<=": ">=", ">=": "<="}.get(op, op)
    if r is None or r["k"] != "IntegerLiteral":
        return False
    k = r.get("v")
    closed_when_true = (op == ">" and k == 0) or (op == ">=" and k == 1) or (op == "!=" and k == 0)
    open_when_true = (op == "<=" and k == 0) or (op == "<" and k == 1) or (op == "==" and k == 0)
    if closed_when_true:
        return not val
    if open_when_true:
        return val
    return False


def _memo_by_identity(ctx, f, cond):
    """the test compares a static / thread_local variable with a CONST data member of the latch (an identity the object
    keeps for life) - not with `this`, whose value the next object at the same address has too"""
    ds = [cond] + list(f.descendants(cond))
    statics = [d for d in ds if d["k"] == "DeclRefExpr" and d["d"].get("k") in ("static_local", "static_member", "global")]
    if any(d["k"] == "CXXThisExpr" and not any(m["k"] == "MemberExpr" and m.get("base") == d["id"] for m in ds) for d in ds):
        return False
    consts = []
    for d in ds:
        if d["k"] == "MemberExpr" and d["m"].get("is_field"):
            for r_ in ctx.fb.records(tmpl=CLS):
                fl = r_.field(d["m"]["name"])
                if fl is not None and (fl.get("const") or fl["type"].startswith("const ")):
                    consts.append(d)
    return bool(statics) and bool(consts)


def exit_rule(ctx, rid="C10.exit"):
    """wait() returns only on an OBSERVATION that the count has been reached: every path from its entry to a return
    passes a test of counter_ whose outcome says 'not above zero' (the unlocked fast path, the loop condition, or a
    predicate wait on counter_).  A shortcut that returns on anything else - a cached answer, a flag of another object,
    a time-out - lets a waiter through a closed latch."""
    from ..flow import paths, path_positions, TooManyPaths
    from ..cv import predicate_lambda
    ctx.rule(rid, "every return of wait() follows an observation of counter_ <= 0", floor=1)
    n = 0
    for f in ctx.fb.functions(rec=CLS, name="wait"):
        n += 1
        try:
            ps = paths(f)
        except TooManyPaths:
            ctx.unknown("%s: too many paths in %s" % (rid, f.label))
            continue
        bad = None
        for p in ps:
            if p[-1][0] != f.exit:
                continue
            seen = False
            last_branch = None
            for kind, pos, val in path_positions(f, p):
                if kind == "branch":
                    cond = f.s(f.blocks[pos[0]].term.get("cond"))
                    r = _says_open(f, cond, val) if cond is not None else None
                    if r is True:
                        seen = True
                    elif r is False:
                        seen = False        # a later look at the counter that says 'still counting' overrides
                    last_branch = cond if cond is not None else last_branch
                elif kind == "elem":
                    e = f.elem(pos)
                    if e["k"] == "S":
                        st = f.stmts[e["s"]]
                        if st["k"] == "CXXMemberCallExpr" and st["callee"]["name"] == "wait" and len(st["args"]) >= 2 and \
                                path(f, f.s(st["obj"])) == "this.cv":
                            g = predicate_lambda(ctx, f, st)
                            rets = [s for s in g.stmts.values() if s["k"] == "ReturnStmt"] if g is not None else []
                            if len(rets) == 1 and _says_open(g, g.children(rets[0])[0], True) is True:
                                seen = True
            if not seen:
                if last_branch is not None and _memo_by_identity(ctx, f, last_branch):
                    ctx.unknown("%s: wait() returns at %s on a remembered answer keyed by a constant member of the latch; whether that "
                                "key is never reused (so that the memory can only come from THIS latch having been seen open) is a "
                                "value property these rules do not decide" % (rid, f.loc(last_branch)))
                    continue
                bad = "a path returns without having seen counter_ <= 0 (last test on it: %s)" % (
                    f.loc(last_branch) if last_branch is not None else "none")
                break
        ctx.ob(rid, bad is None, f.where, "wait() returns only after it has observed the count reached", bad or "",
               fn=f.label, inst=f.qname)
    if n == 0:
        ctx.broken("Latch::wait not found (anchor vanished)")


def nonblock(ctx):
    rid = "C10.nonblock"
    ctx.rule(rid, "arrive never waits (no condition wait, no loop); arrive_and_wait is arrive() then wait()", floor=1)
    fb = ctx.fb
    for f in fb.functions(rec=CLS, name="arrive"):
        waits = [st for st in f.stmts.values() if st["k"] == "CXXMemberCallExpr" and
                 st["callee"]["name"] in ("wait", "wait_for", "wait_until", "sleep_for", "yield", "join", "get")]
        ok = not waits and not f.loops()
        ctx.ob(rid, ok, f.where, "arrive contains no wait and no loop", "" if ok else "waits/loops present",
               fn=f.label, inst=f.qname)
    for f in fb.functions(rec=CLS, name="arrive_and_wait"):
        calls = [st for st in f.stmts.values() if st["k"] == "CXXMemberCallExpr" and path(f, f.s(st["obj"])) == "this"]
        calls.sort(key=lambda s: (-(f.pos_of(s)[0]), f.pos_of(s)[1]))
        names = [c["callee"]["name"] for c in calls]
        ok = names == ["arrive", "wait"] and f.dominates(f.pos_of(calls[0]), f.pos_of(calls[1]))
        if not ok:
            # written out instead of composed: one arrival (a decrement of counter_, or arrive()), and after it a wait for
            # the latch (wait(), or a condition wait of its own - whose discipline C10.cv / C10.wake judge)
            arr = [c for c in calls if c["callee"]["name"] == "arrive"] + \
                  [op["st"] for op in atomic_ops(f) if atomic_field_of(f, op) == (CLS, "counter_") and op["op"] in ("rmw", "cas")]
            wts = [c for c in calls if c["callee"]["name"] == "wait"] + \
                  [st for st in f.stmts.values() if st["k"] == "CXXMemberCallExpr" and st["callee"]["name"] in ("wait", "wait_for", "wait_until")
                   and path(f, f.s(st["obj"])) == "this.cv"]
            ok = len(arr) == 1 and bool(wts) and all(f.pos_of(arr[0]) and f.pos_of(w) and f.dominates(f.pos_of(arr[0]), f.pos_of(w)) for w in wts)
            names = names + ["(arrivals: %d, waits: %d)" % (len(arr), len(wts))]
        ctx.ob(rid, ok, f.where, "arrive_and_wait counts one arrival and then waits for the latch", "" if ok else "calls: %s" % names,
               fn=f.label, inst=f.qname)
