"""C17 - SearchableObjectHolder is an atomic, memory-safe name-to-object map."""
import re

from ..engine import CALLS, CTORS, callee_fq, path, unwrap
from ..flow import cond_atoms, path_positions, paths, TooManyPaths
from ..guards import check_guarded_fields
from . import c13
from .. import common

EXPLANATION = (
    "Decided on every instantiated member of SearchableObjectHolder: [C17.guard] lockset rule: every access to "
    "objectMap/typeMap (including inside the lambdas handed to find_if, analysed at their call) happens with "
    "mapLock held by a blocking RAII lock, so operations are atomic with respect to each other; [C17.iter] "
    "iterator typestate: no map iterator is used after being passed to erase() (all paths); [C17.value] results "
    "leave only by value as bool / shared_ptr / vector<shared_ptr> (no reference, pointer or iterator into the "
    "maps escapes, so a returned object survives a concurrent removal); [C17.pair] on every path of both "
    "removeObject overloads that erases an objectMap entry, the typeMap entry of the same key is looked up and "
    "erased; addObject inserts with emplace (never replaces) and returns its .second; copyObject inserts the "
    "same shared_ptr and only touches typeMap when the insertion happened. Not decided: equivalence with a "
    "reference map over all call sequences.")
ASSUMPTIONS = ["std::map::erase(iterator) invalidates exactly that iterator; emplace invalidates nothing",
               "user predicates passed to find/remove do not re-enter the holder (they run under mapLock)"]

CLS = "gmlc::concurrency::SearchableObjectHolder"


def run(ctx):
    ctx.rule("C17.guard", "A3: objectMap and typeMap are only touched with mapLock held (blocking RAII)", floor=15)
    ctx.step(check_guarded_fields, ctx, "C17.guard", CLS)
    fns = [f for f in ctx.fb.functions() if f.file.endswith("/SearchableObjectHolder.hpp")]
    ctx.step(c13.uaf, ctx, "C17.iter", fns, floor=10)
    ctx.step(common.find_results_checked, ctx, "C17.lookup", fns, floor=6)
    ctx.step(common.no_repeated_moves, ctx, "C17.moves", fns, floor=1)
    ctx.step(value, ctx)
    ctx.step(source, ctx)
    ctx.step(copies, ctx)
    ctx.step(node_handles, ctx)
    ctx.step(addtype, ctx)
    ctx.step(own_tags, ctx)
    ctx.step(byref, ctx)
    ctx.step(pair, ctx)
    ctx.step(common.generic_witnesses, ctx, "C17.generic", ["C17"])
    ctx.step(common.raii_only, ctx, "C17.raii", ["SearchableObjectHolder.hpp"], floor=10)
    if ctx.tier == "thorough":
        ctx.step(cppcheck_xref, ctx)


def value(ctx):
    rid = "C17.value"
    ctx.rule(rid, "public operations return bool / shared_ptr / vector by value: nothing pointing into the maps escapes",
             floor=5)
    for f in ctx.fb.functions(rec=CLS):
        if f.access != "public" or f.kind in ("ctor", "dtor"):
            continue
        rt = f.ret
        # by value, and the value holds nothing that points into the maps: no reference, raw pointer, iterator or
        # reference_wrapper anywhere in the type (strings, counts, shared_ptr and containers of those are values)
        ok = not (rt.endswith("&") or rt.endswith("*")) and not re.search(r"iterator|reference_wrapper|\*|&", rt)
        ctx.ob(rid, ok, f.where, "%s returns a self-contained value (nothing pointing into the maps)" % f.name,
               "" if ok else "returns " + rt, fn=f.label, inst=f.qname)


def source(ctx):
    """find* return what the map holds NOW: the returned shared_ptr is read out of objectMap in this very call (or is
    null), never out of another member that remembers an earlier answer"""
    rid = "C17.source"
    ctx.rule(rid, "a shared_ptr returned by a lookup is copied from an objectMap element in the same critical section", floor=3)
    for f in ctx.fb.functions(rec=CLS):
        if f.access != "public" or not f.ret.startswith("std::shared_ptr<"):
            continue
        for r in [s_ for s_ in f.stmts.values() if s_["k"] == "ReturnStmt"]:
            ch = f.children(r)
            if not ch:
                continue
            work, seen, bad = [ch[0]], set(), None
            while work:
                e = work.pop()
                for d in f.descendants(e):
                    if d["k"] == "MemberExpr" and d["m"].get("is_field") and d["m"].get("rec") == CLS and \
                            d["m"]["name"] != "objectMap" and path(f, f.s(d["base"])) == "this" and \
                            "shared_ptr<" in d.get("t", ""):       # only a member that can hold such a pointer
                        bad = d
                    if d["k"] == "DeclRefExpr" and d["d"].get("k") == "local" and d["d"]["id"] not in seen:
                        seen.add(d["d"]["id"])
                        for s_ in f.stmts.values():
                            if s_["k"] == "DeclStmt":
                                for dd in s_["decls"]:
                                    if dd["id"] == d["d"]["id"] and dd.get("init") and dd["type"].startswith("std::shared_ptr<"):
                                        work.append(f.s(dd["init"]))
            ctx.ob(rid, bad is None, f.loc(r), "%s returns an object taken from objectMap (or null)" % f.name,
                   "" if bad is None else "the returned pointer comes from member '%s': an answer remembered outside the map "
                   "survives the entry's removal / replacement" % bad["m"]["name"], fn=f.label, inst=f.qname)


def copies(ctx):
    """the value-semantic results are COPIED out of the map inside the critical section: a shared_ptr copy-constructed
    from anything but a local value (a map element reached through an iterator, a reference a helper returned) is made
    with mapLock held - made later, it reads a map node that a concurrent removeObject may already have destroyed"""
    from ..guards import class_functions, locks_of
    rid = "C17.copy"
    ctx.rule(rid, "every shared_ptr copied out of map storage is copied while mapLock is held", floor=3)
    for f, top in class_functions(ctx.fb, CLS):
        la = None
        for st in f.stmts.values():
            if st["k"] not in CTORS or len(st.get("args", [])) != 1:
                continue
            t = st.get("t", "")
            pts = (st.get("callee") or {}).get("params", [])
            if not re.match(r"^(const )?std::shared_ptr<", t) or not pts or \
                    not re.match(r"^const std::shared_ptr<.*> ?&$", pts[0]):
                continue
            a = unwrap(f, f.s(st["args"][0]))
            if a is None:
                continue
            if a["k"] == "DeclRefExpr":
                d = a["d"]
                if d.get("k") in ("local", "param") and not d.get("ref") and not d.get("inl_ret"):
                    continue            # copy of a local value
                if d.get("k") == "param" and f.access == "public" and not f.is_lambda:
                    continue            # the caller's object
                if d.get("inl_ret") and not d.get("ref"):
                    continue            # helper result returned by value: it was copied inside the helper
            pos = f.pos_of(st)
            if pos is None:
                continue
            la = la or locks_of(ctx.eng, ctx.fb, f)
            ok = la.holds(pos, "this.mapLock", "S")
            ctx.ob(rid, ok, f.loc(st), "%s copies the stored shared_ptr under mapLock" % top.name,
                   "" if ok else "the copy is made after mapLock was released (source: %s): a concurrent removeObject can destroy the "
                   "map node, and with it the shared_ptr being copied, in between" % (path(f, a) or a["k"]), fn=f.label, inst=f.qname)


def node_handles(ctx, rid="C17.extract"):
    """an entry that is taken out of a map with extract() lives only in the node handle: inserting the handle can FAIL
    (the key is taken), and a failed insert hands the node back in insert_return_type::node - if that is dropped, the
    stored object and its name are gone although the operation reports failure"""
    ctx.rule(rid, "a node extracted from objectMap / typeMap is not lost when its re-insertion is refused", floor=0)
    for f in ctx.fb.functions(rec=CLS):
        ex = [st for st in _map_calls(f, "objectMap") if (st.get("callee") or {}).get("name") == "extract"] + \
             [st for st in _map_calls(f, "typeMap") if (st.get("callee") or {}).get("name") == "extract"]
        if not ex:
            continue
        ins = [st for st in list(_map_calls(f, "objectMap")) + list(_map_calls(f, "typeMap"))
               if (st.get("callee") or {}).get("name") == "insert" and "node_handle" in " ".join((st.get("callee") or {}).get("params", []))
               or ((st.get("callee") or {}).get("name") == "insert" and "insert_return_type" in st.get("t", "") + (st.get("callee") or {}).get("ret", ""))]
        tested = [st for st in f.stmts.values() if st["k"] == "MemberExpr" and st["m"].get("name") == "inserted"]
        handed_back = [st for st in f.stmts.values() if st["k"] == "MemberExpr" and st["m"].get("name") == "node"]
        prechecked = [st for st in list(_map_calls(f, "objectMap")) if (st.get("callee") or {}).get("name") in ("find", "count", "contains")
                      and f.pos_of(st) and f.pos_of(ex[0]) and f.dominates(tuple(f.pos_of(st)), tuple(f.pos_of(ex[0])))]
        ok = bool(handed_back) or bool(prechecked) or not (ins or tested)
        ctx.ob(rid, ok, f.loc(ex[0]), "%s cannot lose the entry it extracted" % f.name, "" if ok else
               "the node extracted here is re-inserted with insert(node_handle); when the key is already present the insertion is "
               "refused and the node (the stored object and its name) dies with the returned insert_return_type - the function "
               "neither checks the new key before extracting nor takes the node back from .node", fn=f.label, inst=f.qname)


def byref(ctx):
    """a user predicate is applied to the stored shared_ptr itself: the closures the holder hands to the std algorithms
    take the map entry by reference (a by-value entry is a copy - its use_count and address differ from the stored one)"""
    rid = "C17.byref"
    ctx.rule(rid, "closures used to scan objectMap take the entry by reference", floor=2)
    n = 0
    for g in ctx.fb.functions():
        if not g.is_lambda or not g.file.endswith("/SearchableObjectHolder.hpp") or not g.params:
            continue
        t = g.params[0].get("type", "")
        if "std::pair<" not in t:
            continue
        n += 1
        ok = t.rstrip().endswith("&")
        ctx.ob(rid, ok, g.where, "the scanning closure receives the map entry by reference",
               "" if ok else "its parameter is %s: the predicate is shown a temporary copy of the entry (one more owner, another "
               "address), not the stored object" % t[-80:], fn=g.label, inst=g.qname)
    if n == 0:
        ctx.broken("no closure over map entries found in SearchableObjectHolder.hpp (anchor vanished)")


def addtype(ctx):
    """addType() tags a stored object whether or not it already has tags: it must be able to CREATE the tag entry"""
    rid = "C17.addtype"
    ctx.rule(rid, "addType can create the tag list of a name that has none yet", floor=1)
    fs = list(ctx.fb.functions(rec=CLS, name="addType"))
    if not fs:
        ctx.broken("SearchableObjectHolder::addType not instantiated")
    for f in fs:
        creating = [st for st in _map_calls(f, "typeMap") if
                    (st["k"] == "CXXOperatorCallExpr" and st.get("op") == "[]") or
                    (st["k"] == "CXXMemberCallExpr" and st["callee"]["name"] in ("emplace", "try_emplace", "insert", "insert_or_assign", "emplace_hint"))]
        ctx.ob(rid, bool(creating), f.where, "addType reaches an inserting access to typeMap (operator[], emplace, insert)",
               "" if creating else "typeMap is only searched: an object stored without tags (two-argument addObject, a copy, a "
               "re-added name) can never be tagged", fn=f.label, inst=f.qname)


def _template_args(t):
    """top-level template arguments of a type string"""
    i = t.find("<")
    if i < 0 or not t.rstrip().endswith(">"):
        return []
    out, depth, cur = [], 0, ""
    for ch in t[i + 1:t.rstrip().rfind(">")]:
        if ch == "<":
            depth += 1
        elif ch == ">":
            depth -= 1
        if ch == "," and depth == 0:
            out.append(cur.strip())
            cur = ""
        else:
            cur += ch
    if cur.strip():
        out.append(cur.strip())
    return out


def own_tags(ctx, rid="C17.own-tags"):
    """a copy made by copyObject carries the tags the source had AT THAT MOMENT: later addType() calls on either name
    tag that name only.  With tag lists held by value in the map that is so by construction; once the map holds them
    through a pointer (shared_ptr, raw pointer), copyObject must allocate a list of its own for the new name, or every
    writer must un-share before it writes (use_count()/unique() test)."""
    ctx.rule(rid, "every name owns its tag list: copyObject does not make two names share one mutable list", floor=0)
    fb = ctx.fb
    pointerish = None
    for r in fb.records(tmpl=CLS):
        fl = r.field("typeMap")
        if fl is None:
            ctx.broken("SearchableObjectHolder::typeMap not found (anchor vanished)")
        targs = _template_args(fl["type"])
        mapped = targs[1] if len(targs) > 1 else fl["type"]
        pointerish = bool(re.match(r"^(std::shared_ptr<|std::unique_ptr<)", mapped)) or mapped.rstrip().endswith("*")
        pointee = (_template_args(mapped) or [mapped.rstrip(" *")])[0] if pointerish else mapped
        ctx.ob(rid, True, "%s:%d" % (r.file.split("/gmlc/")[-1] if "/gmlc/" in r.file else r.file, fl.get("line", r.line)),
               "tag lists are held %s" % ("through a pointer: sharing is judged below" if pointerish else "by value: a copy is a copy"),
               inst=r.qname)
    if not pointerish:
        return
    for f in fb.functions(rec=CLS, name="copyObject"):
        for st in _map_calls(f, "typeMap"):
            if st["k"] != "CXXMemberCallExpr" or st["callee"]["name"] not in NON_REPLACING + ("insert_or_assign",) or not st["args"]:
                continue
            v = unwrap(f, f.s(st["args"][-1]))
            fresh = v is not None and (v["k"] == "CXXNewExpr" or (v["k"] == "CallExpr" and callee_fq(v) in ("std::make_shared", "std::make_unique"))
                                       or any(d["k"] == "CXXNewExpr" or (d["k"] == "CallExpr" and callee_fq(d) in ("std::make_shared", "std::make_unique"))
                                              for d in f.descendants(v)))
            if fresh:
                ctx.ob(rid, True, f.loc(st), "copyObject allocates a tag list of its own for the new name", "", fn=f.label, inst=f.qname)
                continue
            # the pointer itself is copied: every writer has to un-share first
            writers = []
            for g in fb.functions(rec=CLS):
                if g.kind in ("ctor", "dtor"):
                    continue
                if not any(s["k"] == "MemberExpr" and s["m"].get("is_field") and s["m"]["name"] == "typeMap" for s in g.stmts.values()):
                    continue
                # a tag list is the only object of that vector type the class handles
                muts = [s for s in g.stmts.values() if s["k"] == "CXXMemberCallExpr" and
                        s["callee"]["name"] in ("push_back", "emplace_back", "insert", "erase", "clear", "pop_back", "assign", "resize") and
                        (g.s(s.get("obj")) or {}).get("t", "").replace("const ", "").rstrip(" *&") == pointee]
                if muts and not any(s["k"] == "CXXMemberCallExpr" and s["callee"]["name"] in ("use_count", "unique") for s in g.stmts.values()):
                    writers.append((g, muts[0]))
            if writers:
                g, s = writers[0]
                ctx.ob(rid, False, f.loc(st), "copyObject gives the new name a tag list of its own (or writers un-share before writing)",
                       "the pointer to the source's list is filed under the new name and %s writes through it at %s without testing "
                       "whether the list is shared: a tag added to one name appears on every copy" % (g.name, g.loc(s)),
                       fn=f.label, inst=f.qname)
            else:
                ctx.unknown("%s: copyObject shares the tag list between names and the writers test use_count()/unique(); whether that "
                            "copy-on-write is complete is not decided" % rid)


def _map_calls(f, mapname):
    for st in f.stmts.values():
        if st["k"] in ("CXXMemberCallExpr",) and path(f, f.s(st["obj"])) == "this." + mapname:
            yield st
        elif st["k"] == "CXXOperatorCallExpr" and st.get("op") == "[]" and st["args"] and \
                path(f, f.s(st["args"][0])) == "this." + mapname:
            yield st


def pair(ctx):
    rid = "C17.pair"
    ctx.rule(rid, "removal erases the object entry together with the tag entry of the same key; addObject never "
             "replaces; copyObject aliases the same pointer and touches tags only when it inserted", floor=8)
    fb = ctx.fb
    for f in fb.functions(rec=CLS, name="removeObject"):
        try:
            ps = paths(f)
        except TooManyPaths:
            ctx.broken("too many paths in " + f.label)
        oer = {tuple(f.pos_of(st)): st for st in _map_calls(f, "objectMap") if st["callee"]["name"] == "erase"}
        tfind = {tuple(f.pos_of(st)): st for st in _map_calls(f, "typeMap") if st["callee"]["name"] == "find"}
        ter = {tuple(f.pos_of(st)): st for st in _map_calls(f, "typeMap") if st["callee"]["name"] == "erase"}
        if not oer:
            ctx.ob(rid, False, f.where, "removeObject erases from objectMap", "no objectMap.erase call", fn=f.label, inst=f.qname)
            continue
        n_paths = 0
        for p in ps:
            ev = [(kind, tuple(pos), val) for kind, pos, val in path_positions(f, p)]
            er = [pos for kind, pos, _ in ev if kind == "elem" and pos in oer]
            if not er:
                continue
            est = oer[er[0]]
            it = _iter_arg(f, est)
            if _erased_nothing(f, est, ev):
                continue        # erase(key) reported 0 on this path: nothing was removed, nothing to pair
            n_paths += 1
            finds = [tfind[pos] for kind, pos, _ in ev if kind == "elem" and pos in tfind]
            keys = [path(f, f.s(s["args"][0])) for s in finds]
            want = set()
            if it:
                want.add(it + "->first")
                want.add(it)        # erase(key): the tag entry is erased / looked up with the same key expression
                # key the iterator was looked up with
                for st in _map_calls(f, "objectMap"):
                    if st["callee"]["name"] == "find":
                        want.add(path(f, f.s(st["args"][0])))
            by_key = any(kind == "elem" and pos in ter and _iter_arg(f, ter[pos]) in want for kind, pos, _ in ev)
            ok = by_key or any(k in want for k in keys)
            ctx.ob(rid, ok, f.loc(est), "path erasing an objectMap entry looks up the typeMap entry of the same key",
                   "" if ok else "typeMap.find keys on this path: %s, expected one of %s" % (keys, sorted(x for x in want if x)),
                   fn=f.label, inst=f.qname)
            # if the lookup succeeded on this path, the tag entry is erased
            found_var = None
            for s in finds:
                par = f.par(s)
                while par is not None and par["k"] != "DeclStmt":
                    par = f.par(par)
                if par is not None:
                    found_var = "l:" + par["decls"][0]["name"]
            hit = False
            for kind, pos, val in ev:
                if kind == "branch":
                    blk = f.blocks[pos[0]]
                    for a in cond_atoms(f, f.s(blk.term.get("cond")), val):
                        if found_var and a[0] == "eq" and found_var in (a[1], a[2]) and a[3] is False:
                            hit = True
            if hit:
                ok = any(kind == "elem" and pos in ter and _iter_arg(f, ter[pos]) == found_var for kind, pos, _ in ev)
                ctx.ob(rid, ok, f.loc(est), "when the tag entry exists it is erased on the same path",
                       "" if ok else "typeMap entry found but not erased", fn=f.label, inst=f.qname)
        ctx.ob(rid, n_paths > 0, f.where, "removeObject has a path that erases", "", fn=f.label, inst=f.qname)
    for f in fb.functions(rec=CLS, name="addObject"):
        calls = list(_map_calls(f, "objectMap"))
        names = sorted({(s.get("callee") or {}).get("name", "[]") for s in calls})
        ok = bool(names) and set(names) <= set(NON_REPLACING)
        ctx.ob(rid, ok, f.where, "addObject inserts with a non-replacing insertion only (an existing name is never replaced)",
               "" if ok else "objectMap operations: %s" % names, fn=f.label, inst=f.qname)
        rets = [s for s in f.stmts.values() if s["k"] == "ReturnStmt"]
        ok = bool(rets) and all(_is_second_of_emplace(f, f.children(r)[0]) for r in rets)
        ctx.ob(rid, ok, f.where, "addObject returns whether the insertion happened (.second of emplace)",
               "" if ok else "a return does not report emplace().second", fn=f.label, inst=f.qname)
    for f in fb.functions(rec=CLS, name="copyObject"):
        try:
            ps = paths(f)
        except TooManyPaths:
            ctx.broken("too many paths in " + f.label)
        tm = {tuple(f.pos_of(st)): st for st in _map_calls(f, "typeMap")
              if (st.get("callee") or {}).get("name") in ("emplace", "insert", "erase", "operator[]", "insert_or_assign", "clear")}
        om = [st for st in _map_calls(f, "objectMap") if (st.get("callee") or {}).get("name") not in ("find", "end") + NON_REPLACING]
        ctx.ob(rid, not om, f.where, "copyObject inserts with emplace only", "" if not om else
               "objectMap.%s" % om[0]["callee"]["name"], fn=f.label, inst=f.qname)
        for p in ps:
            ev = [(kind, tuple(pos), val) for kind, pos, val in path_positions(f, p)]
            if not any(kind == "elem" and pos in tm for kind, pos, _ in ev):
                continue
            inserted = False
            for kind, pos, val in ev:
                if kind == "branch":
                    blk = f.blocks[pos[0]]
                    for a in cond_atoms(f, f.s(blk.term.get("cond")), val):
                        if a[0] == "truth" and a[1] and a[1].endswith(".second") and a[3] is True:
                            inserted = True
                if kind == "elem" and pos in tm and not inserted:
                    ctx.ob(rid, False, f.loc(tm[pos]), "copyObject touches typeMap only when the new name was inserted",
                           "typeMap is modified on a path where emplace().second is not known true (a refused copy "
                           "re-tags an unrelated object)", fn=f.label, inst=f.qname)
                    break
            else:
                ctx.ob(rid, True, f.where, "copyObject touches typeMap only when the new name was inserted", "",
                       fn=f.label, inst=f.qname)


NON_REPLACING = ("emplace", "try_emplace", "insert", "emplace_hint")     # std::map: all keep an existing element


def _erased_nothing(f, est, ev):
    """erase(key) returns the number of elements removed: True on a path that branched on that number being zero"""
    for kind, pos, val in ev:
        if kind != "branch":
            continue
        cond = f.s(f.blocks[pos[0]].term.get("cond"))
        if cond is None or not any(d["id"] == est["id"] for d in [cond] + list(f.descendants(cond))):
            continue
        c = unwrap(f, cond)
        neg = False
        while c is not None and c["k"] == "UnaryOperator" and c.get("op") == "!":
            neg = not neg
            c = unwrap(f, f.children(c)[0])
        if c is None:
            return False
        if c["k"] == "BinaryOperator" and c.get("op") in ("==", "!=", ">", "<", ">=", "<="):
            l, r = [unwrap(f, x) for x in f.children(c)]
            lit = r if (r is not None and r["k"] == "IntegerLiteral") else l if (l is not None and l["k"] == "IntegerLiteral") else None
            if lit is None:
                return False
            op, v = c["op"], lit.get("v")
            if lit is l:
                op = {"<": ">", ">": "<", "<=": ">=", ">=": "<="}.get(op, op)
            zero_when_true = (op == "==" and v == 0) or (op == "<" and v == 1) or (op == "<=" and v == 0)
            zero_when_false = (op == "!=" and v == 0) or (op == ">" and v == 0) or (op == ">=" and v == 1)
            if neg:
                zero_when_true, zero_when_false = zero_when_false, zero_when_true
            return (zero_when_true and val) or (zero_when_false and not val)
        # `if (objectMap.erase(name))` / `if (!objectMap.erase(name))`
        if c["id"] == est["id"] or any(d["id"] == est["id"] for d in f.descendants(c)):
            return (not val) != neg
    return False


def _iter_arg(f, call):
    a = unwrap(f, f.s(call["args"][0])) if call["args"] else None
    while a is not None and a["k"] in CTORS and len(a["args"]) == 1:
        a = unwrap(f, f.s(a["args"][0]))
    return path(f, a) if a is not None else None


def _is_second_of_emplace(f, e):
    e = unwrap(f, e)
    if e is None or e["k"] != "MemberExpr" or e["m"]["name"] != "second":
        return False
    b = unwrap(f, f.s(e["base"]))
    if b is None:
        return False
    if b["k"] == "DeclRefExpr":
        # variable initialised from objectMap.emplace(...)
        for st in f.stmts.values():
            if st["k"] == "DeclStmt":
                for d in st["decls"]:
                    if d["name"] == b["d"]["name"]:
                        init = unwrap(f, f.s(d.get("init")))
                        while init is not None and init["k"] in CTORS and len(init["args"]) == 1:
                            init = unwrap(f, f.s(init["args"][0]))
                        return init is not None and init["k"] == "CXXMemberCallExpr" and \
                            init["callee"]["name"] in NON_REPLACING and path(f, f.s(init["obj"])) == "this.objectMap"
    return False


def cppcheck_xref(ctx):
    """thorough tier cross-reference (not a deciding rule): cppcheck 2.10's own eraseDereference check over the same
    header must agree with C17.iter; a disagreement means one of the two engines is wrong => analysis broken"""
    import os
    import subprocess
    import tempfile
    from ..runner import REPO
    rid = "C17.xref"
    ctx.rule(rid, "cross-reference: cppcheck's eraseDereference agrees with the iterator typestate rule", floor=1)
    d = tempfile.mkdtemp(prefix="vcpp_", dir="/tmp")
    try:
        src = os.path.join(d, "soh.cpp")
        open(src, "w").write('#include "concurrency/SearchableObjectHolder.hpp"\n'
                             'template class gmlc::concurrency::SearchableObjectHolder<std::string, int>;\n')
        r = subprocess.run(["cppcheck", "--enable=warning", "--inconclusive", "--std=c++17", "-I", os.path.join(REPO, "gmlc"),
                            "--template={file}:{line}:{id}:{message}", src], stdout=subprocess.PIPE, stderr=subprocess.STDOUT, text=True)
        hits = [l for l in r.stdout.splitlines() if ":eraseDereference:" in l and "SearchableObjectHolder.hpp" in l]
    finally:
        import shutil
        shutil.rmtree(d, ignore_errors=True)
    mine = [o for o in ctx.obs if o["rule"] == "C17.iter" and not o["ok"]]
    if bool(hits) != bool(mine):
        ctx.broken("cppcheck and C17.iter disagree: cppcheck %s, C17.iter %s" % (hits[:2], [o["site"] for o in mine][:2]))
    ctx.ob(rid, True, "gmlc/concurrency/SearchableObjectHolder.hpp", "cppcheck eraseDereference: %d report(s); C17.iter: %d violation(s)"
           % (len(hits), len(mine)))
