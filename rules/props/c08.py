"""C08 - a handle is non-null exactly when it holds the lock, and releases it once."""
from ..guards import check_guarded_fields
from .. import common

EXPLANATION = (
    "Typestate analysis of the lock object along every return path of the six try helpers and of every "
    "acquisition method of all six lock-based wrappers (4 mutex types). Decided: [C08.typestate] helpers build "
    "the lock with the try_to_lock / duration / time-point constructor only and return the object pointer "
    "exactly on the branch refined to 'owned', nullptr otherwise; [C08.summary] each wrapper method returns "
    "(&m_obj, own mutex, held) or a null handle, try forms never block, blocking forms use the blocking "
    "constructor; [C08.unlock] unlock() nulls the pointer on all paths and releases iff owned; handles are "
    "move-only over standard lock types (moved-from is unowned, so the release happens exactly once); "
    "[C08.disabled] with locking disabled every acquisition builds the handle from &m_obj and a "
    "default-constructed lock and never names the mutex. Not decided: timing accuracy of timed locks.")
ASSUMPTIONS = ["std::unique_lock/std::shared_lock move leaves the source unowned; their destructors unlock iff owned",
               "timed mutex operations respect their time bound (standard library)"]

ALL = ["gmlc::libguarded::guarded", "gmlc::libguarded::guarded_opt", "gmlc::libguarded::shared_guarded",
       "gmlc::libguarded::shared_guarded_opt", "gmlc::libguarded::ordered_guarded",
       "gmlc::libguarded::deferred_guarded"]
OPT = ["gmlc::libguarded::guarded_opt", "gmlc::libguarded::shared_guarded_opt"]


def run(ctx):
    ctx.step(common.helper_summaries, ctx, "C08.typestate",
             ["try_lock_handle", "try_lock_handle_for", "try_lock_handle_until",
              "try_lock_shared_handle", "try_lock_shared_handle_for",
              "try_lock_shared_handle_until"], None)
    ctx.step(common.acquisition_summaries, ctx, "C08.summary", ALL, OPT)
    ctx.step(common.try_paths_nonblocking, ctx, "C08.nonblocking", ALL)
    ctx.step(common.unlock_rule, ctx, "C08.unlock", "gmlc::libguarded::lock_handle")
    ctx.step(common.unlock_rule, ctx, "C08.unlock", "gmlc::libguarded::shared_lock_handle")
    ctx.step(common.handle_rules, ctx, "C08.handle", "gmlc::libguarded::lock_handle", "unique")
    ctx.step(common.handle_rules, ctx, "C08.handle", "gmlc::libguarded::shared_lock_handle", "shared")
    ctx.rule("C08.disabled", "in guarded_opt / shared_guarded_opt the enabled==false arm builds the handle from "
             "&m_obj and a default-constructed lock and never references the mutex; the enabled arm is the locked form",
             floor=20)
    for cls in OPT:
        ctx.step(check_guarded_fields, ctx, "C08.disabled", cls, only_functions=common.ACQ_METHODS)
    ctx.step(common.witnesses, ctx, "C08.witness", ["C08"])
