"""C09 - Barrier releases a generation only when every participant has arrived."""
from ..engine import CALLS, path, unwrap, callee_fq
from ..cv import check_waits, cv_notifies, notify_follows, predicate_lambda, cv_waits
from ..guards import check_guarded_fields, field_refs, class_functions, effective_access, READ_KINDS
from .. import common

EXPLANATION = (
    "Condition-variable discipline and lockset analysis of Barrier::wait / wait_and_drop on every CFG path. "
    "Decided: [C09.guard] threshold_, count_, generation_ are only touched with mtx held (the wait predicates "
    "included, which run under the caller's lock); [C09.cv] both waits pass a unique_lock that owns mtx, are "
    "predicate-form, and the predicate reads generation_ only; [C09.epoch] the predicate compares generation_ "
    "with a value captured under the lock before the arrival is counted, and generation_ is only ever "
    "incremented (an epoch cannot be undone by threads lapping the waiter; waiting on the count can); "
    "[C09.wake] every write to generation_ is followed on every path by cv.notify_all() (all waiters); "
    "[C09.arrive] every arrival (decrement of count_) feeds the release test, whose true branch bumps the "
    "generation, resets count_ from threshold_ and notifies; in wait_and_drop the decrement of threshold_ "
    "dominates that test and the reset. These are the hypotheses of the no-lost-wake-up argument; the "
    "arithmetic over runtime arrival counts is not decided.")
ASSUMPTIONS = ["std::condition_variable::wait(lock, pred) re-evaluates pred under the lock after every wake-up"]

CLS = "gmlc::concurrency::Barrier"


def run(ctx):
    ctx.rule("C09.guard", "A3: threshold_, count_, generation_ only under mtx", floor=6)
    ctx.step(check_guarded_fields, ctx, "C09.guard", CLS)
    ctx.rule("C09.cv", "waits: lock owns mtx, predicate-form, predicate reads generation_ only", floor=2)
    ws = ctx.step(check_waits, ctx, "C09.cv", CLS, "cv", "mtx", ["generation_"]) or []
    ctx.step(epoch, ctx, ws)
    ctx.step(wake, ctx)
    ctx.step(arrive, ctx)
    ctx.step(common.raii_only, ctx, "C09.raii", ["Barrier.hpp"], floor=2)
    ctx.step(initial, ctx)
    ctx.step(participants, ctx)


def participants(ctx):
    """count_ is "arrivals still missing in this generation", threshold_ "arrivals per generation": whoever changes the
    number of participants changes both, on every path - otherwise the running generation is released by the wrong
    number of arrivals (too early: somebody is let through before everybody arrived; too late: it never opens)"""
    from ..guards import effective_access
    rid = "C09.participants"
    ctx.rule(rid, "an operation that changes threshold_ adjusts count_ on every path as well", floor=1)
    for f, top in class_functions(ctx.fb, CLS):
        if top.kind in ("ctor", "dtor") or f.is_lambda:
            continue
        def writes(field):
            out = []
            for st in field_refs(f, CLS):
                if st["m"]["name"] == field and effective_access(ctx.eng, f, st)[0] not in READ_KINDS and f.pos_of(st):
                    out.append(st)
            return out
        tw = writes("threshold_")
        if not tw:
            continue
        cw = [tuple(f.pos_of(s)) for s in writes("count_")]
        for w in tw:
            wp = tuple(f.pos_of(w))
            ok = bool(cw) and (any(f.dominates(c, wp) for c in cw) or not f.exits_avoiding(wp, cw))
            ctx.ob(rid, ok, f.loc(w), "%s changes threshold_ and count_ together" % top.name,
                   "" if ok else "a path changes the number of participants without adjusting the arrivals still missing in the "
                   "running generation: that generation is completed by the wrong number of arrivals", fn=top.label, inst=f.qname)


def _writes(f, field):
    out = []
    for st in field_refs(f, CLS):
        if st["m"]["name"] != field:
            continue
        from ..guards import effective_access
        return_kind = None
    return out


def field_writes(ctx, f, field):
    """(stmt of the write, kind '++' '--' '=' ...)"""
    out = []
    for st in f.stmts.values():
        k = st["k"]
        if k == "UnaryOperator" and st["op"] in ("++", "--") and path(f, f.children(st)[0]) == "this." + field:
            out.append((st, st["op"]))
        elif k in ("BinaryOperator", "CompoundAssignOperator") and (st["op"] == "=" or k == "CompoundAssignOperator") \
                and path(f, f.children(st)[0]) == "this." + field:
            out.append((st, st["op"]))
    return out


def _callers(ctx, g):
    """(caller function, call stmt) of member function g on this, inside the class"""
    out = []
    for f, top in class_functions(ctx.fb, CLS):
        for st in f.stmts.values():
            if st["k"] == "CXXMemberCallExpr" and (st.get("callee") or {}).get("id") == g.id and path(f, f.s(st["obj"])) == "this":
                out.append((f, st))
    return out


def _arrival_points(ctx, f):
    """positions in f at which this thread's arrival is counted: a decrement of count_, or a call of a
    class member that (directly) decrements it"""
    pts = [(s, "dec") for s, op in field_writes(ctx, f, "count_") if op != "="]
    for st in f.stmts.values():
        if st["k"] == "CXXMemberCallExpr" and path(f, f.s(st["obj"])) == "this":
            g = ctx.fb.callee_fn(f, st)
            if g is not None and g.rec == CLS and any(op != "=" for _s, op in field_writes(ctx, g, "count_")):
                pts.append((st, "call"))
    return pts


def epoch(ctx, ws):
    rid = "C09.epoch"
    ctx.rule(rid, "the wait predicate is (captured generation != generation_), the capture happens under the lock "
             "before the arrival is counted, and generation_ is only ever incremented", floor=3)
    fb = ctx.fb
    kinds = []
    for f, top in class_functions(fb, CLS):
        if top.kind in ("ctor", "dtor"):
            continue
        for st, op in field_writes(ctx, f, "generation_"):
            kinds.append((f, st, op))
    if not kinds:
        ctx.broken("no write to Barrier::generation_ (the epoch field vanished)")
    ok = all(op == "++" for _f, _s, op in kinds)
    ctx.ob(rid, ok, kinds[0][0].loc(kinds[0][1]), "generation_ is modified by increments only (a released generation is never undone)",
           "" if ok else "modifications: %s" % [(f.loc(s), op) for f, s, op in kinds])
    for f, top, st in ws:
        g = predicate_lambda(ctx, f, st)
        if g is None:
            continue
        rets = [s for s in g.stmts.values() if s["k"] == "ReturnStmt"]
        ok = False
        cap = None
        if len(rets) == 1:
            e = unwrap(g, g.children(rets[0])[0])
            if e is not None and e["k"] == "BinaryOperator" and e["op"] in ("!=", "<", ">"):
                l, r = [path(g, x) for x in g.children(e)]
                if "this.generation_" in (l, r):
                    cap = r if l == "this.generation_" else l
                    ok = cap is not None and (cap.startswith("l:") or cap.startswith("p:"))
                    if ok and e["op"] != "!=":
                        # an ordering comparison ("my epoch is older") is as good as != for a counter that cannot wrap
                        # within a program's lifetime; on a narrow counter it fails at the wrap-around, != does not
                        right_way = (e["op"] == "<" and r == "this.generation_") or (e["op"] == ">" and l == "this.generation_")
                        wide = False
                        for r_ in fb.records(tmpl=CLS):
                            fl = r_.field("generation_")
                            wide = fl is not None and fl["type"] in ("unsigned long", "unsigned long long", "std::size_t", "size_t",
                                                                     "std::uint64_t", "uint64_t")
                        ok = right_way and wide
        ctx.ob(rid, ok, f.loc(st), "predicate is (captured value != generation_)",
               "" if ok else "the predicate is not an epoch comparison: it can be made false again by threads that lap the waiter",
               fn=top.label, inst=f.qname)
        if not ok:
            continue
        # an init-capture `[this, lGen = generation_]` reads the epoch when the closure is built - at the wait call, inside
        # the critical section that counted the arrival as long as nothing released the lock in between
        init_cap = None
        for s_ in f.stmts.values():
            if s_["k"] == "LambdaExpr" and g.id in s_.get("call_ops", []):
                for c_ in s_.get("caps", []):
                    v_ = c_.get("var") or {}
                    if ("l:" + v_.get("name", "") == cap or "p:" + v_.get("name", "") == cap) and c_.get("init") and \
                            path(f, f.s(c_["init"])) == "this.generation_" and v_.get("k") != "param":
                        init_cap = s_
        if init_cap is not None and f.pos_of(init_cap):
            q = tuple(f.pos_of(init_cap))
            pts = _arrival_points(ctx, f)
            rel = [tuple(f.pos_of(x)) for x in f.stmts.values() if x["k"] == "CXXMemberCallExpr" and f.pos_of(x) and
                   (x.get("callee") or {}).get("name") in ("unlock", "wait", "wait_for", "wait_until") and x["id"] != st["id"]]
            ok = bool(pts) and all(
                (f.dominates(q, tuple(f.pos_of(p_))) and q != tuple(f.pos_of(p_))) or
                (f.dominates(tuple(f.pos_of(p_)), q) and not any(f.reach_avoiding(tuple(f.pos_of(p_)), r_, []) and f.reach_avoiding(r_, q, [])
                                                                   for r_ in rel))
                for p_, _k in pts)
            ctx.ob(rid, ok, f.loc(init_cap), "the generation is captured (under the lock) before this arrival is counted, or in the same "
                   "critical section before the wait gives the lock up", "" if ok else
                   "the epoch is read after the lock was released once since the arrival: the generation may already have moved on, "
                   "and the waiter then waits for the next one", fn=top.label, inst=f.qname)
            continue
        # where the captured value comes from: a local of this function, or (private helper) of each caller
        sites = []
        if cap.startswith("p:"):
            # the closure may have been created inside an inlined helper: its capture is then a local of this function
            nm = cap[2:]
            for s_ in f.stmts.values():
                if s_["k"] == "LambdaExpr" and g.id in s_.get("call_ops", []):
                    for c_ in s_.get("caps", []):
                        v_ = c_.get("var") or {}
                        if v_.get("k") == "local" and (v_.get("name") == nm or v_.get("name", "").endswith("$" + nm)):
                            cap = "l:" + v_["name"]
        if cap.startswith("l:"):
            sites.append((f, cap, None))
        else:
            if top.access != "private":
                ctx.ob(rid, False, f.loc(st), "the compared value is captured inside the barrier", "it is a parameter of a public function",
                       fn=top.label, inst=f.qname)
                continue
            idx = [i for i, p_ in enumerate(top.params) if "p:" + p_["name"] == cap]
            for cf, call in _callers(ctx, top):
                a = cf.s(call["args"][idx[0]]) if idx and idx[0] < len(call["args"]) else None
                sites.append((cf, path(cf, a) if a is not None else None, call))
            if not sites:
                ctx.broken("private helper %s with the wait has no caller" % top.name)
        for cf, var, call in sites:
            decl = None
            for _hop in range(4):       # follow plain copies (a helper parameter bound to the caller's local)
                nxt = None
                for s_ in cf.stmts.values():
                    if s_["k"] == "DeclStmt":
                        for d in s_["decls"]:
                            # (a local of an inlined helper is called `<helper>$<name>` in the caller's view)
                            if var and ("l:" + d["name"] == var or d["name"].endswith("$" + var[2:])) and d.get("init"):
                                ip = path(cf, cf.s(d["init"]))
                                if ip == "this.generation_":
                                    decl = s_
                                elif ip and ip.startswith("l:") and not d.get("ref"):
                                    nxt = ip
                if decl is not None or nxt is None:
                    break
                var = nxt
            pts = _arrival_points(ctx, cf)
            ok = decl is not None and bool(pts) and all(cf.dominates(cf.pos_of(decl), cf.pos_of(p_)) and
                                                        cf.pos_of(decl) != cf.pos_of(p_) for p_, _k in pts)
            ctx.ob(rid, ok, cf.loc(decl) if decl is not None else cf.where,
                   "the generation is captured (under the lock) before this arrival is counted",
                   "" if ok else "the compared value is not a copy of generation_ taken before the arrival", fn=cf.label, inst=cf.qname)


def wake(ctx):
    rid = "C09.wake"
    ctx.rule(rid, "every write to generation_ is followed on every path by cv.notify_all()", floor=1)
    n = 0
    for f, top in class_functions(ctx.fb, CLS):
        if top.kind in ("ctor", "dtor"):
            continue
        for st, op in field_writes(ctx, f, "generation_"):
            ok, detail = notify_follows(f, f.pos_of(st), "cv", ["generation_"], CLS, fb=ctx.fb)
            ctx.ob(rid, ok, f.loc(st), "the generation bump is followed by cv.notify_all() on every path",
                   "" if ok else detail, fn=top.label, inst=f.qname)
            n += 1
    if n == 0:
        ctx.broken("no write to Barrier::generation_ found (anchor vanished)")


def arrive(ctx):
    rid = "C09.arrive"
    ctx.rule(rid, "every decrement of count_ is the operand of the release test; its true branch bumps the "
             "generation, resets count_ from threshold_ and notifies; wait_and_drop lowers threshold_ first", floor=4)
    fb = ctx.fb
    ndec = 0
    for f, top in class_functions(fb, CLS):
        if top.kind in ("ctor", "dtor") or f.is_lambda:
            continue
        # (an INCREMENT of count_ - an arrival taken back by a timed wait, participants added - completes nothing)
        decs = [s for s, op in field_writes(ctx, f, "count_") if op != "=" and s.get("op") not in ("++", "+=")]
        for d in decs:
            ndec += 1
            pos = f.pos_of(d)
            blk = f.blocks[pos[0]]
            cond = f.s(blk.term["cond"]) if blk.term and blk.term.get("cond") else None
            in_cond = cond is not None and any(x["id"] == d["id"] for x in f.descendants(cond))
            ctx.ob(rid, in_cond and d["op"] == "--", f.loc(d), "the arrival's decrement of count_ feeds the release test",
                   "" if in_cond else "count_ is changed without testing whether the generation is complete "
                   "(an arrival that completes the generation releases nobody)", fn=top.label, inst=f.qname)
            if not in_cond:
                continue
            # which side of the test is "the generation is complete" (count_ reached zero)?
            c_ = unwrap(f, cond)
            neg_ = False
            while c_ is not None and c_["k"] == "UnaryOperator" and c_["op"] == "!":
                neg_ = not neg_
                c_ = unwrap(f, f.children(c_)[0])
            rel_true = True
            if c_ is not None and c_["k"] == "BinaryOperator" and c_["op"] in (">", "!=", ">="):
                rel_true = False          # `--count_ > 0`: the release is the other side
            if neg_:
                rel_true = not rel_true
            tb = blk.succs[0 if rel_true else 1]
            if tb is None:
                ctx.ob(rid, False, f.loc(d), "the release side of the arrival test is reachable", "", fn=top.label, inst=f.qname)
                continue
            # everything that runs only on the release side: the blocks that side's first block dominates
            tstm = [f.stmts[e["s"]] for b_ in f.blocks if f.dominates_block(tb, b_) for e in f.blocks[b_].elems if e["k"] == "S"]
            bump = any(s["k"] == "UnaryOperator" and s["op"] == "++" and path(f, f.children(s)[0]) == "this.generation_"
                       for s in tstm)
            reset = any(s["k"] == "BinaryOperator" and s["op"] == "=" and path(f, f.children(s)[0]) == "this.count_"
                        and path(f, f.children(s)[1]) == "this.threshold_" for s in tstm)
            ctx.ob(rid, bump and reset, f.loc(d), "the release branch bumps generation_ and resets count_ from threshold_",
                   "" if bump and reset else "bump=%s reset=%s" % (bump, reset), fn=top.label, inst=f.qname)
    if ndec == 0:
        ctx.broken("no decrement of Barrier::count_ found (the arrival counter vanished)")
    for nm in ("wait", "wait_and_drop"):
        for f in fb.functions(rec=CLS, name=nm):
            pts = _arrival_points(ctx, f)
            every = [p_ for p_, _k in pts if f.postdominates(f.pos_of(p_), (f.entry, 0))]
            ok = len(pts) == 1 and len(every) == 1
            ctx.ob(rid, ok, f.where, "%s counts exactly one arrival on every path" % nm,
                   "" if ok else "%d arrival point(s), %d on every path" % (len(pts), len(every)), fn=f.label, inst=f.qname)
            if nm == "wait_and_drop" and pts:
                th = [s for s, op in field_writes(ctx, f, "threshold_") if op == "--"]
                ok = len(th) == 1 and all(f.dominates(f.pos_of(th[0]), f.pos_of(p_)) and f.pos_of(th[0]) != f.pos_of(p_)
                                          for p_, _k in pts)
                detail = "" if ok else "threshold_ is not decremented exactly once before the arrival"
                if not th:
                    # the drop may be BOOKED and applied by whoever completes the generation: the dropper counts itself into an
                    # integer member before its arrival, and the release branch takes that member's whole value off threshold_
                    # (and empties it) before count_ is reset.  A flag instead of a count loses every drop but one.
                    ok, detail = _deferred_drop(ctx, f, pts)
                ctx.ob(rid, ok, f.where, "wait_and_drop lowers threshold_ before counting its arrival (test and reset see the new threshold), "
                       "or books the drop in a counter the completing arrival subtracts", detail, fn=f.label, inst=f.qname)


def _deferred_drop(ctx, f, pts):
    incs = []
    for st in f.stmts.values():
        if st["k"] in ("UnaryOperator", "CompoundAssignOperator") and st.get("op") in ("++", "+=") and f.pos_of(st):
            p = path(f, f.children(st)[0]) or ""
            if p.startswith("this.") and p[5:] not in ("count_", "threshold_", "generation_"):
                if st["op"] == "+=" and (unwrap(f, f.children(st)[1]) or {}).get("v") != 1:
                    continue
                incs.append((p[5:], st))
    if not incs:
        return False, "threshold_ is not decremented exactly once before the arrival"
    fld, inc = incs[0]
    for r_ in ctx.fb.records(tmpl=CLS):
        fl = r_.field(fld)
        if fl is None or fl["type"] in ("bool", "std::atomic<bool>", "std::atomic_bool"):
            return False, "%s is a flag: two participants that drop in one generation lower the threshold once" % fld
    if not all(f.dominates(f.pos_of(inc), f.pos_of(p_)) and f.pos_of(inc) != f.pos_of(p_) for p_, _k in pts):
        return False, "%s is not counted up before the arrival" % fld
    # the release side: threshold_ -= <value of fld>, fld emptied, before count_ = threshold_
    subs = [st for st in f.stmts.values() if st["k"] == "CompoundAssignOperator" and st.get("op") == "-=" and
            path(f, f.children(st)[0]) == "this.threshold_" and f.pos_of(st) and
            any(d["k"] == "MemberExpr" and d["m"].get("name") == fld for d in f.descendants(f.children(st)[1]))]
    resets = [st for st in f.stmts.values() if st["k"] == "BinaryOperator" and st.get("op") == "=" and
              path(f, f.children(st)[0]) == "this.count_" and path(f, f.children(st)[1]) == "this.threshold_" and f.pos_of(st)]
    if len(subs) != 1 or not resets:
        return False, "the release branch does not take %s off threshold_ before count_ is reset" % fld
    if not all(f.dominates(f.pos_of(subs[0]), f.pos_of(r)) for r in resets):
        return False, "count_ is reset from threshold_ before the booked drops are subtracted"
    emptied = any(d["k"] == "CallExpr" and callee_fq(d) == "std::exchange" for d in f.descendants(subs[0])) or \
        any(st["k"] == "BinaryOperator" and st.get("op") == "=" and path(f, f.children(st)[0]) == "this." + fld and
            (unwrap(f, f.children(st)[1]) or {}).get("v") == 0 and f.pos_of(st) and f.dominates(f.pos_of(subs[0]), f.pos_of(st))
            for st in f.stmts.values())
    if not emptied:
        return False, "%s is not emptied when it is applied: the same drops are subtracted again in the next generation" % fld
    return True, ""


def initial(ctx):
    rid = "C09.initial"
    ctx.rule(rid, "a new Barrier expects exactly 'count' arrivals in its first generation (count_ and threshold_ both "
             "start from the constructor argument)", floor=2)
    for f in ctx.fb.functions(rec=CLS):
        if f.kind != "ctor" or f.defaulted or len(f.params) != 1:
            continue
        ini = {i.get("field"): f.s(i.get("init")) for i in f.inits if i.get("field")}
        for fld in ("threshold_", "count_"):
            e_ = unwrap(f, ini.get(fld)) if ini.get(fld) is not None else None
            while e_ is not None and e_["k"] in ("CXXConstructExpr", "CXXTemporaryObjectExpr", "InitListExpr"):
                ch_ = [f.s(a) for a in e_.get("args", [])] if e_["k"] != "InitListExpr" else f.children(e_)
                e_ = unwrap(f, ch_[0]) if len(ch_) == 1 else None      # std::atomic<size_t> count_(count)
            p = path(f, e_) if e_ is not None else None
            ok = p in ("p:" + f.params[0]["name"], "this.threshold_")
            ctx.ob(rid, ok, f.where, "%s starts from the participant count" % fld, "" if ok else "initialised from %s" % p,
                   fn=f.label, inst=f.qname)
    ctx.step(common.init_order, ctx, "C09.init", [CLS], floor=2)
