"""C09 - Barrier releases a generation only when every participant has arrived."""
from ..engine import CALLS, path, unwrap
from ..cv import check_waits, cv_notifies, notify_follows, predicate_lambda, cv_waits
from ..guards import check_guarded_fields, field_refs, class_functions, effective_access, READ_KINDS
from .. import common

EXPLANATION = (
    "Condition-variable discipline and lockset analysis of Barrier::wait / wait_and_drop on every CFG path. "
    "Decided: [C09.guard] threshold_, count_, generation_ are only touched with mtx held (the wait predicates "
    "included, which run under the caller's lock); [C09.cv] both waits pass a unique_lock that owns mtx, are "
    "predicate-form, and the predicate reads generation_ only; [C09.epoch] the predicate compares generation_ "
    "with a value captured under the lock before the arrival is counted, and generation_ is only ever "
    "incremented (an epoch cannot be undone by threads lapping the waiter; waiting on the count can); "
    "[C09.wake] every write to generation_ is followed on every path by cv.notify_all() (all waiters); "
    "[C09.arrive] every arrival (decrement of count_) feeds the release test, whose true branch bumps the "
    "generation, resets count_ from threshold_ and notifies; in wait_and_drop the decrement of threshold_ "
    "dominates that test and the reset. These are the hypotheses of the no-lost-wake-up argument; the "
    "arithmetic over runtime arrival counts is not decided.")
ASSUMPTIONS = ["std::condition_variable::wait(lock, pred) re-evaluates pred under the lock after every wake-up"]

CLS = "gmlc::concurrency::Barrier"


def run(ctx):
    ctx.rule("C09.guard", "A3: threshold_, count_, generation_ only under mtx", floor=12)
    ctx.step(check_guarded_fields, ctx, "C09.guard", CLS)
    ctx.rule("C09.cv", "waits: lock owns mtx, predicate-form, predicate reads generation_ only", floor=4)
    ws = ctx.step(check_waits, ctx, "C09.cv", CLS, "cv", "mtx", ["generation_"]) or []
    ctx.step(epoch, ctx, ws)
    ctx.step(wake, ctx)
    ctx.step(arrive, ctx)
    ctx.step(common.raii_only, ctx, "C09.raii", ["Barrier.hpp"], floor=2)


def _writes(f, field):
    out = []
    for st in field_refs(f, CLS):
        if st["m"]["name"] != field:
            continue
        from ..guards import effective_access
        return_kind = None
    return out


def field_writes(ctx, f, field):
    """(stmt of the write, kind '++' '--' '=' ...)"""
    out = []
    for st in f.stmts.values():
        k = st["k"]
        if k == "UnaryOperator" and st["op"] in ("++", "--") and path(f, f.children(st)[0]) == "this." + field:
            out.append((st, st["op"]))
        elif k in ("BinaryOperator", "CompoundAssignOperator") and (st["op"] == "=" or k == "CompoundAssignOperator") \
                and path(f, f.children(st)[0]) == "this." + field:
            out.append((st, st["op"]))
    return out


def epoch(ctx, ws):
    rid = "C09.epoch"
    ctx.rule(rid, "the wait predicate is (captured generation != generation_), the capture happens under the lock "
             "before the arrival is counted, and generation_ is only ever incremented", floor=4)
    fb = ctx.fb
    # generation_ is only incremented
    kinds = []
    for f, top in class_functions(fb, CLS):
        if top.kind in ("ctor", "dtor"):
            continue
        for st, op in field_writes(ctx, f, "generation_"):
            kinds.append((f, st, op))
    ok = bool(kinds) and all(op == "++" for _f, _s, op in kinds)
    site = kinds[0][0].loc(kinds[0][1]) if kinds else "gmlc/concurrency/Barrier.hpp"
    ctx.ob(rid, ok, site, "generation_ is modified by increments only (a released generation is never undone)",
           "" if ok else "modifications: %s" % [(f.loc(s), op) for f, s, op in kinds])
    for f, top, st in ws:
        g = predicate_lambda(ctx, f, st)
        if g is None:
            continue
        # predicate: return <captured> != generation_
        rets = [s for s in g.stmts.values() if s["k"] == "ReturnStmt"]
        ok = False
        cap = None
        if len(rets) == 1:
            e = unwrap(g, g.children(rets[0])[0])
            if e is not None and e["k"] == "BinaryOperator" and e["op"] == "!=":
                l, r = [path(g, x) for x in g.children(e)]
                if "this.generation_" in (l, r):
                    cap = r if l == "this.generation_" else l
                    ok = cap is not None and cap.startswith("l:")
        ctx.ob(rid, ok, f.loc(st), "predicate is (captured value != generation_)",
               "" if ok else "different predicate shape", fn=top.label, inst=f.qname)
        if not ok:
            continue
        # the captured local is initialised from generation_ before the decrement of count_
        decl = None
        for s in f.stmts.values():
            if s["k"] == "DeclStmt":
                for d in s["decls"]:
                    if "l:" + d["name"] == cap and path(f, f.s(d.get("init"))) == "this.generation_":
                        decl = s
        decs = [s for s, op in field_writes(ctx, f, "count_") if op == "--"]
        ok = decl is not None and bool(decs) and all(f.dominates(f.pos_of(decl), f.pos_of(d)) for d in decs)
        ctx.ob(rid, ok, f.loc(st), "the generation is captured (under the lock) before this arrival is counted",
               "" if ok else "capture does not dominate the decrement of count_", fn=top.label, inst=f.qname)


def wake(ctx):
    rid = "C09.wake"
    ctx.rule(rid, "every write to generation_ is followed on every path by cv.notify_all()", floor=2)
    n = 0
    for f, top in class_functions(ctx.fb, CLS):
        if top.kind in ("ctor", "dtor"):
            continue
        for st, op in field_writes(ctx, f, "generation_"):
            ok, detail = notify_follows(f, f.pos_of(st), "cv", ["generation_"], CLS)
            ctx.ob(rid, ok, f.loc(st), "the generation bump is followed by cv.notify_all() on every path",
                   "" if ok else detail, fn=top.label, inst=f.qname)
            n += 1
    if n == 0:
        ctx.broken("no write to Barrier::generation_ found (anchor vanished)")


def arrive(ctx):
    rid = "C09.arrive"
    ctx.rule(rid, "every decrement of count_ is the operand of the release test; its true branch bumps the "
             "generation, resets count_ from threshold_ and notifies; wait_and_drop lowers threshold_ first", floor=5)
    fb = ctx.fb
    seen = set()
    for f, top in class_functions(fb, CLS):
        if top.kind in ("ctor", "dtor") or f.is_lambda:
            continue
        decs = [s for s, op in field_writes(ctx, f, "count_") if op != "="]
        for d in decs:
            seen.add(f.name)
            # the decrement is (part of) a branch condition
            pos = f.pos_of(d)
            blk = f.blocks[pos[0]]
            cond = f.s(blk.term["cond"]) if blk.term and blk.term.get("cond") else None
            in_cond = cond is not None and any(x["id"] == d["id"] for x in f.descendants(cond))
            ctx.ob(rid, in_cond and d["op"] == "--", f.loc(d), "the arrival's decrement of count_ feeds the release test",
                   "" if in_cond else "count_ is changed without testing whether the generation is complete "
                   "(an arrival that completes the generation releases nobody)", fn=top.label, inst=f.qname)
            if not in_cond:
                continue
            tb = blk.succs[0]
            tblk = f.blocks[tb]
            tstm = [f.stmts[e["s"]] for e in tblk.elems if e["k"] == "S"]
            bump = any(s["k"] == "UnaryOperator" and s["op"] == "++" and path(f, f.children(s)[0]) == "this.generation_"
                       for s in tstm)
            reset = any(s["k"] == "BinaryOperator" and s["op"] == "=" and path(f, f.children(s)[0]) == "this.count_"
                        and path(f, f.children(s)[1]) == "this.threshold_" for s in tstm)
            ctx.ob(rid, bump and reset, f.loc(d), "the release branch bumps generation_ and resets count_ from threshold_",
                   "" if bump and reset else "bump=%s reset=%s" % (bump, reset), fn=top.label, inst=f.qname)
        if f.name == "wait_and_drop":
            th = [s for s, op in field_writes(ctx, f, "threshold_") if op == "--"]
            ok = len(th) == 1 and bool(decs) and all(f.dominates(f.pos_of(th[0]), f.pos_of(d)) and
                                                     f.pos_of(th[0]) != f.pos_of(d) for d in decs)
            ctx.ob(rid, ok, f.where, "wait_and_drop lowers threshold_ before counting its arrival (test and reset see the new threshold)",
                   "" if ok else "threshold_ is not decremented exactly once before the arrival test", fn=top.label, inst=f.qname)
    for nm in ("wait", "wait_and_drop"):
        if nm not in seen:
            ctx.ob(rid, False, "gmlc/concurrency/Barrier.hpp", "%s counts its own arrival" % nm,
                   "no decrement of count_ in %s itself" % nm)
