"""C12 - rcu_list traversals are consistent and writers are serialised."""
import re

from ..engine import CALLS, CTORS, atomic_ops, atomic_field_of, callee_fq, path, unwrap
from ..flow import TooManyPaths
from ..facts import short
from ..rcu import RCU, NODE, ZLN, all_paths, insertion_body, forwards_to_sibling, node_names
from .. import common
from . import c05

EXPLANATION = (
    "Decided on every instantiation of rcu_list's mutators and iterators: [C12.wmutex] all five mutators take a "
    "blocking RAII lock on m_write_mutex that covers every store to m_head, m_tail, node::next, node::back and "
    "node::deleted (mutations take effect one at a time, in lock order); [C12.publish] on every path of every "
    "insertion the new node is fully constructed (allocate_unique) and its own forward link is stored BEFORE the "
    "single store that makes it reachable to a forward traversal (m_head for front insertion, the old tail's next or "
    "m_head for back insertion), and a front insertion into a non-empty list links the old head; [C12.erase-next] "
    "erase never writes the erased node's own next/back (a reader standing on it still advances into the list) and "
    "joins the neighbours on every path; [C12.iter] iterator operator++ is a single atomic load of next and begin() "
    "a single load of m_head, both at least acquire; stores that publish nodes at least release. Not decided: 'at "
    "most once, in list order, every stable element' as a property of histories.")
ASSUMPTIONS = ["insert/emplace/clear are declared but not defined (nothing to analyse)"]

MUTATORS = ("push_front", "emplace_front", "push_back", "emplace_back", "erase")


def run(ctx):
    ctx.step(wmutex, ctx)
    ctx.step(publish, ctx)
    ctx.step(c05.unlink_first, ctx, "C12.erase-next", all_or_nothing=True)
    ctx.step(iters, ctx)
    ctx.step(construct, ctx)
    ctx.step(atomic_ops_rule, ctx)
    ctx.step(link_rule, ctx)
    ctx.step(init_rule, ctx)
    ctx.step(erase_result, ctx)
    # a traversal is only protected once its handle is in the log: every way of reaching the list through a handle registers
    ctx.step(c05.register, ctx, "C12.register", True, False)
    from . import c13
    ctx.step(c13.uaf, ctx, "C12.uaf", [f for f in ctx.fb.functions(rec=RCU)], floor=10)
    ctx.step(common.atomic_floors, ctx, "C12.orders", [RCU, NODE], floor=20, files=["rcu_list.hpp"])
    ctx.step(common.witnesses, ctx, "C12.witness", ["C12"])


def erase_result(ctx, rid="C12.erase-result"):
    """erase(it) hands back the position AFTER the erased element on every path - also when the element had already been
    taken out through another handle: its `next` link stays intact, and the canonical pass `it = erase(it)` relies on the
    result to go on.  An iterator that is not derived from the node's `next` link (a default iterator, the node itself)
    ends or derails that traversal although the rest of the list was there the whole time."""
    ctx.rule(rid, "every return of erase() is the iterator of the erased node's next link", floor=1)
    n = 0
    for f in ctx.fb.functions(rec=RCU, name="erase"):
        if not f.params:
            continue
        node = {"p:%s.m_current" % f.params[0]["name"]} | {"p:%s->m_current" % f.params[0]["name"]}
        node |= set().union(*[node_names(f, x) for x in list(node)])
        loads = {op["st"]["id"]: op for op in atomic_ops(f) if op["op"] == "load"}

        def is_next_of_node(e, depth=0):
            e = unwrap(f, e)
            while e is not None and e["k"] in CTORS and len(e.get("args", [])) == 1:
                e = unwrap(f, f.s(e["args"][0]))
            if e is None or depth > 4:
                return False
            if e["id"] in loads:
                o = loads[e["id"]].get("obj") or ""
                m = re.match(r"^(.*)->next$", o)
                return bool(m) and (m.group(1) in node)
            if e["k"] == "DeclRefExpr" and e["d"].get("k") == "local":
                inits = [f.s(d.get("init")) for s_ in f.stmts.values() if s_["k"] == "DeclStmt" for d in s_["decls"]
                         if d["id"] == e["d"].get("id") and d.get("init")]
                asg = [s_ for s_ in f.stmts.values() if s_["k"] == "BinaryOperator" and s_.get("op") == "=" and
                       path(f, f.children(s_)[0]) == "l:" + e["d"]["name"]]
                return len(inits) == 1 and not asg and is_next_of_node(inits[0], depth + 1)
            return False
        for r in [s for s in f.stmts.values() if s["k"] == "ReturnStmt"]:
            n += 1
            ch = f.children(r)
            e = unwrap(f, ch[0]) if ch else None
            while e is not None and e["k"] in CTORS and len(e.get("args", [])) == 1 and \
                    not (e.get("t", "").endswith("iterator") and is_next_of_node(f.s(e["args"][0]))):
                e = unwrap(f, f.s(e["args"][0]))
            ok = e is not None and e["k"] in CTORS and len(e.get("args", [])) == 1 and is_next_of_node(f.s(e["args"][0]))
            ctx.ob(rid, ok, f.loc(r), "erase returns the successor of the erased element",
                   "" if ok else "this return is not built from the node's next link: a pass that continues with the result of erase() "
                   "stops (or goes astray) here although the elements behind are still in the list", fn=f.label, inst=f.qname)
    if n == 0:
        ctx.broken("rcu_list::erase has no return statement (anchor vanished)")


def init_rule(ctx, rid="C12.init"):
    """a new list is empty for every way of creating it: m_head and m_tail have a default member initialiser, or every
    constructor that is not defaulted initialises them (a defaulted constructor without member initialisers leaves the
    two atomics indeterminate for `rcu_list l;`)"""
    ctx.rule(rid, "every constructor leaves m_head and m_tail null", floor=2)
    for r in ctx.fb.records(tmpl=RCU):
        site = "%s:%d" % (short(r.file), r.line)
        for fld in ("m_head", "m_tail"):
            fl = r.field(fld)
            if fl is None:
                ctx.broken("rcu_list::%s not found (anchor vanished)" % fld)
            nsdmi = bool(fl.get("has_init"))
            ctors = [m for m in r.methods if m["kind"] == "ctor" and not m.get("copy_ctor") and not m.get("move_ctor") and not m.get("deleted")]
            bad = []
            if not nsdmi:
                for m in ctors:
                    if m.get("defaulted") or m.get("implicit"):
                        bad.append("the defaulted default constructor")
                        continue
                    gs = [g for g in ctx.fb.functions(rec=RCU, raw=True) if g.kind == "ctor" and g.recq == r.qname and g.id == m.get("id")]
                    for g in gs:
                        inited = any(i.get("field") == fld and i.get("written") for i in g.inits) or any(
                            op["op"] == "store" and op["obj"] == "this." + fld for op in atomic_ops(g))
                        if not inited:
                            bad.append("constructor at %s" % g.where)
            ctx.ob(rid, not bad, site, "%s is null in every freshly constructed list" % fld, "" if not bad else
                   "%s has no default member initialiser and %s does not set it: `rcu_list<T> l;` starts with an indeterminate "
                   "pointer and traversals walk garbage" % (fld, bad[0]), inst=r.qname)


def link_rule(ctx, rid="C12.link"):
    """whatever inserts a node keeps the list doubly linked: on every path through the linking code the new node is
    stored exactly once into a forward slot (somebody's next, or m_head) and exactly once into a backward slot
    (somebody's back, or m_tail).  A path that misses the backward store leaves a neighbour pointing past the new node:
    the next erase of that neighbour cuts the new node out of the list."""
    ctx.rule(rid, "every insertion stores the new node into one forward and one backward slot on each path", floor=8)
    fb = ctx.fb
    for f0 in fb.functions(rec=RCU):
        if f0.kind in ("ctor", "dtor") or forwards_to_sibling(fb, f0) is not None:
            continue
        if not any(st["k"] == "CallExpr" and callee_fq(st) == "gmlc::libguarded::detail::allocate_unique" for st in f0.stmts.values()):
            continue
        ib = insertion_body(f0)
        if ib is None:
            ctx.unknown("%s: %s: cannot find the node %s allocates" % (rid, f0.where, f0.name))
            continue
        f, NN, mk, call_pos = ib
        try:
            ps = all_paths(f)
        except TooManyPaths:
            ctx.broken("too many paths in " + f.label)
        names = node_names(f, NN)
        for pe in ps:
            ev = pe.events
            mine = [e for e in ev if e["k"] in ("astore", "armw") and e.get("val") in names and
                    not any((e["obj"] or "").startswith(n) for n in names)]
            if not mine:
                continue
            fw = [e for e in mine if e["fld"] in ((RCU, "m_head"), (NODE, "next"))]
            bw = [e for e in mine if e["fld"] in ((RCU, "m_tail"), (NODE, "back"))]
            ok = len(fw) == 1 and len(bw) == 1
            ctx.ob(rid, ok, f.loc(mine[0]["st"]), "%s links the new node forward and backward exactly once" % f0.name,
                   "" if ok else "a path stores the new node into %d forward slot(s) %s and %d backward slot(s) %s" % (
                       len(fw), [e["obj"] for e in fw], len(bw), [e["obj"] for e in bw]), fn=f.label, inst=f.qname)


def atomic_ops_rule(ctx, rid="C12.atomic"):
    """each public mutation is ONE critical section of m_write_mutex: an operation composed of several calls of other
    public mutators (a clear() that loops over erase()) lets other writers in between its steps - the result is not the
    result of any sequential order of the operations"""
    ctx.rule(rid, "no public operation of rcu_list is composed of several separately locked mutations", floor=0)
    from ..rcu import MUTATOR_NAMES
    for f in ctx.fb.functions(rec=RCU):
        if f.access != "public" or f.kind in ("ctor", "dtor"):
            continue
        calls = [st for st in f.stmts.values() if st["k"] == "CXXMemberCallExpr" and path(f, f.s(st.get("obj"))) in ("this", "*this")
                 and (st.get("callee") or {}).get("name") in MUTATOR_NAMES + ("clear", "insert", "emplace", "pop_front", "pop_back")]
        if not calls:
            continue
        inloop = [c for c in calls if f.pos_of(c) and any(f.pos_of(c)[0] in body for _h, body in f.loops())]
        ok = len(calls) == 1 and not inloop
        ctx.ob(rid, ok, f.loc(calls[0]), "%s performs its mutation in one critical section" % f.name, "" if ok else
               "%s calls %s %s: each call locks m_write_mutex on its own, so another writer's operation can take effect between "
               "the steps" % (f.name, ", ".join(sorted({c["callee"]["name"] for c in calls})),
                              "in a loop" if inloop else "%d times" % len(calls)), fn=f.label, inst=f.qname)


def construct(ctx):
    """the element a traversal finds is the element the caller described: emplace_*(args...) builds T(args...), as every
    standard container does.  List-initialisation `T{args...}` prefers an initializer_list constructor
    (vector<int>(3, 7) is {7,7,7}, vector<int>{3, 7} is {3,7}) and narrows differently."""
    rid = "C12.construct"
    ctx.rule(rid, "the node's payload is direct-initialised with parentheses from the forwarded arguments", floor=2)
    n = 0
    for f in ctx.fb.functions(rec=NODE):
        if f.kind != "ctor" or f.defaulted:
            continue
        for i in f.inits:
            if i.get("field") != "data" or not i.get("init"):
                continue
            e = f.s(i["init"])
            while e is not None and e["k"] in ("ExprWithCleanups", "CXXBindTemporaryExpr", "MaterializeTemporaryExpr"):
                ch = f.children(e)
                e = ch[0] if ch else None
            if e is None:
                continue
            n += 1
            listy = e["k"] == "InitListExpr" or (e["k"] in ("CXXConstructExpr", "CXXTemporaryObjectExpr") and e.get("list_init"))
            ctx.ob(rid, not listy, f.where, "node::data is built as T(args...)", "" if not listy else
                   "node::data is list-initialised (T{args...}): for a payload with an initializer_list constructor the "
                   "element stored differs from the one every other container would build from the same arguments",
                   fn=f.label, inst=f.qname)
    if n == 0:
        ctx.broken("rcu_list::node constructor / its 'data' initialiser not found (anchor vanished)")


def wmutex(ctx):
    rid = "C12.wmutex"
    common.rcu_writer_guard(ctx, rid)
    fb, eng = ctx.fb, ctx.eng
    for nm in MUTATORS:
        fs = list(fb.functions(rec=RCU, name=nm))
        if not fs:
            ctx.broken("rcu_list::%s not instantiated" % nm)
        for f in fs:
            if forwards_to_sibling(fb, f) is not None:
                ctx.ob(rid, True, f.where, "%s forwards to %s, which takes the mutex" % (nm, forwards_to_sibling(fb, f).name), fn=f.label, inst=f.qname)
                continue
            la = eng.locks(f)
            acq = [e for e in la.acquire_events if e[2].mutex == "this.m_write_mutex"]
            if len(common.rcu_writer_mutexes(ctx)) > 1:
                acq_any = [e for e in la.acquire_events if e[2].mutex in ["this." + m for m in common.rcu_writer_mutexes(ctx)] and
                           e[3] is True and e[2].mode == "X"]
                ctx.ob(rid, bool(acq_any), f.where, "%s takes one of the writer mutexes, blocking, exclusive" % nm, "", fn=f.label, inst=f.qname)
                continue
            ok = len(acq) == 1 and acq[0][3] is True and acq[0][2].mode == "X"
            ctx.ob(rid, ok, f.where, "%s takes m_write_mutex once, blocking, exclusive" % nm,
                   "" if ok else str([(e[3], e[2].mode) for e in acq]), fn=f.label, inst=f.qname)


def _nonnull_on_path(ev, load_toks):
    """did this path test the value loaded by one of load_toks against null - True: non-null, False: null, None: untested"""
    for e in ev:
        if e["k"] != "branch":
            continue
        for a in e["atoms"]:
            tok = (e["toks"].get(a[1]) or "") if isinstance(a[1], str) else ""
            if tok.split("@")[0] not in load_toks:
                continue
            if a[0] == "eq" and a[2] == "nullptr":
                return a[3] is False
            if a[0] == "truth":
                return bool(a[3])
    return None


def reentrancy_rule(ctx, rid):
    """the element constructor is user code and may re-enter the list (recursive mutexes are supported): an end of the
    list sampled before it runs is stale afterwards - a node erased in between would be linked back in"""
    ctx.rule(rid, "insertions read m_head / m_tail only after the new element was constructed", floor=8)
    for nm in ("push_front", "emplace_front", "push_back", "emplace_back"):
        for f in ctx.fb.functions(rec=RCU, name=nm):
            if forwards_to_sibling(ctx.fb, f) is not None:
                continue
            mk = [st for st in f.stmts.values() if st["k"] == "CallExpr" and callee_fq(st) == "gmlc::libguarded::detail::allocate_unique"]
            if len(mk) != 1 or f.pos_of(mk[0]) is None:
                ctx.unknown("%s: %s: cannot find the allocate_unique call of %s" % (rid, f.where, nm))
                continue
            early = [op for op in atomic_ops(f) if op["op"] == "load" and atomic_field_of(f, op) in ((RCU, "m_head"), (RCU, "m_tail"))
                     and f.pos_of(op["st"]) and f.reach_avoiding(f.pos_of(op["st"]), f.pos_of(mk[0]), [])
                     and common.load_feeds_store(f, op)]        # (an end only LOOKED at - a lock decision, a size hint - links nothing)
            ctx.ob(rid, not early, f.loc(early[0]["st"]) if early else f.where,
                   "%s samples the ends of the list after the user constructor ran" % nm,
                   "" if not early else "%s is read before the element is constructed and used afterwards: a constructor that "
                   "erases that node re-entrantly gets it linked back into the list (readers then reach freed memory)" % early[0]["obj"],
                   fn=f.label, inst=f.qname)


def publish(ctx, rid="C12.publish", reentrancy=True):
    ctx.rule(rid, "insertions: node constructed and its own links stored before the single publishing store; a front "
             "insertion into a non-empty list links the old head first", floor=16)
    fb = ctx.fb
    for nm in ("push_front", "emplace_front", "push_back", "emplace_back"):
        for f0 in fb.functions(rec=RCU, name=nm):
            if forwards_to_sibling(fb, f0) is not None:
                ctx.ob(rid, True, f0.where, "%s forwards to %s" % (nm, forwards_to_sibling(fb, f0).name), fn=f0.label, inst=f0.qname)
                continue
            ib = insertion_body(f0)
            if ib is None:
                ctx.unknown("%s: %s: cannot find the node %s allocates (no allocate_unique result bound to a local)" % (rid, f0.where, nm))
                continue
            f, NN, mk, call_pos = ib
            try:
                ps = all_paths(f)
            except TooManyPaths:
                ctx.broken("too many paths in " + f.label)
            front = "front" in nm
            names = node_names(f, NN)
            for pe in ps:
                ev = pe.events
                pubs = [e for e in ev if e["k"] in ("astore", "armw") and e.get("val") in names and
                        e["fld"] in ((RCU, "m_head"), (NODE, "next")) and not any((e["obj"] or "").startswith(n) for n in names)]
                own = [e for e in ev if e["k"] in ("astore", "armw") and (e["obj"] or "") in {n + "->next" for n in names}]
                ok = len(pubs) == 1
                ctx.ob(rid, ok, f.where, "%s makes the new node reachable with exactly one store on each path" % nm,
                       "" if ok else "publishing stores: %s" % [(e["obj"], e["k"]) for e in pubs], fn=f.label, inst=f.qname)
                if not pubs:
                    continue
                ip = ev.index(pubs[0])
                late = [e for e in own if ev.index(e) > ip]
                ok = not late
                ctx.ob(rid, ok, f.loc(pubs[0]["st"]), "the node's own next is stored before the node is published",
                       "" if ok else "newNode->next is written at %s after the node became reachable: a reader sees a "
                       "one-element list" % f.loc(late[0]["st"]), fn=f.label, inst=f.qname)
                # allocate_unique dominates
                ok = len(mk) == 1 and f0.dominates(f0.pos_of(mk[0]), call_pos if call_pos is not None else pubs[0]["pos"])
                ctx.ob(rid, ok, f.loc(pubs[0]["st"]), "the node is fully constructed before it is published", "", fn=f.label, inst=f.qname)
                if mk and reentrancy:
                    # the element's constructor is user code and may re-enter the list (recursive mutexes are documented as
                    # supported): the ends of the list must be read after it ran
                    early = [] if call_pos is not None else \
                        [e for e in ev if e["k"] == "aload" and e["fld"] in ((RCU, "m_head"), (RCU, "m_tail")) and
                         f.reach_avoiding(e["pos"], f.pos_of(mk[0]), []) and
                         common.load_feeds_store(f, dict(st=e["st"]))]
                    if call_pos is not None:
                        # linking code in a helper: nothing in the insertion function may read the ends before the call
                        early = [dict(obj=op["obj"], st=op["st"]) for op in atomic_ops(f0) if op["op"] == "load" and
                                 atomic_field_of(f0, op) in ((RCU, "m_head"), (RCU, "m_tail")) and
                                 f0.reach_avoiding(f0.pos_of(op["st"]), f0.pos_of(mk[0]), [])]
                    ok = not early
                    ctx.ob(rid, ok, f0.loc(mk[0]), "m_head / m_tail are read only after the element was constructed (user code that "
                           "inserts into the same list cannot be overwritten)", "" if ok else
                           "%s is read at %s before the user constructor runs and used afterwards" % (early[0]["obj"], (f0 if call_pos is not None else f).loc(early[0]["st"])),
                           fn=f.label, inst=f.qname)
                if front:
                    # non-empty branch: old head linked first
                    head_toks = {"load:" + e["st"]["id"] for e in ev if e["k"] == "aload" and e["fld"] == (RCU, "m_head")}
                    nonempty = _nonnull_on_path(ev, head_toks) is True
                    via_head = pubs[0]["fld"] == (RCU, "m_head")
                    ok = via_head
                    ctx.ob(rid, ok, f.loc(pubs[0]["st"]), "a front insertion is published through m_head", "", fn=f.label, inst=f.qname)
                    if nonempty:
                        lk = [e for e in own if ev.index(e) < ip and (e.get("valtok") or "").split("@")[0] in head_toks]
                        ok = bool(lk)
                        ctx.ob(rid, ok, f.loc(pubs[0]["st"]), "non-empty list: newNode->next = old head before m_head is switched",
                               "" if ok else "the rest of the list is cut off for readers starting at the new head", fn=f.label, inst=f.qname)
                        # old head value really is the loaded m_head
                    else:
                        pass
                else:
                    tail_toks = {"load:" + e["st"]["id"] for e in ev if e["k"] == "aload" and e["fld"] == (RCU, "m_tail")}
                    nonempty = _nonnull_on_path(ev, tail_toks) is True
                    if nonempty:
                        ok = pubs[0]["fld"] == (NODE, "next") and (pubs[0].get("objtok") or "").split("@")[0] in tail_toks
                        ctx.ob(rid, ok, f.loc(pubs[0]["st"]), "non-empty list: a back insertion is published through the old tail's next",
                               "" if ok else "published through %s" % pubs[0]["obj"], fn=f.label, inst=f.qname)
                    else:
                        ok = pubs[0]["fld"] == (RCU, "m_head")
                        ctx.ob(rid, ok, f.loc(pubs[0]["st"]), "empty list: the first node is published through m_head", "", fn=f.label, inst=f.qname)
                # the writer-side bookkeeping (m_tail) is updated on every path
                tl = [e for e in ev if e["k"] in ("astore",) and e["fld"] == (RCU, "m_tail")]
                if not front or not nonempty:
                    ok = len(tl) == 1 and tl[0].get("val") in names
                    ctx.ob(rid, ok, f.where, "m_tail follows the insertion", "" if ok else "m_tail stores: %s" % [t.get("val") for t in tl],
                           fn=f.label, inst=f.qname)


def iters(ctx):
    rid = "C12.iter"
    ctx.rule(rid, "iterator advance is one atomic load of next; begin() one atomic load of m_head", floor=6)
    fb = ctx.fb
    n = 0
    for rec in (RCU + "::iterator", RCU + "::const_iterator"):
        for f in fb.functions(rec=rec, name="operator++"):
            if len(f.params) != 0:
                continue
            n += 1
            ops = atomic_ops(f)
            ok = len(ops) == 1 and ops[0]["op"] == "load" and atomic_field_of(f, ops[0]) == (NODE, "next") and \
                ops[0]["obj"] == "this.m_current->next"
            ctx.ob(rid, ok, f.where, "operator++ advances with a single atomic load of m_current->next",
                   "" if ok else str([(o["op"], o["obj"]) for o in ops]), fn=f.label, inst=f.qname)
            asg = [st for st in f.stmts.values() if st["k"] == "BinaryOperator" and st["op"] == "=" and
                   path(f, f.children(st)[0]) == "this.m_current"]
            ok = len(asg) == 1
            ctx.ob(rid, ok, f.where, "operator++ assigns the loaded successor to m_current", "", fn=f.label, inst=f.qname)
    for f in fb.functions(rec=RCU, name="begin"):
        n += 1
        ops = list(atomic_ops(f))
        fns = [f]
        for c in f.stmts.values():
            if c["k"] in CALLS:
                g = fb.callee_fn(f, c)
                if g is not None and g.rec == RCU and g not in fns:
                    fns.append(g)
                    ops += [dict(o, _f=g) for o in atomic_ops(g)]
        links = [o for o in ops if re.search(r"::node \*>$", o["objtype"])]
        ok = any(o["op"] == "load" and atomic_field_of(o.get("_f", f), o) == (RCU, "m_head") for o in links) and \
            all(o["op"] == "load" for o in links)
        ctx.ob(rid, ok, f.where, "begin() reads the first node with an atomic load of m_head and writes no link",
               "" if ok else str([(o["op"], o["obj"]) for o in links]), fn=f.label, inst=f.qname)
    if n == 0:
        ctx.broken("rcu_list iterators not instantiated")
