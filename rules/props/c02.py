"""C02 - readers and writers never overlap; readers can share."""
import re

from ..engine import lock_class, strip_cvref
from ..facts import short
from ..guards import check_guarded_fields
from .. import common

EXPLANATION = (
    "Static lockset analysis with lock modes over every instantiated member of shared_guarded, "
    "shared_guarded_opt, ordered_guarded, deferred_guarded and the shared handle (4 mutex types). Decided: "
    "[C02.guard] const/read paths reach the payload only as const T under shared-or-exclusive ownership of "
    "the same mutex writers take exclusively; every non-const use needs exclusive ownership; "
    "deferred_guarded's private drain helper is only called with the mutex held exclusively; [C02.locker] "
    "shared_lock_handle's lock type is std::shared_lock<M> exactly for shared-capable M (readers can share) "
    "and std::unique_lock<M> for mutex/timed_mutex (safe fallback); [C02.handle]/[C02.helpers] structure of "
    "the shared handle and its try helpers; [C02.witness] writing through any shared handle does not "
    "compile. Not decided: that the platform's shared_mutex admits concurrent readers.")
ASSUMPTIONS = [
    "std::shared_lock acquires in shared mode and std::shared_mutex admits concurrent shared owners (standard library semantics)",
    "functors passed to read() do not cast away const and do not store the reference",
]

CLASSES = ["gmlc::libguarded::shared_guarded", "gmlc::libguarded::shared_guarded_opt",
           "gmlc::libguarded::ordered_guarded", "gmlc::libguarded::deferred_guarded"]
SHARED_CAPABLE = ("std::shared_mutex", "std::shared_timed_mutex")


def run(ctx):
    ctx.rule("C02.guard", "A3 with modes: reads under S or X of the object's mutex, every non-const use under X, "
             "escapes only into handles locked on that mutex", floor=60)
    for cls in CLASSES:
        ctx.step(check_guarded_fields, ctx, "C02.guard", cls)
    ctx.step(common.handle_deref_lifetime, ctx, "C02.lifetime", CLASSES, floor=4)
    ctx.step(locker, ctx)
    ctx.step(share, ctx)
    ctx.step(common.handle_rules, ctx, "C02.handle", "gmlc::libguarded::shared_lock_handle", "shared")
    ctx.step(const_pointer, ctx)
    # every shared acquisition has exactly one owner (an RAII lock object): a second owner made by hand releases the
    # reader side while the first holder still reads
    ctx.step(common.raii_only, ctx, "C02.raii", ["handles.hpp", "shared_guarded.hpp", "shared_guarded_opt.hpp", "ordered_guarded.hpp"], floor=20)
    # a shared handle is non-null exactly when it owns the lock (a try form that fails must not hand out the pointer)
    ctx.step(common.acquisition_summaries, ctx, "C02.summary", CLASSES, opt_classes=("gmlc::libguarded::shared_guarded_opt",))
    ctx.step(common.helper_summaries, ctx, "C02.helpers", ["try_lock_shared_handle", "try_lock_shared_handle_for",
                                                           "try_lock_shared_handle_until"], "S")
    ctx.step(common.witnesses, ctx, "C02.witness", ["C02"])


def locker(ctx):
    rid = "C02.locker"
    ctx.rule(rid, "shared_lock_handle<T,M>::lock_type is std::shared_lock<M> iff M is shared-capable, "
             "std::unique_lock<M> otherwise", floor=4)
    n = 0
    for r in ctx.fb.records(tmpl="gmlc::libguarded::shared_lock_handle"):
        a = r.alias("lock_type")
        if a is None or len(r.targs) < 2:
            ctx.broken("shared_lock_handle has no lock_type alias (anchor vanished)")
        m = r.targs[1]
        want = "std::shared_lock<%s>" % m if m in SHARED_CAPABLE else "std::unique_lock<%s>" % m
        site = "%s:%d" % (short(r.file), r.line)
        ok = a["type"] == want
        ctx.ob(rid, ok, site, "lock_type for M=%s is %s" % (m, want), "" if ok else "it is " + a["type"], inst=r.qname)
        fl = r.field("m_handle_lock")
        ok = fl is not None and fl["type"] == want
        ctx.ob(rid, ok, site, "m_handle_lock for M=%s has type %s" % (m, want), "" if ok else
               "it is %s" % (fl["type"] if fl else "missing"), inst=r.qname)
        n += 1
    for r in ctx.fb.records(tmpl="gmlc::libguarded::shared_locker"):
        a = r.alias("locker_type")
        m = r.targs[0] if r.targs else "?"
        want = "std::shared_lock<%s>" % m if m in SHARED_CAPABLE else "std::unique_lock<%s>" % m
        ok = a is not None and a["type"] == want
        ctx.ob(rid, ok, "%s:%d" % (short(r.file), r.line), "shared_locker<%s>::locker_type is %s" % (m, want),
               "" if ok else "it is %s" % (a["type"] if a else "missing"), inst=r.qname)
    if n == 0:
        ctx.broken("no shared_lock_handle instantiation")


def const_pointer(ctx):
    rid = "C02.constptr"
    ctx.rule(rid, "the shared handle only hands out pointers/references to const", floor=4)
    for r in ctx.fb.records(tmpl="gmlc::libguarded::shared_lock_handle"):
        site = "%s:%d" % (short(r.file), r.line)
        fl = r.field("data")
        ok = fl is not None and fl["type"].startswith("const ")
        ctx.ob(rid, ok, site, "shared_lock_handle::data points to const", "" if ok else "type " + str(fl and fl["type"]),
               inst=r.qname)
    for f in ctx.fb.functions(rec="gmlc::libguarded::shared_lock_handle"):
        if f.name in ("operator*", "operator->"):
            ok = f.ret.startswith("const ")
            ctx.ob(rid, ok, f.where, "%s returns a pointer/reference to const" % f.name, "" if ok else f.ret,
                   fn=f.label, inst=f.qname)


READ_SIDE = ("lock_shared", "try_lock_shared", "try_lock_shared_for", "try_lock_shared_until", "read", "lock", "load")


def _reader_acquisitions(ctx, f, depth=0, seen=None):
    """acquisitions of this.m_mutex performed by f and by the members it calls on *this:
    list of (mode, site, excused) - excused: an exclusive TRY acquisition made only after the deferred-write flag was
    observed set (the reader then acts as the writer of the queued modifications, by design)"""
    from ..engine import CALLS, is_lock_carrier, path
    from ..typestate import NonNull
    fb, eng = ctx.fb, ctx.eng
    seen = seen if seen is not None else set()
    if f.id in seen or depth > 4:
        return []
    seen.add(f.id)
    out = []
    la = eng.locks(f)
    nn = None
    for pos, _k, v, kind, st in la.acquire_events:
        if v.mutex != "this.m_mutex":
            continue
        excused = False
        if v.mode == "X" and kind is not True:
            nn = nn or NonNull(f)
            excused = ("nn", "this.m_pendingWrites") in nn.before.get(tuple(pos), set())
        out.append((v.mode, f.loc(st), excused))
    for st in f.stmts.values():
        if st["k"] not in CALLS:
            continue
        g = fb.callee_fn(f, st)
        if g is None or g.rec != f.rec or g.kind in ("ctor", "dtor"):
            continue
        obj = path(f, f.s(st["obj"])) if st.get("obj") else (path(f, f.s(st["args"][0])) if st["k"] == "CXXOperatorCallExpr" and st["args"] else None)
        if obj not in ("this", "*this"):
            continue
        if is_lock_carrier(g.ret):
            s = eng.handle_summary_of_call(f, st)
            if s is None:
                ctx.unknown("C02.share: cannot summarise the handle returned by %s (called at %s)" % (g.name, f.loc(st)))
                continue
            out += [(a["mode"], a["site"], False) for a in s if a["mutex"] in ("this.m_mutex", "*this.m_mutex") and a["st"] != "unowned"]
            # what the callee does besides building the handle (e.g. draining deferred writes first)
            out += [x for x in _reader_acquisitions(ctx, g, depth + 1, seen) if x[1] not in {a["site"] for a in s}]
        else:
            out += _reader_acquisitions(ctx, g, depth + 1, seen)
    return out


def share(ctx):
    """readers can share: on a shared-capable mutex every read-side operation named by the property
    (lock_shared, try_lock_shared*, const lock(), read - and load(), which is built on lock_shared) acquires the
    object's mutex in SHARED mode, in its own body and in every member it calls on the same object"""
    rid = "C02.share"
    ctx.rule(rid, "read-side operations acquire the object's own mutex in shared mode when M is shared-capable "
             "(a reader is never blocked merely by another reader)", floor=16)
    fb, eng = ctx.fb, ctx.eng
    for cls in CLASSES:
        for f in fb.functions(rec=cls):
            if f.name not in READ_SIDE or not f.constm:
                continue
            m = None
            for r in fb.records(tmpl=cls):
                if r.qname == f.recq and len(r.targs) > 1:
                    m = r.targs[1]
            if m not in SHARED_CAPABLE:
                continue
            # a reader never waits (spins) for a condition that only another handle's release can change
            from ..blocking import classify_loops
            seen_fns = set()
            _reader_acquisitions(ctx, f, seen=seen_fns)
            spins = []
            for g in [x for x in fb.functions(rec=cls) if x.id in seen_fns and x.recq == f.recq]:
                spins += [(g, d) for _h, k, d in classify_loops(g) if k in ("spin-wait", "infinite")]
            ctx.ob(rid, not spins, spins[0][0].where if spins else f.where,
                   "%s on M=%s contains no wait loop (nothing a reader does depends on another reader leaving)" % (f.name, m),
                   "" if not spins else "spin-wait in %s: %s - while another reader holds its handle the queued work cannot run, so "
                   "this reader spins until that reader leaves" % (spins[0][0].name, spins[0][1]), fn=f.label, inst=f.qname)
            modes = _reader_acquisitions(ctx, f)
            if not modes:
                ctx.unknown("%s: no acquisition of m_mutex recognised in %s at %s" % (rid, f.name, f.where))
                continue
            bad = [(mo, site) for mo, site, exc in modes if mo != "S" and not exc]
            ok = not bad
            ctx.ob(rid, ok, f.where, "%s on M=%s takes m_mutex in shared mode only (exclusive only to run queued deferred "
                   "writes after seeing the pending flag)" % (f.name, m),
                   "" if ok else "exclusive acquisition at %s: this reader excludes / is blocked by other readers" % sorted({s_ for _m, s_ in bad})[:2],
                   fn=f.label, inst=f.qname)
