"""C14 - reads on lr_guarded, cow_guarded and rcu lists never wait for writers."""
from ..blocking import blocking_sites, classify_loops, wait_on_value_only
from ..common import call_closure
from ..engine import path
from ..flow import TooManyPaths
from ..lr import LR, run_paths
from .. import common

EXPLANATION = (
    "Call-graph closure analysis from every read entry point (lr_guarded/cow_guarded lock_shared and its try "
    "forms; rcu_guarded::lock_read, read_handle operators/access/destructor; rcu_guard lock/unlock; rcu_list "
    "begin/end; iterator operators) through resolved callees and implicit destructors. Decided: [C14.noblock] the "
    "closure contains no blocking primitive (mutex acquisition of any kind, condition wait, yield/sleep, future "
    "wait, join, call_once); [C14.loops] every loop in the closure is a CAS retry loop or a cursor traversal that "
    "the loop itself advances - never a spin-wait on state only another thread can change (so a reader that is "
    "scheduled completes even if every writer is suspended); [C14.writer] in lr_guarded::modify the only waiting "
    "constructs are the acquisition of m_writeMutex and the waits on the two READER counters, and the wait on the "
    "counter new readers register in happens only after m_countingLeft was flipped (two-counter scheme: the "
    "writer is delayed only by read handles taken before its flip, so overlapping short readers cannot starve "
    "it). Not decided: progress of the allocator and of shared_ptr copies; wait-freedom of the CAS loop.")
ASSUMPTIONS = ["allocator allocate/deallocate, operator new/delete and shared_ptr control-block operations do not wait for library writers",
               "the CAS retry loop is lock-free, not wait-free"]

COW = "gmlc::libguarded::cow_guarded"
RCUG = "gmlc::libguarded::rcu_guarded"
RCU = "gmlc::libguarded::rcu_list"
READ_ENTRIES = [
    (LR, ("lock_shared", "try_lock_shared", "try_lock_shared_for", "try_lock_shared_until")),
    (COW, ("lock_shared", "try_lock_shared", "try_lock_shared_for", "try_lock_shared_until")),
    (RCUG, ("lock_read",)),
    (RCUG + "::read_handle", ("operator*", "operator->", "access", "~read_handle", "read_handle")),
    (RCU + "::rcu_guard", ("rcu_read_lock", "rcu_read_unlock", "unlock")),
    (RCU, ("begin", "end")),
    (RCU + "::iterator", ("operator++", "operator*", "operator->", "operator==", "operator!=")),
    (RCU + "::const_iterator", ("operator++", "operator*", "operator->", "operator==", "operator!=")),
    (RCU + "::end_iterator", ("operator==", "operator!=")),
]


def run(ctx):
    ctx.step(noblock, ctx)
    from . import c03 as _c03
    if not _c03.counters_are_atomics(ctx):
        ctx.unknown("C14: lr_guarded's reader counters are no longer plain std::atomic integers; the writer / reader / release "
                    "rules describe that representation and cannot judge another one")
        ctx.step(_c03.deleter_rules, ctx, "C14.release")
        ctx.step(read_then_write, ctx)
        ctx.step(common.raii_token_moves, ctx, "C14.balance", ["lr_guarded.hpp", "cow_guarded.hpp", "rcu_list.hpp", "rcu_guarded.hpp"])
        return
    ctx.step(writer, ctx)
    # the writer's waits end only if every registration is given back exactly once
    from . import c03
    # ... and only if nobody is registered who never took a handle (every constructor starts the counters at zero)
    ctx.step(c03.initial_state, ctx, "C14.initial")
    ctx.step(c03.reader_rules, ctx, "C14.reader")
    ctx.step(c03.deleter_rules, ctx, "C14.release")
    ctx.step(read_then_write, ctx)
    ctx.step(common.raii_token_moves, ctx, "C14.balance", ["lr_guarded.hpp", "cow_guarded.hpp", "rcu_list.hpp", "rcu_guarded.hpp"])


def read_then_write(ctx, rid="C14.read-then-write"):
    """a writer of an lr_guarded waits until the readers registered on it have left.  An operation that starts a
    modification (modify(), or taking m_writeMutex) while it holds a read handle of ANOTHER lr_guarded of the same kind
    makes that reader depend on a writer: two such operations in opposite directions (a = b while b = a) wait for each
    other's handle for ever - readers are then held up by writers, and writers by readers that never leave."""
    ctx.rule(rid, "no operation of lr_guarded / cow_guarded starts a modification while it holds a read handle", floor=0)
    for cls in (LR, COW):
        for f in ctx.fb.functions(rec=cls):
            if f.kind in ("dtor",):
                continue
            handles = []
            for st in f.stmts.values():
                if st["k"] == "DeclStmt":
                    for d in st["decls"]:
                        t = d.get("type", "")
                        if not d.get("ref") and ("shared_deleter" in t or t.endswith("::shared_handle")) and f.pos_of(st):
                            handles.append((st, d))
            if not handles:
                continue
            for c in f.stmts.values():
                starts = (c["k"] == "CXXMemberCallExpr" and (c.get("callee") or {}).get("name") in ("modify", "lock") and
                          (c.get("callee") or {}).get("rec") in (LR, COW) and path(f, f.s(c.get("obj"))) in ("this", "*this", "this.m_data"))
                if not starts or f.pos_of(c) is None:
                    continue
                anc = {a["id"] for a in list(f.ancestors(c))}
                for st, d in handles:
                    par = f.par(st)
                    alive = par is not None and par["id"] in anc and f.dominates(tuple(f.pos_of(st)), tuple(f.pos_of(c)))
                    ctx.ob(rid, not alive, f.loc(c), "%s starts its modification without holding a read handle" % f.name,
                           "" if not alive else "the read handle '%s' (taken at %s) is still alive when the writer side is entered: "
                           "the same operation running in the opposite direction on another thread waits for this handle while "
                           "this one waits for that thread's" % (d["name"], f.loc(st)), fn=f.label, inst=f.qname)


def entries(ctx):
    out = []
    for rec, names in READ_ENTRIES:
        for f in ctx.fb.functions(rec=rec):
            if f.name in names:
                out.append(f)
    return out


def noblock(ctx):
    ctx.rule("C14.noblock", "no blocking primitive is reachable from a read entry point", floor=40)
    ctx.rule("C14.loops", "every loop reachable from a read entry point is a CAS retry or a self-advancing traversal, "
             "never a spin-wait", floor=4)
    fb, eng = ctx.fb, ctx.eng
    # positive controls
    fxb, fxe = ctx.fx
    c1 = c2 = False
    for f in fxb.functions():
        if f.qname == "fx::blocking_reader::read" and blocking_sites(fxe, fxb, f):
            c1 = True
        if f.qname == "fx::blocking_reader::spin":
            if any(k == "spin-wait" for _h, k, _d in classify_loops(f)) and blocking_sites(fxe, fxb, f):
                c2 = True
    if not (c1 and c2):
        ctx.broken("positive controls fx::blocking_reader::read/spin not reported (blocking=%s spin=%s)" % (c1, c2))
    es = entries(ctx)
    if len(es) < 30:
        ctx.broken("only %d read entry points found (anchors vanished)" % len(es))
    loops_seen = 0
    for f in es:
        clo = call_closure(fb, f)
        bad = []
        for g, via, caller in clo:
            for st, what in blocking_sites(eng, fb, g):
                if what.startswith("yield/sleep"):
                    q = wait_on_value_only(eng, fb, g, st)
                    if q:
                        ctx.unknown("C14.noblock: " + q)
                        continue
                bad.append("%s in %s at %s" % (what, g.name, g.loc(st)))
        ctx.ob("C14.noblock", not bad, f.where, "%s::%s reaches no blocking primitive (%d functions in its closure)"
               % (f.rec.split("::")[-1], f.name, len(clo)), "; ".join(bad[:3]), fn=f.label, inst=f.qname)
        for g, via, caller in clo:
            for h, kind, detail in classify_loops(g):
                loops_seen += 1
                ok = kind in ("cas-retry", "traversal", "bounded")
                ctx.ob("C14.loops", ok, g.where, "loop in %s (reached from %s) is %s" % (g.name, f.name,
                       "a CAS retry / self-advancing traversal"),
                       "" if ok else "%s loop: %s" % (kind, detail), fn=g.label, inst=g.qname)


def writer(ctx):
    rid = "C14.writer"
    ctx.rule(rid, "lr_guarded::modify waits only for m_writeMutex and for the reader counters, and waits on the "
             "counter new readers register in only after flipping m_countingLeft", floor=8)
    fb, eng = ctx.fb, ctx.eng
    from . import c03 as _c03
    fs = list(_c03.writer_functions(ctx))
    if not fs:
        ctx.broken("lr_guarded::modify not instantiated")
    for f in fs:
        # waiting constructs: only the write mutex and loops on reader counters
        for st, what in blocking_sites(eng, fb, f):
            ok = what == "blocking acquisition of this.m_writeMutex" or what.startswith("yield/sleep")
            ctx.ob(rid, ok, f.loc(st), "the writer blocks only on m_writeMutex (and yields inside its reader waits)",
                   "" if ok else what, fn=f.label, inst=f.qname)
        for h, kind, detail in classify_loops(f):
            ok = kind == "spin-wait" and "ReadCount" in detail
            ctx.ob(rid, ok, f.where, "every wait loop of modify waits on a reader counter", "" if ok else
                   "%s: %s" % (kind, detail), fn=f.label, inst=f.qname)
        try:
            runs = run_paths(f)
        except TooManyPaths:
            ctx.broken("too many paths in " + f.label)
        for r in runs:
            ev = r.events
            loads_cl = [e for e in ev if e[0] == "load" and e[1] == "m_countingLeft"]
            st_cl = [i for i, e in enumerate(ev) if e[0] == "store" and e[1] == "m_countingLeft"]
            cl = None
            for l in loads_cl:
                if l[2] in r.assume:
                    cl = r.assume[l[2]]
            flip_at = st_cl[0] if st_cl else len(ev)
            for i in st_cl:
                v = ev[i][2]
                # the flip really flips: what is stored is the negation of the flag value loaded on this path (a store of
                # the same value leaves every reader on one counter, which overlapping readers then never let reach zero)
                ok = v[0] == "flag" and v[1] == "m_countingLeft" and v[3] is True
                if v[0] == "lit" and cl is not None:
                    ok = v[1] == (not cl)
                ctx.ob(rid, ok, f.loc(ev[i][4]), "the store to m_countingLeft moves new readers to the other counter (stores the "
                       "negation of the value read)", "" if ok else "the stored value is %s: new readers keep registering in the "
                       "counter the writer is about to wait on" % ("the value just read, not its negation" if v[0] == "flag" else v[0]),
                       fn=f.label, inst=f.qname)
            waits = [(i, e) for i, e in enumerate(ev) if e[0] == "loopcond" and e[1]]
            bad = None
            for i, e in waits:
                if i > flip_at:
                    continue
                d = set(e[1])
                if cl is not None:
                    sel = "m_leftReadCount" if cl else "m_rightReadCount"
                    if sel in d:
                        bad = "waits on %s, where new readers still register, before flipping m_countingLeft" % sel
                elif {"m_leftReadCount", "m_rightReadCount"} <= d:
                    bad = "waits for both counters before flipping m_countingLeft: new readers keep the one they register in non-zero"
                else:
                    bad = "cannot relate the waited counter to m_countingLeft"
            ctx.ob(rid, bad is None, f.where, "the writer never waits on the counter new readers register in "
                   "(countingLeft=%s)" % cl, bad or "", fn=f.label, inst=f.qname)
