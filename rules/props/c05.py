"""C05 - rcu_list never frees an element a live handle may still reach."""
import re

from ..engine import CALLS, CTORS, atomic_ops, atomic_field_of, callee_fq, path, unwrap
from ..facts import short
from ..inline import inline
from ..flow import TooManyPaths
from ..guards import field_refs
from ..rcu import RCU, NODE, ZLN, GUARD, all_paths
from ..typestate import NonNull, use_after_invalidate
from . import c13
from .. import common

EXPLANATION = (
    "Path-sensitive analysis of the RCU log protocol (rcu_list.hpp, rcu_guarded.hpp) on every instantiation. "
    "Decided - necessary conditions of the grace-period argument: [C05.register] a handle registers (access() -> "
    "rcu_read_lock) before it hands out the list pointer and unregisters iff it registered; rcu_read_lock constructs "
    "the record owned by this guard and links its next BEFORE the CAS that publishes it; rcu_guarded::m_obj escapes "
    "only into the two handle constructors; [C05.unlink-first] in erase, on every path to the CAS that logs the node, "
    "the predecessor's next (or m_head) and the successor's back (or m_tail) were already redirected, the deleted flag "
    "was tested and set, and the logged record carries the erased node; [C05.reclaim] in rcu_guard::unlock the scan "
    "starts at the own record's successor (older records only), a path that destroys anything has seen no owned "
    "record and starts reclaiming from the same cursor, never frees its own record, and the final owner.store(nullptr) "
    "is the last access through the own record; [C05.uaf] in the reclaim loops the cursor is advanced before the "
    "record it came from is freed; [C05.who] who-writes table (m_zombie_head changed only by the two CAS pushes, owner "
    "only by the record constructor and unlock's final store, destroy/deallocate only in unlock, ~rcu_list and "
    "allocate_unique/deallocator); [C05.orders] memory-order floors (CAS >= acq_rel, owner store >= release / scan "
    "load >= acquire, link stores >= release, reader loads >= acquire); [C05.wmutex] structural stores under the write "
    "mutex. Not decided: the global argument that these local conditions imply safety for every interleaving.")
ASSUMPTIONS = ["handles are not copied (read_handle/write_handle are implicitly copyable; a copy shares the registration - outside the property's client programs)",
               "allocators are stateless or thread-safe"]

RG = "gmlc::libguarded::rcu_guarded"


def run(ctx):
    ctx.step(register, ctx)
    ctx.step(unlink_first, ctx, "C05.unlink-first", False)
    ctx.step(no_early_free, ctx)
    ctx.step(position_rule, ctx)
    ctx.step(reclaim, ctx)
    from . import c12
    ctx.step(c12.reentrancy_rule, ctx, "C05.reentrancy")
    ctx.step(c13.uaf, ctx, "C05.uaf", [f for f in ctx.fb.functions() if f.file.endswith("/rcu_list.hpp")], floor=20,
             kinds=("erased", "deleted", "deallocated"))
    ctx.step(who, ctx)
    ctx.step(common.raii_token_moves, ctx, "C05.balance", ["rcu_list.hpp", "rcu_guarded.hpp"])
    # loads: only erase's - links sampled before the mutex re-link stale (possibly already erased, soon freed) nodes into
    # the live list; an insertion's stale view loses an element but frees nothing early (C12's concern)
    ctx.step(common.rcu_writer_guard, ctx, "C05.wmutex", loads=("erase",))
    ctx.step(common.atomic_floors, ctx, "C05.orders", [RCU, NODE, ZLN], floor=30, files=["rcu_list.hpp"])
    ctx.step(common.witnesses, ctx, "C05.witness", ["C05"])


def _raii_guard(ctx, rid):
    """rcu_guard as an RAII object: (ok, detail) when it has a user-provided destructor, None otherwise.  Sound when
    (a) the destructor calls unlock() only under a test of the record pointer, (b) unlock() clears that pointer on every
    path (a guard released by hand - rcu_read_unlock / rcu_write_unlock stay public - is not released again), (c) the
    pointer starts out null, (d) the guard cannot be copied."""
    fb = ctx.fb
    key = "_raii_guard"
    if key in ctx.__dict__:
        return ctx.__dict__[key]
    res = None
    dts = [g for g in fb.functions(rec=GUARD, raw=True) if g.kind == "dtor" and not g.defaulted]
    dts = [g for g in dts if any(s["k"] == "CXXMemberCallExpr" and (s.get("callee") or {}).get("name") in ("unlock", "rcu_read_unlock", "rcu_write_unlock")
                                 for s in g.stmts.values())]
    if dts:
        problems = []
        for g in dts:
            nn = NonNull(g)
            for s in g.stmts.values():
                if s["k"] == "CXXMemberCallExpr" and (s.get("callee") or {}).get("name") in ("unlock", "rcu_read_unlock", "rcu_write_unlock"):
                    if not nn.known(g.pos_of(s), ("nn", "this.m_zombie")):
                        problems.append("~rcu_guard releases without testing m_zombie (a guard that never registered reads an unset record pointer)")
        for u in fb.functions(rec=GUARD, name="unlock", raw=True):
            clears = [s for s in u.stmts.values() if s["k"] == "BinaryOperator" and s.get("op") == "=" and
                      path(u, u.children(s)[0]) == "this.m_zombie" and
                      (unwrap(u, u.children(s)[1]) or {}).get("k") in ("CXXNullPtrLiteralExpr", "GNUNullExpr") and u.pos_of(s)]
            if not any(u.postdominates(tuple(u.pos_of(s)), (u.entry, 0)) for s in clears):
                problems.append("unlock() at %s leaves m_zombie set: a guard released through rcu_read_unlock / rcu_write_unlock is released "
                                "AGAIN by its destructor - on a record that may already have been reclaimed" % u.where)
        for r in fb.records(tmpl=GUARD):
            fl = r.field("m_zombie")
            cc = [m for m in r.methods if (m.get("copy_ctor") or m.get("copy_assign")) and not m.get("deleted")]
            if cc:
                problems.append("rcu_guard can be copied: two guards release one registration")
            inits_ok = any(g.kind == "ctor" and any(i.get("field") == "m_zombie" for i in g.inits) for g in fb.functions(rec=GUARD, raw=True)
                           if g.recq == r.qname)
            if fl is not None and not inits_ok:
                problems.append("m_zombie has no initialiser: the destructor of a guard that never registered tests an indeterminate pointer")
        res = (not problems, "; ".join(sorted(set(problems))))
    ctx.__dict__[key] = res
    return res


def _shared_record_mode(ctx):
    """rcu_read_lock has a path on which the guard takes over a record pointer kept in a static / thread_local variable"""
    key = "_rcu_shared_mode"
    if key not in ctx.__dict__:
        mode = False
        for f in ctx.fb.functions(rec=GUARD, name="rcu_read_lock", raw=True):
            for st in f.stmts.values():
                if st["k"] == "BinaryOperator" and st.get("op") == "=" and path(f, f.children(st)[0]) == "this.m_zombie" and \
                        re.match(r"^g:\w+$", path(f, f.children(st)[1]) or ""):
                    mode = True
        ctx.__dict__[key] = mode
        if mode:
            ctx.unknown("rcu_guard shares one log record between the handles of a thread; the rules that follow one record per "
                        "handle from registration to release do not describe that representation")
    return ctx.__dict__[key]


def register(ctx, rid="C05.register", handles=True, record=True):
    ctx.rule(rid, "handles register before handing out the list and unregister iff registered; the log record is "
             "complete (owner, next) before the CAS publishes it", floor=16)
    fb = ctx.fb
    n = 0
    for hc, lockfn, unlockfn in ((RG + "::read_handle", "rcu_read_lock", "rcu_read_unlock"),
                                 (RG + "::write_handle", "rcu_write_lock", "rcu_write_unlock")) if handles else ():
        # what tells a handle that it is registered: the bool next to the guard, or the guard itself being engaged
        tok = "this.m_accessed"
        for r_ in fb.records(tmpl=hc):
            if r_.field("m_accessed") is None and r_.field("m_guard") is not None and \
                    r_.field("m_guard")["type"].replace("mutable ", "").startswith("std::optional<"):
                tok = "this.m_guard"
        for f in fb.functions(rec=hc):
            if f.name in ("operator*", "operator->"):
                n += 1
                acc = [st for st in f.stmts.values() if st["k"] == "CXXMemberCallExpr" and st["callee"]["name"] == "access"
                       and path(f, f.s(st["obj"])) == "this"]
                rets = [st for st in f.stmts.values() if st["k"] == "ReturnStmt"]
                ok = len(acc) == 1 and bool(rets) and all(f.dominates(f.pos_of(acc[0]), f.pos_of(r)) for r in rets)
                ctx.ob(rid, ok, f.where, "%s registers (access()) before it returns the list pointer" % f.name,
                       "" if ok else "the list can be read before this handle is in the log", fn=f.label, inst=f.qname)
            elif f.name == "access":
                calls = [st for st in f.stmts.values() if st["k"] == "CXXMemberCallExpr" and st["callee"]["name"] == lockfn
                         and path(f, f.s(st["obj"])) == "this.m_guard"]
                sets = [st for st in f.stmts.values() if st["k"] == "BinaryOperator" and st["op"] == "=" and
                        path(f, f.children(st)[0]) == "this.m_accessed"]
                if tok == "this.m_guard":
                    # a local guard registers and is then stored into the optional: that store is the record of it
                    sets = [st for st in f.stmts.values() if st["k"] == "CXXOperatorCallExpr" and st.get("op") == "=" and len(st["args"]) == 2
                            and path(f, f.s(st["args"][0])) == "this.m_guard"] + \
                           [st for st in f.stmts.values() if st["k"] == "CXXMemberCallExpr" and st["callee"]["name"] == "emplace" and
                            path(f, f.s(st["obj"])) == "this.m_guard"]
                    srcs = {path(f, f.s(st["args"][1])) for st in sets if st["k"] == "CXXOperatorCallExpr"}
                    calls = [st for st in f.stmts.values() if st["k"] == "CXXMemberCallExpr" and st["callee"]["name"] == lockfn
                             and path(f, f.s(st["obj"])) in (srcs | {"this.m_guard"})]
                nn = NonNull(f)
                ok = len(calls) == 1 and path(f, f.s(calls[0]["args"][0])) == "*this.m_ptr" and \
                    nn.known(f.pos_of(calls[0]), ("null", tok))
                ctx.ob(rid, ok, f.where, "access() calls %s(*m_ptr) exactly when the handle is not yet registered" % lockfn,
                       "" if ok else "registration missing or not conditional on !m_accessed", fn=f.label, inst=f.qname)
                ok = len(sets) == 1 and bool(calls) and f.dominates(f.pos_of(calls[0]), f.pos_of(sets[0])) and \
                    (tok == "this.m_guard" or (unwrap(f, f.children(sets[0])[1]) or {}).get("v") is True)
                ctx.ob(rid, ok, f.where, "access() records the registration after making it", "", fn=f.label, inst=f.qname)
            elif f.kind == "dtor":
                calls = [st for st in f.stmts.values() if st["k"] == "CXXMemberCallExpr" and st["callee"]["name"] == unlockfn]
                if not calls:
                    rg = _raii_guard(ctx, rid)
                    if rg is not None:
                        # the registration is ended by the guard member's own destructor
                        ctx.ob(rid, rg[0], f.where, "the handle's guard member unregisters in its destructor exactly when it is registered, "
                               "and an explicit unlock leaves it unregistered", rg[1], fn=f.label, inst=f.qname)
                        continue
                nn = NonNull(f)
                ok = len(calls) == 1 and nn.known(f.pos_of(calls[0]), ("nn", tok))
                ctx.ob(rid, ok, f.where, "the destructor unregisters exactly when the handle registered", "" if ok else
                       "unlock is not conditional on m_accessed (an unregistered handle would read an unset record pointer)",
                       fn=f.label, inst=f.qname)
                # and on the accessed path it always unregisters
                if calls:
                    b = f.pos_of(calls[0])[0]
                    preds = f.blocks[b].preds
                    from ..flow import operand
                    ok = len(preds) == 1 and operand(f, f.s((f.blocks[preds[0]].term or {}).get("cond"))) == tok
                    ctx.ob(rid, ok, f.where, "a registered handle always unregisters in its destructor", "", fn=f.label, inst=f.qname)
    for f in (fb.functions(rec=RG) if handles else ()):
        if f.kind in ("ctor", "dtor"):
            continue
        for st in field_refs(f, RG):
            if st["m"]["name"] != "m_obj":
                continue
            acc, user = ctx.eng.classify_access(f, st)
            cur = user
            while cur is not None and cur["k"] in ("UnaryOperator", "ImplicitCastExpr", "ParenExpr"):
                cur = f.par(cur)
            ok = acc in ("addr", "addr-const") and cur is not None and cur["k"] in CTORS and \
                re.search(r"::(read|write)_handle$", cur.get("t", "")) is not None
            if f.name == "lock_read":
                ok = ok and acc == "addr-const"
            ctx.ob(rid, ok, f.loc(st), "rcu_guarded::m_obj escapes only into a handle constructor (const for lock_read)",
                   "" if ok else "use kind %s" % acc, fn=f.label, inst=f.qname)
    for f in (fb.functions(rec=GUARD, name="rcu_read_lock") if record else ()):
        n += 1
        try:
            ps = all_paths(f)
        except TooManyPaths:
            ctx.broken("too many paths in " + f.label)
        for pe in ps:
            ev = pe.events
            cas = [e for e in ev if e["k"] == "cas" and e["fld"] == (RCU, "m_zombie_head")]
            if not cas:
                # a handle may JOIN a record that is already registered (one record per thread, shared by its handles): then
                # it leaves with m_zombie pointing to that record.  Leaving without any record is what must not happen.
                ws = [e for e in ev if e["k"] == "write" and e["obj"] == "this.m_zombie"]
                joined = ws and ws[-1].get("val") and re.match(r"^g:\w+$", ws[-1]["val"]) and ws[-1].get("lit") is None
                if joined:
                    ctx.unknown("%s: %s: a handle can join the record %s of another handle of its thread instead of registering one; "
                                "when that shared record may be released is a protocol these rules do not describe"
                                % (rid, f.where, ws[-1]["val"][2:]))
                    ctx.__dict__["_rcu_shared_record"] = ws[-1]["val"]
                    continue
                ctx.ob(rid, False, f.where, "rcu_read_lock publishes its record with a CAS on m_zombie_head",
                       "a path registers nothing%s" % (" and leaves the handle without a record (m_zombie = nullptr): nothing keeps the "
                                                       "elements this handle reads from being reclaimed" if ws else ""), fn=f.label, inst=f.qname)
                continue
            c0 = cas[0]
            i0 = ev.index(c0)
            cons = [e for e in ev[:i0] if e["k"] == "construct"]
            ok = len(cons) == 1 and cons[0]["args"][1] == "this.m_zombie" and cons[0]["args"][2:] == ["this"]
            ctx.ob(rid, ok, f.loc(c0["st"]), "the record is constructed, owned by this guard, before it is published",
                   "" if ok else "construct events before the CAS: %s" % [e["args"] for e in cons], fn=f.label, inst=f.qname)
            for c in cas:
                i = ev.index(c)
                prev_cas = max([ev.index(x) for x in cas if ev.index(x) < i] + [-1])
                links = [e for e in ev[prev_cas + 1:i] if e["k"] == "astore" and e["obj"] == "this.m_zombie->next"]
                ok = bool(links) and links[-1]["val"] == c["expected"] and c["desired"] == "this.m_zombie"
                ctx.ob(rid, ok, f.loc(c["st"]), "each CAS attempt publishes the own record with next = the expected head",
                       "" if ok else "next stored: %s, CAS(expected=%s, desired=%s)" % ([l["val"] for l in links], c["expected"], c["desired"]),
                       fn=f.label, inst=f.qname)
        # the loop retries until the CAS succeeds
        from ..blocking import classify_loops
        ks = [k for _h, k, _d in classify_loops(f)]
        ok = ks == ["cas-retry"]
        ctx.ob(rid, ok, f.where, "registration retries until the CAS succeeds", "" if ok else str(ks), fn=f.label, inst=f.qname)
    for f in (fb.functions(rec=GUARD) if handles else ()):
        if f.name in ("rcu_write_lock",):
            c = [st for st in f.stmts.values() if st["k"] == "CXXMemberCallExpr" and st["callee"]["name"] == "rcu_read_lock"]
            ctx.ob(rid, len(c) == 1, f.where, "write handles register like read handles", "", fn=f.label, inst=f.qname)
        if f.name in ("rcu_read_unlock",):
            c = [st for st in f.stmts.values() if st["k"] == "CXXMemberCallExpr" and st["callee"]["name"] == "unlock"]
            ctx.ob(rid, len(c) == 1, f.where, "rcu_read_unlock releases through unlock()", "", fn=f.label, inst=f.qname)
        if f.name in ("rcu_write_unlock",):
            c = [st for st in f.stmts.values() if st["k"] == "CXXMemberCallExpr" and st["callee"]["name"] in ("unlock", "rcu_read_unlock")]
            ctx.ob(rid, len(c) == 1, f.where, "rcu_write_unlock releases through unlock()", "", fn=f.label, inst=f.qname)
    if n == 0:
        ctx.broken("rcu handles not instantiated")


def unlink_first(ctx, rid="C05.unlink-first", strict_values=True, all_or_nothing=False, nothrow_after_unlink=False):
    ctx.rule(rid, "erase: the node is unlinked from both neighbours (or head/tail) and marked deleted before the CAS that "
             "logs it; the logged record carries the erased node", floor=8)
    fs = list(ctx.fb.functions(rec=RCU, name="erase"))
    if not fs:
        ctx.broken("rcu_list::erase not instantiated")
    for f in fs:
        it = "p:" + f.params[0]["name"] + ".m_current"
        try:
            ps = all_paths(f)
        except TooManyPaths:
            ctx.broken("too many paths in " + f.label)
        seen = 0
        for pe in ps:
            ev = pe.events
            cas = [e for e in ev if e["k"] == "cas" and e["fld"] == (RCU, "m_zombie_head")]
            if not cas:
                # the already-deleted path: must not touch the structure
                ok = not any(e["k"] in ("astore", "armw", "write") for e in ev)
                ctx.ob(rid, ok, f.where, "a second erase of the same node changes nothing", "" if ok else
                       "stores on the already-deleted path", fn=f.label, inst=f.qname)
                continue
            seen += 1
            i0 = ev.index(cas[0])
            before = ev[:i0]
            # where oldPrev / oldNext come from
            fwd = [e for e in before if e["k"] == "astore" and e["fld"] in ((NODE, "next"), (RCU, "m_head"))
                   and not (e["obj"] or "").startswith(it)]
            bwd = [e for e in before if e["k"] == "astore" and e["fld"] in ((NODE, "back"), (RCU, "m_tail"))
                   and not (e["obj"] or "").startswith(it)]
            ok = len(fwd) == 1 and (len(bwd) == 1 or not strict_values)
            ctx.ob(rid, ok, f.loc(cas[0]["st"]), "before the node is logged, the forward link into it (predecessor's next or "
                   "m_head)%s redirected" % (" and the backward link (successor's back or m_tail) are" if strict_values else " is"),
                   "" if ok else "forward stores=%d backward stores=%d before the CAS: a reader that registers after the node "
                   "is logged can still walk into it" % (len(fwd), len(bwd)), fn=f.label, inst=f.qname)
            if ok and strict_values:
                # values: forward link receives the erased node's next, backward link its back
                nxt = [e for e in before if e["k"] == "aload" and e["obj"] == it + "->next"]
                bck = [e for e in before if e["k"] == "aload" and e["obj"] == it + "->back"]
                okv = bool(nxt) and bool(bck) and fwd[0]["valtok"] is not None and bwd[0]["valtok"] is not None and \
                    fwd[0]["valtok"].startswith("load:") and bwd[0]["valtok"].startswith("load:") and \
                    fwd[0]["valtok"].split("@")[0] in {"load:" + e["st"]["id"] for e in nxt} and \
                    bwd[0]["valtok"].split("@")[0] in {"load:" + e["st"]["id"] for e in bck}
                ctx.ob(rid, okv, f.loc(fwd[0]["st"]), "the neighbours are joined to each other (next := erased->next, back := erased->back)",
                       "" if okv else "values stored do not come from the erased node's own links", fn=f.label, inst=f.qname)
            dl = [e for e in before if e["k"] == "write" and e["obj"] == it + "->deleted" and e["lit"] is True]
            ok = len(dl) == 1
            ctx.ob(rid, ok, f.loc(cas[0]["st"]), "the node is marked deleted before it is logged", "", fn=f.label, inst=f.qname)
            if all_or_nothing and dl and (fwd or bwd):
                # marking and unlinking must not be separated by anything that can throw: a node that is marked but
                # still linked can never be erased again (every later erase sees 'deleted' and returns)
                i_mark = ev.index(dl[0])
                i_last = max(ev.index(e) for e in fwd + bwd)
                lo, hi = min(i_mark, i_last), max(i_mark, i_last)
                thr = [e for e in ev[lo:hi] if e["k"] in ("allocate", "construct")]
                ctx.ob(rid, not thr, f.loc(thr[0]["st"]) if thr else f.loc(dl[0]["st"]),
                       "nothing that can throw runs between marking the node deleted and unlinking it",
                       "" if not thr else "%s may throw here: the node stays in the list but is already marked deleted, so "
                       "no later erase can remove it" % thr[0]["k"], fn=f.label, inst=f.qname)
            if nothrow_after_unlink and (fwd or bwd):
                # once the node is marked / unlinked, the log record is the only way it is ever freed: everything that
                # can fail (the record's allocation) has to happen before
                i_first = min(ev.index(e) for e in (fwd + bwd) or dl)
                thr = [e for e in ev[i_first:i0] if e["k"] in ("allocate", "construct")]
                ctx.ob(rid, not thr, f.loc(thr[0]["st"]) if thr else f.loc(cas[0]["st"]),
                       "the reclamation record is allocated before the node is marked or unlinked (no failure point between "
                       "unlinking and logging)", "" if not thr else "%s may throw after the node left the list: it is then in "
                       "neither the list nor the log and is never destroyed or deallocated" % thr[0]["k"], fn=f.label, inst=f.qname)
            cons = [e for e in before if e["k"] == "construct"]
            itok = pe.tf.get(it)
            ok = len(cons) == 1 and len(cons[0]["args"]) == 3 and \
                (cons[0]["args"][2] == it or (cons[0]["toks"][2] is not None and cons[0]["toks"][2] == itok)) and \
                all(c["desired"] == cons[0]["args"][1] for c in cas)
            ctx.ob(rid, ok, f.loc(cas[0]["st"]), "the logged record carries the erased node", "" if ok else
                   "construct args %s / CAS desired %s" % ([c["args"] for c in cons], [c["desired"] for c in cas]),
                   fn=f.label, inst=f.qname)
            own = [e for e in ev if e["k"] in ("astore", "armw") and (e["obj"] or "").startswith(it + "->")]
            ok = not own
            ctx.ob(rid, ok, f.where, "erase never writes the erased node's own links (a reader standing on it can still advance)",
                   "" if ok else "store to %s" % own[0]["obj"], fn=f.label, inst=f.qname)
        ctx.ob(rid, seen > 0, f.where, "erase has a path that logs the node", "", fn=f.label, inst=f.qname)


def reclaim(ctx, rid="C05.reclaim"):
    ctx.rule(rid, "unlock: scan starts after the own record; reclaim only on paths that saw no owned record, from the "
             "same cursor; own record never freed; owner.store(nullptr) is the last access through the own record", floor=10)
    fs = list(ctx.fb.functions(rec=GUARD, name="unlock"))
    if not fs:
        ctx.broken("rcu_guard::unlock not instantiated")
    for f in fs:
        f = inline(f)
        try:
            ps = all_paths(f)
        except TooManyPaths:
            ctx.broken("too many paths in " + f.label)
        n_reclaim = 0
        for pe in ps:
            ev = pe.events
            # (a) the first record whose owner is examined is the own record's successor
            own_next = [e for e in ev if e["k"] == "aload" and e["obj"] == "this.m_zombie->next"]
            owner_loads = [e for e in ev if e["k"] == "aload" and e["fld"] == (ZLN, "owner")]
            if owner_loads:
                first = owner_loads[0]
                ok = bool(own_next) and first["objtok"] is not None and \
                    first["objtok"].split("@")[0] == "load:" + own_next[0]["st"]["id"]
                ctx.ob(rid, ok, f.loc(first["st"]), "the scan starts at the own record's successor (only OLDER records are examined)",
                       "" if ok else "first examined record is not m_zombie->next", fn=f.label, inst=f.qname)
            frees = [e for e in ev if e["k"] in ("destroy", "deallocate")]
            owned = [e for e in ev if e["k"] == "branch" and any(
                a[0] == "eq" and isinstance(a[1], str) and a[1].endswith("->owner") and a[2] == "nullptr" and a[3] is False
                for a in e["atoms"])]
            if frees:
                n_reclaim += 1
                ok = not owned
                ctx.ob(rid, ok, f.loc(frees[0]["st"]), "nothing is reclaimed on a path that saw a record still owned by a live handle",
                       "" if ok else "an older reader is still active (owner != nullptr) yet records are destroyed: that reader "
                       "may still reach the nodes they carry", fn=f.label, inst=f.qname)
                ok = bool(owner_loads)
                if not ok:
                    # the scan may be delegated (an algorithm call, a helper): the reclaiming branch is then decided by
                    # a call result this interpreter cannot open - undecided, not a violation
                    i_free = ev.index(frees[0])
                    opaque = [e for e in ev[:i_free] if e["k"] == "branch" and
                              any(str(t or "").startswith("call:") for t in e["toks"].values())]
                    if opaque:
                        ctx.unknown("%s: %s: reclamation in unlock is decided by the result of a call (%s) that the path "
                                    "interpreter cannot open; cannot tell whether the older records were scanned"
                                    % (rid, f.loc(frees[0]["st"]), f.loc(opaque[-1]["cond"]) if opaque[-1].get("cond") else "?"))
                        continue
                ctx.ob(rid, ok, f.loc(frees[0]["st"]), "reclamation happens only after the older records were scanned",
                       "" if ok else "no owner was examined on this path", fn=f.label, inst=f.qname)
                # same cursor: the first freed record is the first scanned one
                zfree = [e for e in frees if e["args"] and len(e["args"]) > 1 and e["toks"][1] is not None]
                rec_free = [e for e in frees if re.search(r"zombie_list_node", e["st"].get("callee", {}).get("qname", ""))]
                if rec_free and own_next:
                    t = rec_free[0]["toks"][1]
                    ok = t is not None and t.split("@")[0] == "load:" + own_next[0]["st"]["id"]
                    ctx.ob(rid, ok, f.loc(rec_free[0]["st"]), "reclamation starts from the cursor the scan started from",
                           "" if ok else "first freed record is not m_zombie->next", fn=f.label, inst=f.qname)
                for e in frees:
                    ok = "this.m_zombie" not in (e["args"] or [])
                    if not ok:
                        ctx.ob(rid, False, f.loc(e["st"]), "unlock never frees its own record", "", fn=f.label, inst=f.qname)
            # (e) final owner.store(nullptr)
            fin = [e for e in ev if e["k"] == "astore" and e["obj"] == "this.m_zombie->owner"]
            if not fin and _shared_record_mode(ctx):
                continue        # a handle that shares its thread's record leaves it registered for the others (undecided above)
            ok = len(fin) == 1 and fin[0]["lit"] == "CXXNullPtrLiteralExpr"
            if ok:
                i = ev.index(fin[0])
                # (re-pointing the guard's own member - `m_zombie = nullptr` - does not touch the record)
                later = [e for e in ev[i + 1:] if ((e.get("obj") or "").startswith("this.m_zombie") and
                                                   not (e["k"] == "write" and e.get("obj") == "this.m_zombie")) or
                         any((a or "").startswith("this.m_zombie") for a in (e.get("args") or []))]
                ok = not later
            ctx.ob(rid, ok, f.where, "owner.store(nullptr) happens once and nothing touches the own record afterwards",
                   "" if ok else "the record is released to reclaimers before unlock is done with it", fn=f.label, inst=f.qname)
            relink = [e for e in ev if e["k"] == "astore" and e["obj"] == "this.m_zombie->next"]
            if frees:
                okr = len(relink) == 1 and fin and ev.index(relink[0]) < ev.index(fin[0])
                ctx.ob(rid, bool(okr), f.where, "after reclaiming, the own record's next is re-linked past the freed records before it is released",
                       "" if okr else "dangling next left in the own record", fn=f.label, inst=f.qname)
        ctx.ob(rid, n_reclaim > 0, f.where, "unlock has a reclaiming path", "", fn=f.label, inst=f.qname)


def who(ctx):
    rid = "C05.who"
    ctx.rule(rid, "who-writes: m_zombie_head only by the two CAS pushes; owner only by unlock's final store; "
             "destroy/deallocate only in unlock, ~rcu_list, deallocator, allocate_unique", floor=10)
    fb = ctx.fb
    for f in fb.functions():
        if not f.file.endswith("/rcu_list.hpp") and not f.file.endswith("/rcu_guarded.hpp"):
            continue
        for op in atomic_ops(f):
            fld = atomic_field_of(f, op)
            if fld == (RCU, "m_zombie_head") and op["op"] != "load":
                # the log grows by CAS pushes only: a handle registering itself, or a writer (m_write_mutex held) retiring nodes
                pos_ = f.pos_of(op["st"])
                writer = f.rec == RCU and pos_ is not None and ctx.eng.locks(f).holds(pos_, "this.m_write_mutex", "X")
                ok = op["op"] == "cas" and (f.name in ("rcu_read_lock", "erase") or writer)
                ctx.ob(rid, ok, f.loc(op["st"]), "m_zombie_head changes only through CAS pushes (a registering handle, or a writer "
                       "holding m_write_mutex)", "" if ok else "%s in %s" % (op["name"], f.name), fn=f.label, inst=f.qname)
            if fld == (ZLN, "owner") and op["op"] != "load":
                ok = f.name == "unlock" and f.rec == GUARD and op["op"] == "store"
                ctx.ob(rid, ok, f.loc(op["st"]), "owner is cleared only by rcu_guard::unlock", "" if ok else
                       "%s in %s" % (op["name"], f.name), fn=f.label, inst=f.qname)
        # a node belongs to the list whose reclamation log will one day carry its record: no operation moves node
        # pointers from one list OBJECT into the links of another (swap / splice / move that leaves the logs behind
        # makes a node erasable through a list whose log the node's readers are not registered in)
        others = {"p:" + pd["name"] for pd in f.params
                  if re.match(r"^(const )?(gmlc::libguarded::)?rcu_list(<.*>)? ?&&?$", pd.get("type", "").strip())
                  and ">::" not in pd.get("type", "")} if f.rec == RCU else set()
        if others:
            for op in atomic_ops(f):
                if op["op"] != "store" or op.get("value") is None:
                    continue
                fld = atomic_field_of(f, op)
                if fld is None or fld[1] not in ("m_head", "m_tail", "next", "back"):
                    continue
                vp = path(f, op["value"]) or ""
                src_other = any(vp == o or vp.startswith(o + ".") or vp.startswith(o + "->") for o in others)
                if not src_other:
                    # through a local that was loaded from the other list
                    ve = unwrap(f, op["value"])
                    if ve is not None and ve["k"] == "DeclRefExpr" and ve["d"].get("k") == "local":
                        for s2 in f.stmts.values():
                            if s2["k"] == "DeclStmt":
                                for dd in s2["decls"]:
                                    if dd["id"] == ve["d"].get("id") and dd.get("init"):
                                        ip = path(f, f.s(dd["init"])) or ""
                                        src_other = any(ip.startswith(o + ".") or ip.startswith(o + "->") for o in others)
                dst_other = any((op["obj"] or "").startswith(o + ".") or (op["obj"] or "").startswith(o + "->") for o in others)
                ok = not (src_other != dst_other) and not (src_other and dst_other and False)
                if src_other or dst_other:
                    ctx.ob(rid, src_other == dst_other and not src_other, f.loc(op["st"]),
                           "%s keeps every node in the list (and reclamation log) it was inserted into" % f.name,
                           "node pointers move between two list objects (%s <- %s) while each list keeps its own log of "
                           "registered readers and retired nodes: a node erased through its new list is freed without regard to "
                           "the readers registered in the old one" % (op["obj"], vp or "a value loaded from the other list"),
                           fn=f.label, inst=f.qname)
        for st in f.stmts.values():
            if st["k"] == "CallExpr" and re.match(r"^std::allocator_traits<.*>::(destroy|deallocate)$", callee_fq(st)):
                top_ = f
                if f.is_lambda:
                    from ..guards import top_function
                    top_ = top_function(ctx.fb, f) or f      # a clean-up closure belongs to the function that wrote it
                ok = (f.name == "unlock" and f.rec == GUARD) or (f.kind == "dtor" and f.rec == RCU) or \
                    top_.name in ("allocate_unique",) or f.rec == "gmlc::libguarded::detail::deallocator"
                if not ok and len(st["args"]) > 1 and "zombie_list_node" in (f.s(st["args"][1]) or {}).get("t", "") and \
                        any(a_["k"] == "CXXCatchStmt" for a_ in f.ancestors(st)):
                    ok = True       # roll-back of reclamation records that were allocated but never pushed onto the log
                ctx.ob(rid, ok, f.loc(st), "list memory is freed only by unlock, ~rcu_list, deallocator and allocate_unique",
                       "" if ok else "freed in %s" % f.name, fn=f.label, inst=f.qname)


def position_rule(ctx, rid="C05.position"):
    """a node that was erased is waiting for its last readers and will then be freed: nothing may be linked next to it
    any more.  An insertion that takes its place from an iterator tests node::deleted of that node (under the write
    mutex) before it links - otherwise the retired node becomes reachable again through the new one and is freed under
    the next traversal."""
    ctx.rule(rid, "an insertion at an iterator position checks that the position has not been erased", floor=0)
    for f in ctx.fb.functions(rec=RCU):
        if f.kind in ("ctor", "dtor") or f.name == "erase":
            continue
        if not any(st["k"] == "CallExpr" and callee_fq(st) == "gmlc::libguarded::detail::allocate_unique" for st in f.stmts.values()):
            continue
        its = ["p:" + pd["name"] for pd in f.params if "iterator" in pd.get("type", "")]
        used = [st for st in f.stmts.values() if st["k"] == "MemberExpr" and st["m"].get("name") == "m_current" and
                path(f, f.s(st.get("base"))) in its]
        if not used:
            continue
        tests = [st for st in f.stmts.values() if st["k"] == "MemberExpr" and st["m"].get("name") == "deleted"]
        la = ctx.eng.locks(f)
        ok = bool(tests) and all(f.pos_of(t) and la.holds(f.pos_of(t), "this.m_write_mutex", "X") for t in tests)
        ctx.ob(rid, ok, f.loc(used[0]), "%s refuses a position whose node has been erased" % f.name, "" if ok else
               "the node the iterator stands on is used as a neighbour without a test of node::deleted%s: a node another writer "
               "erased a moment ago gets relinked, is reclaimed as scheduled, and traversals then walk freed memory"
               % ("" if not tests else " under the write mutex"), fn=f.label, inst=f.qname)


def no_early_free(ctx):
    """erase must not hand the unlinked node (which earlier readers may still stand on) to anything that destroys it:
    no destroying smart pointer owns it, no destroy/deallocate of it inside erase - on any exit, exceptional ones
    included (a unique_ptr deleter runs during unwinding)"""
    rid = "C05.no-early-free"
    ctx.rule(rid, "erase never gives the unlinked node to a destroying owner (it may only travel into the log record)", floor=2)
    for f in ctx.fb.functions(rec=RCU, name="erase"):
        it = "p:" + f.params[0]["name"] + ".m_current"
        bad = None
        for st in f.stmts.values():
            if st["k"] in CTORS and st.get("t", "").startswith("std::unique_ptr<") and "deallocator" in st.get("t", "") and st["args"]:
                if path(f, f.s(st["args"][0])) == it:
                    bad = (st, "a unique_ptr with the destroy+deallocate deleter takes the erased node: if anything between here "
                               "and the log push throws (e.g. the record allocation), the node is freed while earlier readers still reach it")
            if st["k"] == "CallExpr" and re.match(r"^std::allocator_traits<.*>::(destroy|deallocate)$", callee_fq(st)) and \
                    len(st["args"]) > 1 and path(f, f.s(st["args"][1])) == it:
                bad = (st, "erase frees the node itself")
            if st["k"] == "CXXDeleteExpr" and path(f, f.s(st["arg"])) == it:
                bad = (st, "erase deletes the node itself")
        ctx.ob(rid, bad is None, f.loc(bad[0]) if bad else f.where, "the erased node is only handed to the log",
               bad[1] if bad else "", fn=f.label, inst=f.qname)
