"""C03 - lr_guarded readers see only complete, current states."""
import re
from ..engine import CALLS, CTORS, atomic_ops, atomic_field_of, path, unwrap, callee_fq
from ..facts import short
from ..flow import TooManyPaths
from ..guards import field_refs, effective_access, READ_KINDS
from ..lr import LR, run_paths
from ..typestate import NonNull
from .. import common

EXPLANATION = (
    "Path-sensitive analysis of lr_guarded::modify, lock_shared and shared_deleter on every instantiation "
    "(lr_guarded<P> and lr_guarded<shared_ptr<const P>> inside cow_guarded): every CFG path is executed over a "
    "small symbolic state (values of the loaded flags, targets of the two write pointers), giving per valuation "
    "the ordered protocol events. Decided - the necessary conditions of the left-right safety argument: "
    "[C03.wmutex] every event of modify happens with m_writeMutex held (writers one at a time); [C03.first] the "
    "first application goes to the copy readers are NOT directed to, precedes the flip of m_readingLeft, and the "
    "flip stores the negation of the loaded value; [C03.drain] after the flip and before the second application "
    "each of the two reader counters is observed zero by a loop whose only exit is 'counter == 0', and the second "
    "application goes to the other copy; [C03.reader] a reader increments the counter selected by m_countingLeft "
    "BEFORE it loads m_readingLeft, gets the copy selected by that load, and its deleter is bound to the counter "
    "it incremented; the deleter decrements iff the pointer is non-null; try forms only forward to lock_shared; "
    "[C03.sc] memory-order floors (Dekker pattern: flag stores, counter increments, counter loads and reader-side "
    "flag loads seq_cst; departure >= release); [C03.who] who-writes table; [C03.witness] the handle is const and "
    "move-only. Not decided: linearizability / monotonic reads as such (they follow from these conditions by the "
    "left-right proof, which is not mechanised here).")
ASSUMPTIONS = ["the functor makes the same modification on both invocations (documented requirement)",
               "std::unique_ptr invokes its deleter exactly once, iff the pointer is non-null"]

DEL = LR + "::shared_deleter"
FLAGS = ("m_readingLeft", "m_countingLeft")
COUNTERS = ("m_leftReadCount", "m_rightReadCount")


def deleter_counter_based(ctx):
    """the reader / deleter rules follow a registration that lock_shared() performs itself and shared_deleter gives back
    through a reference to the counter (m_readingCount).  With another representation (a registration object owned by
    the deleter, ...) they cannot be applied: analysis broken, not a violation."""
    recs = [r for r in ctx.fb.records() if r.qname.startswith(LR) and r.qname.endswith("::shared_deleter") and not r.dependent]
    if not recs:
        return False
    for r in recs:
        fl = r.field("m_readingCount")
        if fl is None or not re.match(r"^std::atomic<.*>\s*&$", fl["type"]):
            return False
    return True


def _representation_changed(ctx, rid):
    ctx.unknown("%s: lr_guarded::shared_deleter no longer refers to its counter through the reference member m_readingCount; "
                "the rules that pair lock_shared()'s registration with the deleter's decrement describe that "
                "representation and cannot judge another one" % rid)


def apply_once_copy_over(ctx):
    """representation anchor: the rules describe the protocol 'apply the functor to one copy, switch the readers, drain,
    apply it to the other copy'.  A writer that applies the functor ONCE and brings the other copy up to date by
    assigning it from the first (outside any exception handler) follows another protocol; these rules cannot judge it.
    Returns the text of that finding, or None."""
    fb = ctx.fb
    once = [f for f in writer_functions(ctx) if len(_applications(f)) == 1]
    if not once:
        return None
    for g in fb.functions(rec=LR):
        if g.kind in ("ctor", "dtor"):
            continue
        handler_ids = set()
        for t in [s for s in g.stmts.values() if s["k"] == "CXXCatchStmt"]:
            handler_ids |= {d["id"] for d in g.descendants(t)}
        for st in g.stmts.values():
            if st["id"] in handler_ids or not (st["k"] in ("BinaryOperator", "CXXOperatorCallExpr") and st.get("op") == "="):
                continue
            ch = g.children(st) if st["k"] == "BinaryOperator" else [g.s(a) for a in st["args"]]
            if len(ch) != 2:
                continue
            sides = []
            for c in ch:
                p = path(g, c) or ""
                pp = ptr_of(g, c)
                tgt = None
                if p in ("this.m_left", "this.m_right"):
                    tgt = p
                elif pp:
                    # a pointer chosen between the two copies
                    for s2 in g.stmts.values():
                        if s2["k"] == "DeclStmt":
                            for d in s2["decls"]:
                                if "l:" + d["name"] == pp and d.get("init") and any(
                                        x["k"] == "MemberExpr" and x["m"].get("name") in ("m_left", "m_right") for x in g.descendants(g.s(d["init"]))):
                                    tgt = pp
                sides.append(tgt)
            if all(sides) and sides[0] != sides[1]:
                return "%s applies the functor once and %s assigns one copy from the other at %s" % (once[0].name, g.name, g.loc(st))
    return None


def writer_functions(ctx):
    """the writer operations of lr_guarded: modify(), and whatever else (added later) stores a protocol flag or uses one
    of the two copies as non-const - each of them is held to the whole writer protocol"""
    key = "_lr_writers"
    if key in ctx.__dict__:
        return ctx.__dict__[key]
    out = []
    for f in ctx.fb.functions(rec=LR):
        if f.kind in ("ctor", "dtor") or f.is_lambda:
            continue
        w = f.name == "modify"
        if not w:
            for op in atomic_ops(f):
                fld = atomic_field_of(f, op)
                if fld and fld[0] == LR and fld[1] in FLAGS and op["op"] != "load":
                    w = True
        if not w:
            for st in field_refs(f, LR):
                if st["m"]["name"] in ("m_left", "m_right") and effective_access(ctx.eng, f, st)[0] not in READ_KINDS:
                    w = True
        if w:
            out.append(f)
    ctx.__dict__[key] = out
    return out


def lr_functions(ctx, name):
    return list(ctx.fb.functions(rec=LR, name=name))


def counters_are_atomics(ctx):
    """the protocol rules read the two reader counters as std::atomic integers that lock_shared() increments and the
    writer polls; a counter that became an object of its own (striped slots, a registration class) is another
    representation"""
    recs = [r for r in ctx.fb.records(tmpl=LR)]
    if not recs:
        return False
    for r in recs:
        for c in COUNTERS:
            fl = r.field(c)
            if fl is None or not re.match(r"^std::atomic<[^<>]*>$", fl["type"]):
                return False
    return True


def run(ctx):
    other = apply_once_copy_over(ctx)
    if other:
        ctx.unknown("C03: %s: a writer protocol other than apply / switch / drain / apply; the rules that follow the two "
                    "applications cannot judge it" % other)
        ctx.step(reader_rules, ctx)
        ctx.step(deleter_rules, ctx)
        ctx.step(who, ctx)
        ctx.step(common.init_order, ctx, "C03.init", [LR], floor=4)
        ctx.step(initial_state, ctx)
        ctx.step(common.witnesses, ctx, "C03.witness", ["C03"])
        return
    if not counters_are_atomics(ctx):
        ctx.unknown("C03: lr_guarded's reader counters are no longer plain std::atomic integers; the rules that follow "
                    "registration, drain and release through them describe that representation and cannot judge another one")
        ctx.step(handler_rules, ctx)
        ctx.step(lr_handlers, ctx, "C03.rollback")
        ctx.step(deleter_rules, ctx)
        ctx.step(common.init_order, ctx, "C03.init", [LR], floor=4)
        ctx.step(common.witnesses, ctx, "C03.witness", ["C03"])
        return
    ctx.step(modify_rules, ctx)
    ctx.step(handler_rules, ctx)
    ctx.step(lr_handlers, ctx, "C03.rollback")
    ctx.step(reader_rules, ctx)
    ctx.step(deleter_rules, ctx)
    ctx.step(common.atomic_floors, ctx, "C03.sc", [LR, DEL], floor=20, files=["lr_guarded.hpp"])
    ctx.step(who, ctx)
    ctx.step(common.init_order, ctx, "C03.init", [LR], floor=4)
    ctx.step(initial_state, ctx)
    ctx.step(own_functors, ctx)
    ctx.step(common.witnesses, ctx, "C03.witness", ["C03"])


def own_functors(ctx, rid="C03.same-twice"):
    """modify() applies its functor once to each copy and the two copies must end equal.  A caller's functor is the
    caller's business (the documentation asks for a repeatable one); a functor the LIBRARY writes - cow_guarded's commit,
    an assignment or swap expressed through modify() - must compute the same thing both times: it may use its parameter,
    values it captured by copy and constants, but it must not look at shared state again (take another read handle, load
    an atomic, read through a captured reference to an object other threads can change)."""
    ctx.rule(rid, "closures the library itself hands to lr_guarded::modify do not re-read shared state", floor=1)
    fb = ctx.fb
    n = 0
    READERS = ("lock_shared", "try_lock_shared", "try_lock_shared_for", "try_lock_shared_until", "lock", "try_lock", "load", "read",
               "lock_read", "lock_write")
    for f in fb.functions():
        if not f.file.endswith(("/lr_guarded.hpp", "/cow_guarded.hpp")):
            continue
        for st in f.stmts.values():
            if st["k"] != "CXXMemberCallExpr" or (st.get("callee") or {}).get("name") != "modify" or \
                    (st.get("callee") or {}).get("rec") != LR or not st["args"]:
                continue
            lam = unwrap(f, f.s(st["args"][0]))
            while lam is not None and lam["k"] in CTORS and len(lam["args"]) == 1:
                lam = unwrap(f, f.s(lam["args"][0]))
            if lam is None or lam["k"] != "LambdaExpr":
                continue
            for oid in lam.get("call_ops", []):
                g = f.unit.fn_by_id.get(oid)
                if g is None:
                    continue
                n += 1
                bad = None
                for s2 in g.stmts.values():
                    c = s2.get("callee") or {}
                    if s2["k"] == "CXXMemberCallExpr" and c.get("inrepo") and c.get("name") in READERS:
                        bad = "%s() at %s" % (c.get("name"), g.loc(s2))
                    elif s2["k"] == "CXXMemberCallExpr" and c.get("name") in ("load", "exchange", "fetch_add", "fetch_sub") and \
                            re.match(r"^(const )?std::atomic", (g.s(s2.get("obj")) or {}).get("t", "")):
                        bad = "atomic %s() at %s" % (c.get("name"), g.loc(s2))
                ctx.ob(rid, bad is None, f.loc(st), "the functor %s hands to modify() computes the same value on both applications" % f.name,
                       "" if bad is None else "it reads shared state again (%s): between the two applications that state can change, and "
                       "the two copies end up different - readers then see the value flip back and forth with every later modify()" % bad,
                       fn=f.label, inst=f.qname)
    if n == 0:
        ctx.broken("no library-written functor is handed to lr_guarded::modify (cow_guarded's commit not found: anchor vanished)")


def opposite(rl):
    return "m_right" if rl else "m_left"


def same(rl):
    return "m_left" if rl else "m_right"


def modify_rules(ctx):
    ctx.rule("C03.wmutex", "every protocol event of modify happens with m_writeMutex held exclusively", floor=8)
    ctx.rule("C03.first", "first application targets the copy readers are not using, precedes the flip of "
             "m_readingLeft; the flip stores the negated loaded value", floor=8)
    ctx.rule("C03.drain", "between the flip and the second application each reader counter is observed zero by a "
             "loop that exits only on zero; the second application targets the other copy", floor=8)
    eng = ctx.eng
    fs = writer_functions(ctx)
    if not fs:
        ctx.broken("lr_guarded::modify not instantiated")
    for f in fs:
        la = eng.locks(f)
        try:
            runs = run_paths(f)
        except TooManyPaths:
            ctx.broken("too many paths in " + f.label)
        if not runs:
            ctx.broken("no feasible path through " + f.label)
        seen_val = set()
        if any(e[0] in ("unknown-atomic", "unknown-helper") for r in runs for e in r.events):
            ctx.unknown("C03: %s performs atomic operations through an alias the path interpreter cannot resolve" % f.label)
            continue
        for r in runs:
            ev = r.events
            site = f.where
            loads_rl = [e for e in ev if e[0] == "load" and e[1] == "m_readingLeft"]
            rl = r.assume.get(loads_rl[0][2]) if loads_rl else None
            loads_cl = [e for e in ev if e[0] == "load" and e[1] == "m_countingLeft"]
            cl = r.assume.get(loads_cl[0][2]) if loads_cl else None
            applies = [(i, e) for i, e in enumerate(ev) if e[0] == "apply"]
            st_rl = [(i, e) for i, e in enumerate(ev) if e[0] == "store" and e[1] == "m_readingLeft"]
            st_cl = [(i, e) for i, e in enumerate(ev) if e[0] == "store" and e[1] == "m_countingLeft"]
            tag = "readingLeft=%s countingLeft=%s" % (rl, cl)
            # wmutex
            for e in ev:
                if e[0] in ("load", "store", "rmw", "apply") and len(e) > 3 and e[3] is not None:
                    ok = la.holds(e[3], "this.m_writeMutex", "X")
                    ctx.ob("C03.wmutex", ok, f.loc(e[4]), "%s in modify happens under m_writeMutex" % e[0],
                           "" if ok else "write mutex not held", fn=f.label, inst=f.qname)
            if not applies and not st_rl and not st_cl and f.name != "modify":
                continue        # a path of a later writer operation that gives up before it starts (a failed try-lock)
            # the two selectors are flipped together: no user code runs between the flip of m_readingLeft and the flip of
            # m_countingLeft (a functor that throws there leaves them different for good - every later modification then
            # starts from a wrong picture of which copy readers use and which counter they register in)
            if st_rl and st_cl:
                lo, hi = sorted((st_rl[0][0], st_cl[0][0]))
                mid = [e for i, e in applies if lo < i < hi]
                ctx.ob("C03.first", not mid, f.loc(mid[0][4]) if mid else f.where, "no application of the functor lies between the two flag flips (%s)" % tag,
                       "" if not mid else "the functor runs after one selector was flipped and before the other: if it throws, the handler "
                       "restores the copy but the selectors stay different", fn=f.label, inst=f.qname)
            if rl is None and len(applies) == 2 and len(st_rl) == 1:
                ctx.unknown("C03.first: cannot resolve the value of m_readingLeft along a path of %s" % f.label)
                continue
            if rl is None or len(applies) != 2 or len(st_rl) != 1:
                ctx.ob("C03.first", False, site, "modify has the shape load flag / apply / flip / drain / apply (%s)" % tag,
                       "applications=%d flips=%d flag value resolved=%s" % (len(applies), len(st_rl), rl is not None),
                       fn=f.label, inst=f.qname)
                continue
            (i1, a1), (i2, a2) = applies
            isr, sr = st_rl[0]
            ok = a1[1] == opposite(rl)
            ctx.ob("C03.first", ok, f.loc(a1[4]), "first application writes the copy readers are NOT directed to (%s)" % tag,
                   "" if ok else "it writes %s while readers are directed to %s" % (a1[1], same(rl)),
                   fn=f.label, inst=f.qname)
            ok = i1 < isr
            ctx.ob("C03.first", ok, f.loc(sr[4]), "the flip of m_readingLeft comes after the first application (%s)" % tag,
                   "" if ok else "readers are redirected to a copy that has not been modified yet", fn=f.label, inst=f.qname)
            v = r.concrete(sr[2])
            ok = v is not None and v == (not rl)
            ctx.ob("C03.first", ok, f.loc(sr[4]), "the flip stores the negation of the loaded m_readingLeft (%s)" % tag,
                   "" if ok else "stores %s" % (v,), fn=f.label, inst=f.qname)
            ok = a2[1] == same(rl) and a2[1] != a1[1]
            ctx.ob("C03.drain", ok, f.loc(a2[4]), "second application writes the other copy (%s)" % tag,
                   "" if ok else "it writes %s" % a2[1], fn=f.label, inst=f.qname)
            # drains between flip and second application: loop exits (cond false)
            drained = set()
            for i, e in enumerate(ev):
                if e[0] == "zero" and isr < i < i2:
                    drained |= set(e[1])
            for c in COUNTERS:
                ok = c in drained
                ctx.ob("C03.drain", ok, f.loc(a2[4]), "%s is observed zero after the flip and before the second application (%s)"
                       % (c, tag), "" if ok else "readers registered in %s may still be reading the copy about to be written" % c,
                       fn=f.label, inst=f.qname)
            if len(st_cl) == 1 and cl is not None:
                v = r.concrete(st_cl[0][1][2])
                ok = v is not None and v == (not cl)
                ctx.ob("C03.drain", ok, f.loc(st_cl[0][1][4]), "m_countingLeft is flipped to the negation of its loaded value (%s)" % tag,
                       "" if ok else "stores %s" % (v,), fn=f.label, inst=f.qname)
            seen_val.add((rl, cl))
        ok = {rl for rl, _ in seen_val} == {True, False}
        if not seen_val:
            continue        # no path of this function could be resolved: reported as undecided above, not as a verdict
        ctx.ob("C03.first", ok, f.where, "both values of m_readingLeft are handled", "" if ok else str(seen_val),
               fn=f.label, inst=f.qname)


def reader_rules(ctx, rid="C03.reader"):
    ctx.rule(rid, "reader: increment of the counter selected by m_countingLeft precedes the load of m_readingLeft; "
             "returned pointer is the copy selected by that load; deleter bound to the incremented counter", floor=8)
    fs = lr_functions(ctx, "lock_shared")
    if not fs:
        ctx.broken("lr_guarded::lock_shared not instantiated")
    if not deleter_counter_based(ctx):
        _representation_changed(ctx, rid)
        return
    for f in fs:
        try:
            runs = run_paths(f)
        except TooManyPaths:
            ctx.broken("too many paths in " + f.label)
        vals = set()
        if any(e[0] in ("unknown-atomic", "unknown-helper") for r in runs for e in r.events):
            ctx.unknown("C03.reader: %s performs atomic operations through an alias the path interpreter cannot resolve; "
                        "the reader rules cannot be applied to this shape" % f.label)
            continue
        for r in runs:
            ev = [e for e in r.events if e[0] in ("load", "rmw", "handle", "store")]
            handles = [e for e in ev if e[0] == "handle"]
            if len(handles) != 1:
                continue
            h = handles[0]
            ih = ev.index(h)
            loads_cl = [e for e in ev[:ih] if e[0] == "load" and e[1] == "m_countingLeft"]
            loads_rl = [e for e in ev[:ih] if e[0] == "load" and e[1] == "m_readingLeft"]
            incs = [e for e in ev[:ih] if e[0] == "rmw" and e[1] in COUNTERS]
            cl = r.assume.get(loads_cl[0][2]) if loads_cl else None
            rl = r.assume.get(loads_rl[-1][2]) if loads_rl else None
            tag = "countingLeft=%s readingLeft=%s" % (cl, rl)
            if cl is None or rl is None:
                ctx.unknown("C03.reader: the value of a side/counting flag cannot be resolved along a path of %s" % f.label)
                continue
            vals.add((cl, rl))
            site = f.loc(h[4])
            ok = len(incs) == 1 and incs[0][2] in ("operator++", "fetch_add") and cl is not None and \
                incs[0][1] == ("m_leftReadCount" if cl else "m_rightReadCount")
            ctx.ob(rid, ok, site, "the reader registers exactly once, in the counter m_countingLeft selects (%s)" % tag,
                   "" if ok else "increments: %s" % [(e[1], e[2]) for e in incs], fn=f.label, inst=f.qname)
            if not incs:
                continue
            ok = bool(loads_rl) and all(ev.index(incs[0]) < ev.index(l) for l in loads_rl)
            ctx.ob(rid, ok, site, "the registration precedes every load of m_readingLeft (%s)" % tag,
                   "" if ok else "the side flag is read before the reader is registered: the writer can miss this reader",
                   fn=f.label, inst=f.qname)
            ok = rl is not None and h[1] == ("m_left" if rl else "m_right")
            ctx.ob(rid, ok, site, "the handle points to the copy m_readingLeft selects (%s)" % tag,
                   "" if ok else "points to %s" % h[1], fn=f.label, inst=f.qname)
            ok = h[2] == incs[0][1]
            ctx.ob(rid, ok, site, "the deleter is bound to the counter that was incremented (%s)" % tag,
                   "" if ok else "incremented %s but the deleter decrements %s" % (incs[0][1], h[2]), fn=f.label, inst=f.qname)
            stores = [e for e in ev if e[0] == "store"]
            ctx.ob(rid, not stores, site, "the reader stores to no protocol flag", "", fn=f.label, inst=f.qname)
        ok = len(vals) == 4
        ctx.ob(rid, ok, f.where, "all four flag valuations have a return path", "" if ok else str(sorted(vals, key=str)),
               fn=f.label, inst=f.qname)
    for nm in ("try_lock_shared", "try_lock_shared_for", "try_lock_shared_until"):
        for f in lr_functions(ctx, nm):
            calls = [st for st in f.stmts.values() if st["k"] in CALLS and (st.get("callee") or {}).get("rec") == LR]
            ls = [c for c in calls if c["callee"]["name"] == "lock_shared" and c.get("obj") and path(f, f.s(c["obj"])) == "this"]
            # whatever else the try form does, it takes part in the protocol only through lock_shared(): neither it nor a
            # helper it calls writes a protocol variable
            writers = [op for op in atomic_ops(f) if op["op"] != "load"]
            for c in calls:
                g = ctx.fb.callee_fn(f, c)
                if g is not None and g.name != "lock_shared":
                    writers += [op for op in atomic_ops(g) if op["op"] != "load"]
            rets = [r for r in f.stmts.values() if r["k"] == "ReturnStmt" and f.children(r)]
            from_ls = all(any(d["id"] == c["id"] for c in ls for d in f.descendants(r)) or
                          not any(d["k"] in CALLS and (d.get("callee") or {}).get("rec") == LR for d in f.descendants(r))
                          for r in rets)
            ok = len(ls) >= 1 and not writers and from_ls
            ctx.ob(rid, ok, f.where, "%s obtains its handle from lock_shared() and writes no protocol variable itself" % nm,
                   "" if ok else "lock_shared calls: %d, protocol writes: %s" % (len(ls), [o["obj"] for o in writers]),
                   fn=f.label, inst=f.qname)


def deleter_rules(ctx, rid="C03.deleter"):
    ctx.rule(rid, "shared_deleter decrements the counter it was bound to iff the pointer is non-null; the handle "
             "type is a move-only unique_ptr to const", floor=4)
    fb = ctx.fb
    n = 0
    if not deleter_counter_based(ctx):
        # whatever the representation: being invoked with a non-null pointer is the moment the handle gives the data up
        # (reset(), destruction) - the registration has to be given back there, exactly once
        for f in fb.functions(rec=DEL, name="operator()"):
            n += 1
            # a handle can be released by another thread than the one that took it: which counter is given back must not
            # depend on who is running the deleter
            from ..common import call_closure
            tid = [g for g, _via, _c in call_closure(fb, f) if any(
                s_["k"] == "CallExpr" and callee_fq(s_) == "std::this_thread::get_id" for s_ in g.stmts.values())]
            ctx.ob(rid, not tid, f.where, "the deleter gives back the registration it was created for, whichever thread runs it",
                   "" if not tid else "the release path consults std::this_thread::get_id() (in %s): a handle released on another "
                   "thread than the one that acquired it decrements a different counter, and the writer waits for ever on the one "
                   "that was incremented" % tid[0].name, fn=f.label, inst=f.qname)
            ops = [op for op in atomic_ops(f) if op["op"] == "rmw" and op["name"] in ("operator--", "fetch_sub")]
            ok = len(ops) == 1
            ctx.ob(rid, ok, f.where, "invoked with the handle's pointer, the deleter gives the registration back (one decrement "
                   "of an atomic counter reachable from the deleter)", "" if ok else
                   "decrements found in operator(): %d - a handle that is reset() keeps its reader registered, and the "
                   "writer waits for it for as long as the empty handle lives" % len(ops), fn=f.label, inst=f.qname)
        if n == 0:
            ctx.broken("shared_deleter::operator() not instantiated")
        _representation_changed(ctx, rid)
        return
    for f in fb.functions(rec=DEL):
        if f.kind == "ctor" and not f.defaulted and len(f.params) == 1:
            ini = [i for i in f.inits if i.get("field") == "m_readingCount"]
            ok = bool(ini) and (path(f, f.s(ini[0]["init"])) == "p:" + f.params[0]["name"] or any(
                d["k"] == "DeclRefExpr" and d["d"].get("k") == "param" and d["d"].get("name") == f.params[0]["name"]
                for d in f.descendants(f.s(ini[0]["init"]))))      # the counter itself, or the part of it this reader registered in
            ctx.ob(rid, ok, f.where, "the deleter binds the counter it is constructed with", "", fn=f.label, inst=f.qname)
        if f.name == "operator()":
            n += 1
            ops = [op for op in atomic_ops(f) if atomic_field_of(f, op) == (DEL, "m_readingCount")]
            ok = len(ops) == 1 and ops[0]["op"] == "rmw" and ops[0]["name"] in ("operator--", "fetch_sub")
            ctx.ob(rid, ok, f.where, "the deleter decrements its counter exactly once", "" if ok else
                   "operations: %s" % [o["name"] for o in ops], fn=f.label, inst=f.qname)
            if ok:
                nn = NonNull(f)
                pos = f.pos_of(ops[0]["st"])
                pn = "p:" + f.params[0]["name"]
                ok2 = nn.known(pos, ("nn", pn))
                ctx.ob(rid, ok2, f.loc(ops[0]["st"]), "the decrement happens only for a non-null pointer",
                       "" if ok2 else "a null handle (never registered) would decrement the counter", fn=f.label, inst=f.qname)
                # and on every path where the pointer is non-null: the only branch before it is on the pointer
                b = pos[0]
                preds = f.blocks[b].preds
                ok3 = len(preds) == 1 and f.blocks[preds[0]].term is not None and \
                    path(f, f.s(f.blocks[preds[0]].term.get("cond"))) == pn and preds[0] == f.blocks[f.entry].succs[0]
                ctx.ob(rid, ok3, f.loc(ops[0]["st"]), "every non-null pointer is deregistered (the decrement is "
                       "conditional on the pointer alone)", "" if ok3 else "other conditions guard the decrement",
                       fn=f.label, inst=f.qname)
    if n == 0:
        ctx.broken("shared_deleter::operator() not instantiated")
    for r in fb.records(tmpl=LR):
        a = r.alias("shared_handle")
        ok = a is not None and a["type"].startswith("std::unique_ptr<const ") and "shared_deleter" in a["type"]
        ctx.ob(rid, ok, "%s:%d" % (short(r.file), r.line), "shared_handle is unique_ptr<const T, shared_deleter>",
               "" if ok else str(a and a["type"]), inst=r.qname)
    for r in fb.records(tmpl=DEL):
        cc = [m for m in r.methods if m.get("copy_ctor")]
        ok = bool(cc) and all(m["deleted"] for m in cc)
        ctx.ob(rid, ok, "%s:%d" % (short(r.file), r.line), "shared_deleter is not copyable", "", inst=r.qname)


def who(ctx):
    rid = "C03.who"
    ctx.rule(rid, "who-writes: flags stored only by modify; counters incremented only by lock_shared and decremented "
             "only by the deleter; the two copies are written only through modify", floor=10)
    fb, eng = ctx.fb, ctx.eng
    for f in fb.functions(rec=LR):
        if f.kind in ("ctor", "dtor"):
            continue
        for op in atomic_ops(f):
            fld = atomic_field_of(f, op)
            if fld is None or fld[0] != LR or op["op"] == "load":
                continue
            if fld[1] in FLAGS:
                # by a writer operation, i.e. with m_writeMutex held exclusively (every such operation is also held to the
                # writer protocol: writer_functions())
                la_ = eng.locks(f)
                pos_ = f.pos_of(op["st"])
                ok = op["op"] == "store" and pos_ is not None and la_.holds(pos_, "this.m_writeMutex", "X")
                ctx.ob(rid, ok, f.loc(op["st"]), "%s is stored only by a writer operation holding m_writeMutex" % fld[1], "" if ok else
                       "%s in %s without the write mutex" % (op["name"], f.name), fn=f.label, inst=f.qname)
            elif fld[1] in COUNTERS:
                ok = f.name == "lock_shared" and op["name"] in ("operator++", "fetch_add")
                ctx.ob(rid, ok, f.loc(op["st"]), "%s is only incremented, and only by lock_shared" % fld[1],
                       "" if ok else "%s in %s" % (op["name"], f.name), fn=f.label, inst=f.qname)
        for st in field_refs(f, LR):
            if st["m"]["name"] not in ("m_left", "m_right"):
                continue
            acc, user = effective_access(eng, f, st)
            if acc in READ_KINDS:
                ctx.ob(rid, True, f.loc(st), "%s is only read / handed out as const outside modify" % st["m"]["name"],
                       fn=f.label, inst=f.qname)
                continue
            la_ = eng.locks(f)
            pos_ = f.pos_of(st)
            ok = pos_ is not None and la_.holds(pos_, "this.m_writeMutex", "X")
            ctx.ob(rid, ok, f.loc(st), "%s is used as non-const only by a writer operation holding m_writeMutex" % st["m"]["name"],
                   "" if ok else "non-const use (%s) in %s without the write mutex" % (acc, f.name), fn=f.label, inst=f.qname)


def _is_moved(f, e):
    """the expression hands its operand over as an rvalue (std::move / rvalue std::forward): the source is emptied"""
    e = unwrap(f, e)
    while e is not None and e["k"] in CTORS and len(e["args"]) == 1:
        e = unwrap(f, f.s(e["args"][0]))
    return e is not None and e["k"] == "CallExpr" and callee_fq(e) in ("std::move", "std::forward") and e.get("vk") == "x"


def ptr_of(f, e):
    """path of the pointer through which the object expression e is reached (`*p`, or a reference bound to `*p`)"""
    e = unwrap(f, e)
    if e is None:
        return None
    if e["k"] == "UnaryOperator" and e["op"] == "*":
        return path(f, f.children(e)[0])
    p = path(f, e)
    return p[1:] if p and p.startswith("*") else None


def _applications(f):
    return [s for s in f.stmts.values() if s["k"] == "CXXOperatorCallExpr" and s.get("op") == "()" and len(s["args"]) >= 2
            and (path(f, f.s(s["args"][0])) or "").startswith("p:")]


def _enclosing_try(f, a):
    for anc in f.ancestors(a):
        if anc["k"] == "CXXTryStmt" and any(d["id"] == a["id"] for d in f.descendants(f.s(anc["try"]))):
            return anc
    return None


def guard_recovery(f, a):
    """recovery performed by scope guards (objects of helper classes whose destructor restores a copy when the scope is
    left by an exception) alive at application a.  Returns None when no guard is alive there, otherwise
    (assignments [(target pointer, source pointer, site, only-when-unwinding)], guard names, undecidable reason or None)"""
    from ..common import scope_guards_alive
    sg = scope_guards_alive(f, a)
    if not sg:
        return None
    asg = []
    why = None
    for var in sg:
        ds = [s for s in f.stmts.values() if s["k"] == "DeclStmt" and any("l:" + d["name"] == var for d in s["decls"])][0]
        found = False
        for d in f.descendants(ds):
            if d.get("inl_init"):
                continue
            l = r = None
            if d["k"] == "CXXOperatorCallExpr" and d.get("op") == "=" and len(d["args"]) == 2:
                l, r = f.s(d["args"][0]), f.s(d["args"][1])
            elif d["k"] == "BinaryOperator" and d["op"] == "=" and not d.get("inl_return"):
                l, r = f.children(d)
            if l is None:
                continue
            lp, rp = ptr_of(f, l), (None if _is_moved(f, r) else ptr_of(f, r))
            if not lp and not rp:
                continue
            unwinding = False
            for anc in f.ancestors(d):
                if anc["id"] == ds["id"]:
                    break
                if anc["k"] == "IfStmt" and anc.get("cond") and any(
                        x["k"] == "CallExpr" and callee_fq(x) in ("std::uncaught_exceptions", "std::uncaught_exception")
                        for x in f.descendants(f.s(anc["cond"]))):
                    unwinding = True
            asg.append((lp, rp, d, unwinding))
            found = True
        if not found:
            why = "the destructor of %s performs no copy assignment this rule recognises" % var
    return asg, sg, why


def handler_rules(ctx, rid="C03.handlers"):
    """the catch handlers of modify write only through the pointer that is being applied in their try block
    (the copy readers are not directed to at that point)"""
    ctx.rule(rid, "exception handlers of modify never write the copy readers are currently directed to", floor=4)
    for f in writer_functions(ctx):
        for a in _applications(f):
            gr = guard_recovery(f, a) if _enclosing_try(f, a) is None else None
            if gr is None:
                continue
            applied = ptr_of(f, f.s(a["args"][1]))
            if gr[2] or applied is None:
                ctx.unknown("%s: %s: scope guard(s) %s alive at the application at %s: %s" % (rid, f.label, ", ".join(gr[1]), f.loc(a), gr[2] or "applied pointer not found"))
                continue
            for lp, rp, d, unw in gr[0]:
                ok = lp == applied
                ctx.ob(rid, ok, f.loc(a), "a scope guard alive at this application writes only through %s (the copy being modified here)" % applied,
                       "" if ok else "the guard's destructor at %s writes through %s when this application throws: the copy readers are "
                       "using (or will be directed to) is overwritten while they may be reading it" % (f.loc(d), lp), fn=f.label, inst=f.qname)
        for ts in [s for s in f.stmts.values() if s["k"] == "CXXTryStmt"]:
            body = f.s(ts["try"])
            applied = None
            for d in f.descendants(body):
                if d["k"] == "CXXOperatorCallExpr" and d.get("op") == "()" and len(d["args"]) >= 2:
                    applied = ptr_of(f, f.s(d["args"][1])) or applied
            if applied is None:
                ctx.ob(rid, False, f.loc(ts), "try block of modify applies the functor through a write pointer",
                       "cannot find the application", fn=f.label, inst=f.qname)
                continue
            for hid in ts["handlers"]:
                h = f.s(hid)
                for d in f.descendants(f.s(h["body"])):
                    tgt = None
                    if d["k"] == "CXXOperatorCallExpr" and d.get("op") in ("=", "+=", "-=") and d["args"]:
                        tgt = unwrap(f, f.s(d["args"][0]))
                    elif d["k"] in ("BinaryOperator", "CompoundAssignOperator") and \
                            (d["op"] == "=" or d["k"] == "CompoundAssignOperator"):
                        tgt = unwrap(f, f.children(d)[0])
                    if tgt is None:
                        continue
                    if tgt["k"] == "DeclRefExpr" and tgt["d"].get("inl_ret"):
                        continue        # result hand-over of an inlined helper, not a write to the payload
                    pv = ptr_of(f, tgt) or path(f, tgt)
                    ok = pv == applied
                    ctx.ob(rid, ok, f.loc(d), "the handler writes only through %s (the copy being modified in this try)" % applied,
                           "" if ok else "it writes through %s: the copy readers are using (or will be directed to) "
                           "is overwritten while they may be reading it" % pv, fn=f.label, inst=f.qname)


def _captured_exception_rethrown(ctx, f, tr, hid):
    """the handler `hid` of try statement `tr` keeps the exception as a std::exception_ptr (std::current_exception())
    instead of rethrowing it.  Decided by interpreting every path from the handler to an end of the function with the
    null / non-null state of exception_ptr values: each feasible one must end in std::rethrow_exception of a non-null
    pointer."""
    from ..lr import run_paths
    hb = None
    for b, blk in f.blocks.items():
        if blk.term and blk.term.get("k") == "CXXTryStmt" and blk.term.get("s") == tr["id"]:
            hs = [s for s in blk.succs if s is not None]
            idx = tr["handlers"].index(hid)
            if idx < len(hs):
                hb = hs[idx]
    if hb is None:
        return False, "cannot locate the handler in the control-flow graph"
    try:
        runs = run_paths(f, start=hb)
    except TooManyPaths:
        ctx.broken("too many paths from a handler of " + f.label)
    if not runs:
        return False, "no path leaves the handler"
    for r in runs:
        rt = [e for e in r.events if e[0] == "rethrow"]
        if not rt or rt[-1][1][0] == "null":
            return False, "the handler keeps the exception as a value (std::current_exception) but a path from it leaves modify() " \
                          "without std::rethrow_exception: the caller is never told that its functor failed"
    return True, ""


def lr_handlers(ctx, rid="C20.lr"):
    ctx.rule(rid, "lr_guarded::modify: both applications are covered by catch(...) handlers that restore the written copy "
             "from the other copy and rethrow; the first application precedes every flag store", floor=8)
    fs = writer_functions(ctx)
    if not fs:
        ctx.broken("lr_guarded::modify not instantiated")
    other = apply_once_copy_over(ctx)
    if other:
        ctx.unknown("%s: %s: a writer protocol other than apply / switch / drain / apply" % (rid, other))
        return
    for f in fs:
        tries = [s for s in f.stmts.values() if s["k"] == "CXXTryStmt"]
        applies = [s for s in f.stmts.values() if s["k"] == "CXXOperatorCallExpr" and s.get("op") == "()" and len(s["args"]) >= 2
                   and (path(f, f.s(s["args"][0])) or "").startswith("p:")]
        ok = len(applies) == 2
        ctx.ob(rid, ok, f.where, "modify applies the functor exactly twice", "" if ok else str(len(applies)), fn=f.label, inst=f.qname)
        ptrs = []
        for a in applies:
            ptrs.append(ptr_of(f, f.s(a["args"][1])))
        for a, pv in zip(applies, ptrs):
            other = [p for p in ptrs if p != pv]
            other = other[0] if other else None
            tr = None
            for anc in f.ancestors(a):
                if anc["k"] == "CXXTryStmt" and any(d["id"] == a["id"] for d in f.descendants(f.s(anc["try"]))):
                    tr = anc
                    break
            ok = tr is not None
            if not ok:
                gr = guard_recovery(f, a)
                if gr is not None:
                    if gr[2]:
                        ctx.unknown("%s: %s: the application at %s is not inside a try block, but the scope guard(s) %s are alive "
                                    "there: %s" % (rid, f.label, f.loc(a), ", ".join(gr[1]), gr[2]))
                        continue
                    pairs = [(lp, rp) for lp, rp, _, _ in gr[0]]
                    good = (pv, other) in pairs and all(l == pv for l, _ in pairs) and all(u for _, _, _, u in gr[0])
                    ctx.ob(rid, good, f.loc(a), "scope guards alive at the application restore the written copy from the other copy, "
                           "and only while an exception unwinds (which keeps propagating)",
                           "" if good else "guard assignments %s (conditional on std::uncaught_exceptions: %s); expected only *%s = *%s"
                           % (pairs, [u for _, _, _, u in gr[0]], pv, other), fn=f.label, inst=f.qname)
                    continue
            ctx.ob(rid, ok, f.loc(a), "the application is inside a try block", "" if ok else
                   "a throwing functor leaves the two copies different", fn=f.label, inst=f.qname)
            if not ok:
                continue
            good = False
            detail = "no catch (...) handler"
            for hid in tr["handlers"]:
                h = f.s(hid)
                if not h.get("all"):
                    continue
                body = f.s(h["body"])
                asg = []
                for d in f.descendants(body):
                    if d["k"] == "CXXOperatorCallExpr" and d.get("op") == "=" and len(d["args"]) == 2:
                        asg.append((ptr_of(f, f.s(d["args"][0])), None if _is_moved(f, f.s(d["args"][1])) else ptr_of(f, f.s(d["args"][1]))))
                    if d["k"] == "BinaryOperator" and d["op"] == "=":
                        l, r = f.children(d)
                        lp, rp = ptr_of(f, l), (None if _is_moved(f, r) else ptr_of(f, r))
                        if lp or rp:
                            asg.append((lp, rp))
                rethrow = any(d["k"] == "CXXThrowExpr" and d.get("rethrow") for d in f.descendants(body))
                if not rethrow and (pv, other) in asg and all(l == pv for l, _ in asg) and \
                        any(d["k"] == "CallExpr" and callee_fq(d) == "std::current_exception" for d in f.descendants(body)):
                    # the exception leaves the handler as a value: it has to be rethrown on every way out of modify
                    rethrow, why = _captured_exception_rethrown(ctx, f, tr, hid)
                    if not rethrow:
                        detail = why
                        continue
                if (pv, other) in asg and rethrow and all(l == pv for l, _ in asg):
                    good = True
                else:
                    detail = "handler assignments %s, rethrow=%s; expected *%s = *%s; throw;" % (asg, rethrow, pv, other)
            ctx.ob(rid, good, f.loc(a), "its catch(...) restores the written copy from the other copy and rethrows",
                   "" if good else detail, fn=f.label, inst=f.qname)
        # first application precedes every flag store
        stores = [op for op in atomic_ops(f) if op["op"] in ("store", "rmw", "cas") and (atomic_field_of(f, op) or ("", ""))[0] == LR]
        if applies and stores:
            ap = sorted(applies, key=lambda s: (-f.pos_of(s)[0], f.pos_of(s)[1]))[0]
            ok = all(f.dominates(f.pos_of(ap), f.pos_of(s["st"])) for s in stores)
            ctx.ob(rid, ok, f.loc(ap), "the first application precedes every store to the protocol flags (a throw leaves them untouched)",
                   "" if ok else "a flag is flipped before the first application can throw", fn=f.label, inst=f.qname)




def initial_state(ctx, rid="C03.initial"):
    """both copies start equal: the second copy is constructed from the first"""
    ctx.rule(rid, "lr_guarded's constructor builds the second copy from the first (both copies start equal) and starts "
             "with both reader counters at zero", floor=4)
    WIDE = ("int", "unsigned int", "long", "unsigned long", "long long", "unsigned long long")
    recs = list(ctx.fb.records(tmpl=LR))
    if not recs:
        ctx.broken("no instantiation of lr_guarded (anchor vanished)")
    for r_ in recs:
        for c in COUNTERS:
            fl = r_.field(c)
            if fl is None:
                ctx.broken("lr_guarded::%s not found (anchor vanished)" % c)
            m_ = re.match(r"^std::atomic<(.*)>$", fl["type"])
            ok = m_ is not None and m_.group(1).strip() in WIDE
            ctx.ob(rid, ok, "%s:%d" % (short(r_.file), fl.get("line", r_.line)),
                   "%s counts simultaneous read handles in an atomic integer of at least 32 bits" % c,
                   "" if ok else "its type is %s: with enough handles alive the counter wraps to 0 and modify() writes the copy "
                   "they are reading" % fl["type"], inst=r_.qname)
    for f in ctx.fb.functions(rec=LR):
        if f.kind != "ctor" or f.defaulted:
            continue
        if any(i.get("delegating") for i in f.inits):
            continue        # the constructor it delegates to builds the members and is judged here as well
        ini = {i.get("field"): f.s(i.get("init")) for i in f.inits if i.get("field")}
        r = unwrap(f, ini.get("m_right"))
        l = unwrap(f, ini.get("m_left"))
        ok = False
        if r is not None and r["k"] in CTORS and len(r["args"]) == 1 and path(f, f.s(r["args"][0])) == "this.m_left":
            ok = True
        elif r is not None and path(f, r) == "this.m_left":
            ok = True      # scalar payloads: m_right(m_left) is a plain load
        ctx.ob(rid, ok, f.where, "m_right is copy-constructed from m_left", "" if ok else
               "the two copies can start different: readers switch between two histories", fn=f.label, inst=f.qname)
        for c in COUNTERS:
            e = unwrap(f, ini.get(c))
            while e is not None and e["k"] in CTORS and len(e["args"]) == 1:
                e = unwrap(f, f.s(e["args"][0]))
            ok = e is not None and e["k"] == "IntegerLiteral" and e["v"] == 0
            if e is None and c not in ini:
                # no initialiser in this constructor: the default member initialiser decides
                for r_ in recs:
                    fl = r_.field(c)
                    dv = (fl or {}).get("init_value")
                    ok = ok or dv == 0
            ctx.ob(rid, ok, f.where, "%s starts at zero" % c, "" if ok else "a phantom reader is registered forever: every modify() hangs",
                   fn=f.label, inst=f.qname)
