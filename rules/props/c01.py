"""C01 - exclusive handles and whole-object operations are mutually exclusive."""
import re

from ..engine import (CALLS, CTORS, HELD, UNOWNED, is_mutex_type, lock_class, path, strip_cvref,
                      unwrap, callee_fq, handle_class)
from ..guards import check_guarded_fields, class_functions
from .. import common

EXPLANATION = (
    "Static lockset / typestate analysis over the clang CFG of every instantiated member of guarded, "
    "guarded_opt, shared_guarded, shared_guarded_opt, ordered_guarded and handles.hpp (4 mutex types). "
    "Decided: [C01.guard] every access to m_obj is under the object's own m_mutex held exclusively "
    "(shared for const reads) or escapes only into a handle locked on that same mutex; [C01.handle] "
    "lock_handle acquires/adopts in its constructors, changes lock state only in unlock(), is move-only "
    "and keeps its members private; [C01.helpers] the try helpers return the object pointer iff the lock "
    "is owned; [C01.private] the payload and mutex are private and no method returns a bare "
    "reference/pointer to the payload; [C01.raii] no raw mutex lock()/unlock(), adopt_lock or "
    "lock.release() anywhere (every acquisition is RAII, hence released on every exit); [C01.order] the "
    "lock-order graph of all in-scope classes is acyclic and no function re-acquires a mutex it holds. "
    "Consistent lockset on one mutex => mutual exclusion => no lost update; not decided: fairness of "
    "the standard mutexes, deadlocks caused by user code run under the lock.")
ASSUMPTIONS = [
    "clients touch the payload only through a live handle (the property's own premise); a T& kept beyond the handle is outside the library's control",
    "std::lock_guard/unique_lock/shared_lock and the four std mutex types behave as specified",
    "functors passed to modify() do not store the reference they receive",
]

WRAPPERS = ["gmlc::libguarded::guarded", "gmlc::libguarded::guarded_opt",
            "gmlc::libguarded::shared_guarded", "gmlc::libguarded::shared_guarded_opt",
            "gmlc::libguarded::ordered_guarded"]
FILES = ["handles.hpp", "guarded.hpp", "guarded_opt.hpp", "shared_guarded.hpp",
         "shared_guarded_opt.hpp", "ordered_guarded.hpp"]


def run(ctx):
    ctx.rule("C01.guard", "A3: every access to m_obj is under m_mutex (X for writes/non-const uses, "
             "S or X for const reads) or escapes only into a handle locked on the same mutex", floor=60)
    for cls in WRAPPERS:
        # guarded / guarded_opt have no shared side at all: every access, reading ones included, is exclusive
        ctx.step(check_guarded_fields, ctx, "C01.guard", cls,
                 reads_exclusive=cls in ("gmlc::libguarded::guarded", "gmlc::libguarded::guarded_opt"))
    ctx.step(common.handle_rules, ctx, "C01.handle", "gmlc::libguarded::lock_handle", "std::unique_lock")
    ctx.step(common.helper_summaries, ctx, "C01.helpers",
             ["try_lock_handle", "try_lock_handle_for", "try_lock_handle_until"], "X")
    ctx.step(common.private_payload, ctx, "C01.private", WRAPPERS)
    ctx.step(common.raii_only, ctx, "C01.raii", FILES)
    ctx.step(common.handle_deref_lifetime, ctx, "C01.lifetime", WRAPPERS, floor=0)
    ctx.step(common.lock_order, ctx, "C01.order")
    ctx.step(common.witnesses, ctx, "C01.witness", ["C01"])
