"""C04 - cow_guarded snapshots are immutable; commits are atomic and never lost."""
import re

from ..engine import (CALLS, CTORS, HELD, MAYBE, UNOWNED, LockAnalysis, LockVal, callee_fq, lock_class, path, unwrap)
from ..facts import short
from ..flow import cond_atoms, path_positions, paths, TooManyPaths
from ..guards import lambda_site
from .. import common

EXPLANATION = (
    "Decided on every instantiated member of cow_guarded (4 mutex types): [C04.const] shared_handle is "
    "std::shared_ptr<const T>, m_data is lr_guarded<shared_ptr<const T>>, and writing through a snapshot does not "
    "compile; [C04.span] lock() takes a blocking unique_lock on m_writeMutex BEFORE it reads the committed value, "
    "deep-copies that value into a fresh object, and moves the still-owned lock into the returned handle's deleter "
    "(the writer lock spans from lock() to commit/cancel); [C04.commit] in deleter::operator(), on every path: the "
    "non-cancelled, non-null path installs a shared_ptr owning the private copy through m_data.modify (same pointer "
    "on both applications) BEFORE the lock is released; the cancelled path deletes the copy and never calls modify; "
    "the lock is released on every path; cancel() marks cancelled and unlocks, handle::cancel() calls it and then "
    "resets; [C04.reader] lock_shared / try_lock_shared* copy the committed shared_ptr out of the left-right read "
    "handle while that handle is still alive, and never let a raw pointer into the slot outlive it; the lr_guarded "
    "instantiation underneath is covered by the C03 rules (run on lr_guarded<shared_ptr<const T>> as well). "
    "Not decided: absence of lost updates over all schedules as such (follows from span + commit).")
ASSUMPTIONS = ["std::shared_ptr keeps the pointee alive while any copy exists",
               "std::unique_ptr runs its deleter exactly once with the stored pointer (reset / destruction)"]

COW = "gmlc::libguarded::cow_guarded"
DEL = COW + "::deleter"
HND = COW + "::handle"
LR = "gmlc::libguarded::lr_guarded"


def lr_based(ctx):
    """the commit / reader rules describe the implementation on top of lr_guarded; with another representation of the
    committed value they cannot be applied (analysis broken, not a violation)"""
    for r in ctx.fb.records(tmpl=COW):
        fl = r.field("m_data")
        if fl is None or not fl["type"].startswith("gmlc::libguarded::lr_guarded<"):
            return False
    return True


def lock_object_based(ctx):
    """the hand-over / commit rules follow the writer lock as a std::unique_lock member of the deleter (m_lock)"""
    recs = [r for r in ctx.fb.records() if r.qname.startswith(COW) and r.qname.endswith("::deleter") and not r.dependent]
    if not recs:
        return False
    for r in recs:
        fl = r.field("m_lock")
        if fl is None or not lock_class(fl["type"]):
            return False
    return True


def run(ctx):
    ctx.step(const_rules, ctx)
    if not lock_object_based(ctx):
        ctx.unknown("C04: cow_guarded::deleter no longer keeps the writer lock in a std::unique_lock member (m_lock); the "
                    "span/commit rules follow that lock object and cannot judge another representation of lock ownership")
        ctx.step(reader, ctx)
        ctx.step(common.raii_only, ctx, "C04.raii", ["cow_guarded.hpp"], floor=10)
        ctx.step(common.witnesses, ctx, "C04.witness", ["C04"])
        return
    if not lr_based(ctx):
        ctx.unknown("C04: cow_guarded::m_data is no longer an lr_guarded<shared_ptr<const T>>; the span/commit/reader rules "
                    "describe that implementation and cannot judge another one")
        ctx.step(common.witnesses, ctx, "C04.witness", ["C04"])
        return
    ctx.step(span, ctx)
    ctx.step(commit, ctx)
    ctx.step(reader, ctx)
    ctx.step(common.raii_only, ctx, "C04.raii", ["cow_guarded.hpp"], floor=10)
    ctx.step(common.atomic_floors, ctx, "C04.lr-orders", [LR, LR + "::shared_deleter"], floor=20, files=["lr_guarded.hpp"])
    ctx.step(common.witnesses, ctx, "C04.witness", ["C04"])


def const_rules(ctx):
    rid = "C04.const"
    ctx.rule(rid, "snapshots are shared_ptr<const T>; the committed value lives in lr_guarded<shared_ptr<const T>>", floor=4)
    n = 0
    for r in ctx.fb.records(tmpl=COW):
        n += 1
        site = "%s:%d" % (short(r.file), r.line)
        a = r.alias("shared_handle")
        t = r.targs[0] if r.targs else "?"
        ok = a is not None and a["type"] == "std::shared_ptr<const %s>" % t
        ctx.ob(rid, ok, site, "shared_handle is std::shared_ptr<const T>", "" if ok else str(a and a["type"]), inst=r.qname)
        fl = r.field("m_data")
        ok = fl is not None and ("std::shared_ptr<const %s>" % t) in fl["type"] and fl["access"] == "private"
        ctx.ob(rid, ok, site, "the committed value is held privately as shared_ptr<const T>", "" if ok else str(fl and fl["type"]), inst=r.qname)
        # the commit nests the inner store's writer mutex inside m_writeMutex: that inner mutex is the library's own
        # std::mutex, never an instance of the user-supplied Mutex type (two nested locks of one user-chosen class have
        # no defined order; instrumented / pooled mutex types deadlock on it)
        if fl is not None and len(r.targs) > 1 and r.targs[1] != "std::mutex":
            inner = fl["type"].rstrip(">").rsplit(",", 1)[-1].strip()
            ok = inner != r.targs[1]
            ctx.ob(rid, ok, site, "the inner left-right store does not use the user-supplied mutex type for the lock it takes "
                   "inside m_writeMutex", "" if ok else "m_data is %s: every commit locks two %s instances nested" % (fl["type"], inner),
                   inst=r.qname)
        fl = r.field("m_writeMutex")
        ok = fl is not None and fl["access"] == "private"
        ctx.ob(rid, ok, site, "m_writeMutex is private", "", inst=r.qname)
    if n == 0:
        ctx.broken("cow_guarded not instantiated")


def span(ctx):
    rid = "C04.span"
    ctx.rule(rid, "lock(): writer mutex taken (blocking) before the committed value is read; deep copy; the owned lock "
             "is moved into the handle's deleter", floor=12)
    fb, eng = ctx.fb, ctx.eng
    fs = list(fb.functions(rec=COW, name="lock"))
    if not fs:
        ctx.broken("cow_guarded::lock not instantiated")
    for f in fs:
        la = eng.locks(f)
        acq = [e for e in la.acquire_events if e[2].mutex == "this.m_writeMutex"]
        ok = len(acq) == 1 and acq[0][3] is True and acq[0][2].mode == "X"
        ctx.ob(rid, ok, f.where, "lock() takes m_writeMutex once, blocking, exclusive", "" if ok else
               str([(e[3], e[2].mode) for e in acq]), fn=f.label, inst=f.qname)
        reads = [st for st in f.stmts.values() if st["k"] == "CXXMemberCallExpr" and
                 path(f, f.s(st["obj"])) == "this.m_data" and "lock_shared" in st["callee"]["name"]]
        # the owned lock may already live in the deleter of the handle under construction
        # (`handle w(nullptr, deleter(std::unique_lock<M>(m_writeMutex), *this)); w.reset(new T(...)); return w;`)
        carrier = _lock_carrier(ctx, f, la)
        def held_at(pos):
            if la.holds(pos, "this.m_writeMutex", "X"):
                return True
            return carrier is not None and f.dominates(tuple(carrier["pos"]), tuple(pos)) and tuple(carrier["pos"]) != tuple(pos)
        ok = bool(reads) and all(held_at(f.pos_of(r)) for r in reads)
        ctx.ob(rid, ok, f.where, "the committed value is read only after the writer mutex is held (each writer starts "
               "from the latest commit)", "" if ok else "m_data is read before/without the writer lock: two writers can "
               "copy the same version and one update is lost", fn=f.label, inst=f.qname)
        # the private copy: new T(**data) where data is the read handle
        def _news(g):
            # `new T(x)` and `std::make_unique<T>(x)` (given the shape of a new-expression: init = the constructor argument)
            out_ = [st for st in g.stmts.values() if st["k"] == "CXXNewExpr"]
            for st in g.stmts.values():
                if st["k"] == "CallExpr" and callee_fq(st) == "std::make_unique" and len(st["args"]) == 1:
                    out_.append(dict(st, init=st["args"][0], made_unique=True))
            return out_
        news = _news(f)
        ok = False
        hv = None
        for r in reads:
            par = f.par(r)
            while par is not None and par["k"] != "DeclStmt":
                par = f.par(par)
            if par is not None:
                hv = "l:" + par["decls"][0]["name"]
        # the copy / hand-over may live in a private helper that receives the read handle and the owned lock
        f_outer = f
        if not news and hv:
            for st in f.stmts.values():
                if st["k"] == "CXXMemberCallExpr" and path(f, f.s(st.get("obj"))) == "this":
                    g = f.unit.fn_by_id.get((st.get("callee") or {}).get("id"))
                    if g is None or g.rec != COW or g.access == "public":
                        continue
                    idx = [i for i, a in enumerate(st["args"]) if path(f, f.s(a)) == hv]
                    ret = any(r_["k"] == "ReturnStmt" and any(x["id"] == st["id"] for x in f.descendants(r_)) for r_ in f.stmts.values())
                    if idx and idx[0] < len(g.params) and ret:
                        from ..guards import locks_of
                        f, hv = g, "p:" + g.params[idx[0]]["name"]
                        la = locks_of(eng, fb, g)
                        news = _news(f)
                        break
        for n_ in news:
            init = unwrap(f, f.s(n_.get("init")))
            if n_.get("made_unique"):
                src = path(f, init) if init is not None else None
            elif init is not None and init["k"] in CTORS and len(init["args"]) == 1:
                src = path(f, f.s(init["args"][0]))
            else:
                src = path(f, init) if init is not None else None      # scalar payloads: new int(**data)
            if hv and src == "**" + hv:
                ok = True
            # the read handle as a temporary of the same full expression: new T(**m_data.lock_shared())
            a = f.s(init["args"][0]) if init is not None and init["k"] in CTORS and len(init["args"]) == 1 else init
            for _ in range(2):
                a = unwrap(f, a)
                if a is not None and (a["k"] == "UnaryOperator" and a.get("op") == "*" or
                                      a["k"] == "CXXOperatorCallExpr" and (a.get("callee") or {}).get("name") == "operator*"):
                    a = f.children(a)[-1] if a["k"] == "UnaryOperator" else f.s(a["args"][0])
                else:
                    a = None
                    break
            a = unwrap(f, a)
            if a is not None and any(a["id"] == r["id"] for r in reads):
                ok = True
        ctx.ob(rid, ok, f.where, "the write handle points to a fresh deep copy of the committed value",
               "" if ok else "no 'new T(**<read handle>)'", fn=f.label, inst=f.qname)
        # deleter(std::move(guard), *this) with guard owned
        dels = [st for st in f.stmts.values() if st["k"] in CTORS and st.get("t", "").endswith("::deleter") and len(st["args"]) == 2]
        ok = False
        for d in dels:
            a0 = f.s(d["args"][0])
            v = eng._lock_value(f, la, a0, f.pos_of(d))
            tgt = path(f, f.s(d["args"][1]))
            if v is not None and v.st == HELD and v.mutex == "this.m_writeMutex" and tgt in ("*this", "this"):
                ok = True
        ctx.ob(rid, ok, f.where, "the still-owned writer lock is moved into the deleter bound to *this",
               "" if ok else "the deleter does not receive the owned lock on m_writeMutex", fn=f.label, inst=f.qname)
        # returned handle: handle(val.release(), deleter)
        rets = [st for st in f.stmts.values() if st["k"] == "ReturnStmt"]
        ok = False
        for r in rets:
            e = unwrap(f, f.children(r)[0])
            while e is not None and e["k"] in CTORS and len(e["args"]) == 1:
                e = unwrap(f, f.s(e["args"][0]))
            if e is not None and e["k"] in CTORS and len(e["args"]) == 2:
                p0 = unwrap(f, f.s(e["args"][0]))
                if p0 is not None and p0["k"] == "CXXMemberCallExpr" and p0["callee"]["name"] == "release":
                    ok = True
            if e is not None and carrier is not None and path(f, e) == carrier["var"] and carrier["owns_new"]:
                ok = True
        ctx.ob(rid, ok, f.where, "the handle takes sole ownership of the private copy (release())", "", fn=f.label, inst=f.qname)
    for f in fb.functions(rec=DEL):
        if f.kind == "ctor" and len(f.params) == 2 and not f.defaulted:
            ini = {i.get("field"): f.s(i.get("init")) for i in f.inits if i.get("field")}
            li = unwrap(f, ini.get("m_lock"))
            ok = li is not None and li["k"] in CTORS and len(li["args"]) == 1 and \
                path(f, f.s(li["args"][0])) == "p:" + f.params[0]["name"]
            ctx.ob(rid, ok, f.where, "deleter adopts the lock it is given", "", fn=f.label, inst=f.qname)
            ok = path(f, ini.get("m_guarded")) in ("p:" + f.params[1]["name"], "&p:" + f.params[1]["name"])     # reference or pointer member
            ctx.ob(rid, ok, f.where, "deleter is bound to the cow_guarded it is given", "", fn=f.label, inst=f.qname)
            c = unwrap(f, ini.get("m_cancelled"))
            ok = c is not None and c["k"] == "CXXBoolLiteralExpr" and c["v"] is False
            ctx.ob(rid, ok, f.where, "a new deleter is not cancelled", "", fn=f.label, inst=f.qname)


def _lock_carrier(ctx, f, la):
    """a local write handle that is built around a deleter already owning the writer lock, receives the private copy
    through reset(new ...) and is what lock() returns.  None if there is no such local; ctx.unknown for a local that is
    used in a way this reading does not cover"""
    eng = ctx.eng
    for st in f.stmts.values():
        if st["k"] != "DeclStmt" or len(st["decls"]) != 1 or not st["decls"][0].get("init"):
            continue
        d = st["decls"][0]
        dels = [x for x in f.descendants(f.s(d["init"])) if x["k"] in CTORS and x.get("t", "").endswith("::deleter") and len(x["args"]) == 2]
        if not dels or f.pos_of(st) is None:
            continue
        v = eng._lock_value(f, la, f.s(dels[0]["args"][0]), f.pos_of(dels[0]) or f.pos_of(st))
        if v is None or v.st != HELD or v.mutex != "this.m_writeMutex":
            continue
        var = "l:" + d["name"]
        owns_new = False
        for u in f.stmts.values():
            if u["k"] == "DeclRefExpr" and u["d"].get("id") == d["id"]:
                par = f.par(u)
                while par is not None and par["k"] in ("ImplicitCastExpr", "ParenExpr"):
                    par = f.par(par)
                if par is None:
                    continue
                if par["k"] == "MemberExpr":
                    call = f.par(par)
                    nm = par["m"]["name"]
                    if nm == "reset" and call is not None and call["k"] == "CXXMemberCallExpr" and len(call["args"]) == 1 and \
                            (unwrap(f, f.s(call["args"][0])) or {}).get("k") == "CXXNewExpr":
                        owns_new = True
                        continue
                    if nm in ("get", "operator->", "operator*", "operator bool"):
                        continue
                if par["k"] in ("ReturnStmt", "CXXConstructExpr") or par["k"] == "CXXOperatorCallExpr" and \
                        (par.get("callee") or {}).get("name") in ("operator*", "operator->"):
                    continue
                ctx.unknown("%s: the write handle '%s' carries the writer lock and is used at %s in a way the span rule does not read"
                            % (f.label, d["name"], f.loc(u)))
                return None
        return dict(var=var, pos=f.pos_of(st), owns_new=owns_new)
    return None


def commit(ctx):
    rid = "C04.commit"
    ctx.rule(rid, "deleter: commit through m_data.modify before unlock on the live path; delete without modify on the "
             "cancelled path; lock released on every path; cancel() marks and unlocks", floor=16)
    fb, eng = ctx.fb, ctx.eng
    fs = list(fb.functions(rec=DEL, name="operator()"))
    if not fs:
        ctx.broken("cow_guarded::deleter::operator() not instantiated")
    for f in fs:
        pn = "p:" + f.params[0]["name"]
        la = LockAnalysis(eng, f, entry_state={"this.m_lock": LockVal("this.m_guarded.m_writeMutex", "X", MAYBE)})
        abandoned = [n for n in la.notes if "release()" in n[1]]
        # the deleter runs in one of two situations: the handle was not cancelled (the lock may be owned), or cancel() ran
        # before (the lock is in whatever state cancel() leaves it in) - each must end with the lock released
        fcs = [g for g in fb.functions(rec=DEL, name="cancel") if g.recq == f.recq]
        s1 = MAYBE
        if fcs:
            lc_ = LockAnalysis(eng, fcs[0], entry_state={"this.m_lock": LockVal("this.m_guarded.m_writeMutex", "X", MAYBE)})
            v1 = lc_.block_in.get(fcs[0].exit, {}).get("this.m_lock")
            s1 = v1.st if v1 is not None else MAYBE
        la_live = LockAnalysis(eng, f, entry_state={"this.m_lock": LockVal("this.m_guarded.m_writeMutex", "X", MAYBE)},
                               assume={"this.m_cancelled": False})
        la_canc = LockAnalysis(eng, f, entry_state={"this.m_lock": LockVal("this.m_guarded.m_writeMutex", "X", s1)},
                               assume={"this.m_cancelled": True})
        ex_l = la_live.block_in.get(f.exit, {}).get("this.m_lock")
        ex_c = la_canc.block_in.get(f.exit, {}).get("this.m_lock")
        ok = ex_l is not None and ex_l.st == UNOWNED and ex_c is not None and ex_c.st == UNOWNED and not abandoned
        ex = ex_l if (ex_l is None or ex_l.st != UNOWNED) else ex_c
        ctx.ob(rid, ok, abandoned[0][0] if abandoned else f.where, "the writer lock is released on every path through the deleter",
               "" if ok else ("m_lock.release() gives up ownership without unlocking: the writer mutex stays locked for ever"
               if abandoned else "m_lock may still be owned when the deleter returns: after handle.reset() the object stays "
               "locked for as long as the (empty) handle lives"), fn=f.label, inst=f.qname)
        mods = {tuple(f.pos_of(st)): st for st in f.stmts.values() if st["k"] == "CXXMemberCallExpr" and
                st["callee"]["name"] == "modify" and path(f, f.s(st["obj"])) in ("this.m_guarded.m_data", "this.m_guarded->m_data")}
        unl = {tuple(f.pos_of(st)): st for st in f.stmts.values() if st["k"] == "CXXMemberCallExpr" and
               st["callee"]["name"] == "unlock" and path(f, f.s(st["obj"])) == "this.m_lock"}
        dels = {tuple(f.pos_of(st)): st for st in f.stmts.values() if st["k"] == "CXXDeleteExpr" and
                path(f, f.s(st["arg"])) == pn}
        # the abandoned copy may also be KEPT for a later writer instead of freed: handed to an owning member of the
        # cow_guarded (a spare buffer) - owned by someone, installed nowhere
        keeps = {tuple(f.pos_of(st)): st for st in f.stmts.values() if st["k"] == "CXXMemberCallExpr" and f.pos_of(st) and
                 st["callee"]["name"] == "reset" and len(st["args"]) == 1 and path(f, f.s(st["args"][0])) == pn and
                 re.match(r"^this\.m_guarded(\.|->)(?!m_data\b)\w+$", path(f, f.s(st["obj"])) or "") and
                 (f.s(st["obj"]) or {}).get("t", "").replace("const ", "").startswith("std::unique_ptr<")}
        for kp, kst in keeps.items():
            # the spare slot belongs to the writer: it is filled only while this deleter still owns the writer lock (on the
            # cancelled path that is the state cancel() left the lock in)
            okk = la_canc.holds(kp, "this.m_guarded.m_writeMutex", "X") if kp[0] in la_canc.block_in else \
                la.holds(kp, "this.m_guarded.m_writeMutex", "X")
            ctx.ob(rid, okk, f.loc(kst), "the abandoned copy is put aside for the next writer while the writer lock is still owned",
                   "" if okk else "%s is written after cancel() has released m_writeMutex: the next writer, who already holds the "
                   "mutex, takes or replaces the same slot at the same time" % path(f, f.s(kst["obj"])), fn=f.label, inst=f.qname)
        try:
            ps = paths(f)
        except TooManyPaths:
            ctx.broken("too many paths in " + f.label)
        seen = set()
        for p in ps:
            cancelled = None
            nonnull = None
            seq = []
            for kind, pos, val in path_positions(f, p):
                pos = tuple(pos)
                if kind == "branch":
                    blk = f.blocks[pos[0]]
                    for a in cond_atoms(f, f.s(blk.term.get("cond")), val):
                        if a[0] == "truth" and a[1] == "this.m_cancelled":
                            cancelled = a[3]
                        if a[0] == "truth" and a[1] == pn:
                            nonnull = a[3]
                elif pos in mods:
                    seq.append("modify")
                elif pos in unl:
                    seq.append("unlock")
                elif pos in dels or pos in keeps:
                    seq.append("delete")
            key = (cancelled, nonnull, tuple(seq))
            if key in seen:
                continue
            seen.add(key)
            tag = "cancelled=%s ptr-non-null=%s" % (cancelled, nonnull)
            if cancelled is True:
                ok = "modify" not in seq and "delete" in seq
                ctx.ob(rid, ok, f.where, "cancelled path discards the copy and installs nothing (%s)" % tag,
                       "" if ok else "events: %s" % seq, fn=f.label, inst=f.qname)
            elif cancelled is False and nonnull is True:
                ok = seq.count("modify") == 1 and "delete" not in seq and \
                    ("unlock" not in seq or seq.index("modify") < seq.index("unlock"))
                ctx.ob(rid, ok, f.where, "live path publishes the copy through m_data.modify before the lock is released (%s)" % tag,
                       "" if ok else "events: %s (a second writer could start from the old value, or the update is never published)" % seq,
                       fn=f.label, inst=f.qname)
            elif cancelled is False and nonnull is False:
                ok = "modify" not in seq and "delete" not in seq
                ctx.ob(rid, ok, f.where, "null handle commits nothing (%s)" % tag, "" if ok else str(seq), fn=f.label, inst=f.qname)
            elif "modify" not in seq:
                # the copy is dropped although neither 'm_cancelled' nor 'ptr == nullptr' is established on this path
                ctx.ob(rid, False, f.where, "a write handle is discarded without publishing only when it was cancelled (or is null)",
                       "a path skips m_data.modify under another condition (%s, events %s): a normally released handle can lose "
                       "its update" % (tag, seq), fn=f.label, inst=f.qname)
        ok = any(k[0] is True for k in seen) and any(k[0] is False and k[1] is True for k in seen)
        ctx.ob(rid, ok, f.where, "the deleter distinguishes cancelled and live handles", "" if ok else str(seen), fn=f.label, inst=f.qname)
        # the installed pointer owns the private copy, and the lambda stores exactly it
        for st in mods.values():
            lam = unwrap(f, f.s(st["args"][0])) if st["args"] else None
            while lam is not None and lam["k"] in CTORS and len(lam["args"]) == 1:
                lam = unwrap(f, f.s(lam["args"][0]))
            ok = False
            detail = "modify is not given a lambda"
            if lam is not None and lam["k"] == "LambdaExpr":
                caps = [c.get("var", {}).get("name") for c in lam.get("caps", [])]
                srcok = False
                for d in f.stmts.values():
                    if d["k"] == "DeclStmt":
                        for dd in d["decls"]:
                            if dd["name"] in caps:
                                init = unwrap(f, f.s(dd.get("init")))
                                while init is not None and init["k"] in CTORS and len(init["args"]) == 1 and \
                                        path(f, f.s(init["args"][0])) != pn and \
                                        (f.s(init["args"][0]) or {}).get("t", "").replace("const ", "", 1).startswith("std::shared_ptr<"):
                                    init = unwrap(f, f.s(init["args"][0]))      # copy / move of the shared_ptr itself
                                tt = dd["type"].strip()
                                tt = tt[6:] if tt.startswith("const ") else tt
                                if init is not None and init["k"] in CTORS and len(init["args"]) == 1 and \
                                        path(f, f.s(init["args"][0])) == pn and tt.startswith("std::shared_ptr<const "):
                                    srcok = dd["name"]
                g = None
                for oid in lam.get("call_ops", []):
                    g = f.unit.fn_by_id.get(oid)
                if g is not None and srcok:
                    asg = [s for s in g.stmts.values() if s["k"] == "CXXOperatorCallExpr" and s.get("op") == "="]
                    # (the captured variable keeps its plain name inside the closure; in an inlined helper the outer name
                    # carries the helper's tag: publish$newPtr)
                    ok = len(asg) == 1 and path(g, g.s(asg[0]["args"][0])) == "p:" + g.params[0]["name"] and \
                        path(g, g.s(asg[0]["args"][1])) in ("l:" + srcok, "l:" + srcok.split("$")[-1], "p:" + srcok.split("$")[-1])
                    detail = "" if ok else "the lambda does not assign the captured pointer to its parameter"
                else:
                    detail = "the captured pointer is not a shared_ptr<const T> built from the handle's pointer"
            ctx.ob(rid, ok, f.loc(st), "the commit installs a shared_ptr that owns the private copy (same pointer on both "
                   "left-right applications)", detail, fn=f.label, inst=f.qname)
    for f in fb.functions(rec=DEL, name="cancel"):
        la = LockAnalysis(eng, f, entry_state={"this.m_lock": LockVal("this.m_guarded.m_writeMutex", "X", MAYBE)})
        # (whether the lock is released by cancel() itself or by the deleter that handle::cancel() runs right afterwards is
        # decided above: the deleter's cancelled path starts from the state cancel() leaves the lock in)
        abandoned = [n for n in la.notes if "release()" in n[1]]
        ok = not abandoned
        ctx.ob(rid, ok, abandoned[0][0] if abandoned else f.where, "cancel() never abandons the writer lock",
               "" if not abandoned else "m_lock.release() gives up ownership without unlocking: the writer mutex stays locked "
               "for ever and every later writer blocks", fn=f.label, inst=f.qname)
        sets = [st for st in f.stmts.values() if st["k"] == "BinaryOperator" and st["op"] == "=" and
                path(f, f.children(st)[0]) == "this.m_cancelled"]
        ok = len(sets) == 1 and (unwrap(f, f.children(sets[0])[1]) or {}).get("v") is True and \
            f.postdominates(f.pos_of(sets[0]), (f.entry, 0))
        ctx.ob(rid, ok, f.where, "cancel() marks the deleter cancelled on every path", "", fn=f.label, inst=f.qname)
    # whoever publishes a new version does so as THE writer: every commit into m_data happens with m_writeMutex held (the
    # deleter holds it through its lock member; any other operation has to lock it itself)
    for f in fb.functions(rec=COW):
        if f.kind in ("ctor", "dtor"):
            continue
        la_ = eng.locks(f)
        for st in f.stmts.values():
            if st["k"] == "CXXMemberCallExpr" and st["callee"]["name"] == "modify" and path(f, f.s(st["obj"])) == "this.m_data":
                pos_ = f.pos_of(st)
                ok = pos_ is not None and la_.holds(pos_, "this.m_writeMutex", "X")
                ctx.ob(rid, ok, f.loc(st), "%s commits a new version with m_writeMutex held" % f.name, "" if ok else
                       "m_data.modify is reached without the writer mutex: a write handle that is alive meanwhile was copied from "
                       "the version before this one, and its release overwrites what is published here", fn=f.label, inst=f.qname)
    for f in fb.functions(rec=HND, name="cancel"):
        calls = [st for st in f.stmts.values() if st["k"] == "CXXMemberCallExpr"]
        c = [s for s in calls if s["callee"]["name"] == "cancel"]
        r = [s for s in calls if s["callee"]["name"] == "reset"]
        if not r:
            # `get_deleter()(release())`: the deleter is run by hand on the pointer taken out of the handle - what
            # reset() does, also for a handle that is already empty
            r = [s for s in f.stmts.values() if s["k"] == "CXXOperatorCallExpr" and s.get("op") == "()" and len(s["args"]) == 2 and
                 (path(f, f.s(s["args"][0])) or "").endswith(".<deleter>") and
                 (unwrap(f, f.s(s["args"][1])) or {}).get("k") == "CXXMemberCallExpr" and
                 (unwrap(f, f.s(s["args"][1])).get("callee") or {}).get("name") == "release"]
        ok = len(c) == 1 and len(r) == 1 and f.dominates(f.pos_of(c[0]), f.pos_of(r[0])) and \
            (path(f, f.s(c[0]["obj"])) or "").endswith(".<deleter>")
        ctx.ob(rid, ok, f.where, "handle::cancel() cancels the deleter first and then resets (the deleter then deletes, "
               "never commits)", "" if ok else "order or targets differ", fn=f.label, inst=f.qname)


def reader(ctx):
    rid = "C04.reader"
    ctx.rule(rid, "readers copy the committed shared_ptr while the left-right read handle is alive; no raw pointer into "
             "the slot outlives the handle", floor=8)
    fb = ctx.fb
    n = 0
    for nm in ("lock_shared", "try_lock_shared", "try_lock_shared_for", "try_lock_shared_until"):
        for f in fb.functions(rec=COW, name=nm):
            n += 1
            reads = [st for st in f.stmts.values() if st["k"] == "CXXMemberCallExpr" and
                     path(f, f.s(st["obj"])) == "this.m_data"]
            ok = bool(reads) and all("lock_shared" in r["callee"]["name"] for r in reads)
            if not reads:
                # one reader written in terms of another (`lock_shared() { return try_lock_shared(); }`): no access to
                # m_data of its own, the sibling is the one that is judged (it is in this same list)
                sib = [fb.callee_fn(f, c) for c in f.stmts.values() if c["k"] == "CXXMemberCallExpr" and
                       path(f, f.s(c.get("obj"))) == "this" and fb.callee_fn(f, c) is not None]
                touches = any(st["k"] == "MemberExpr" and st["m"].get("is_field") and st["m"]["name"] == "m_data" for st in f.stmts.values())
                if sib and not touches and all(g.rec == COW and g.name != nm and g.name in
                                               ("lock_shared", "try_lock_shared", "try_lock_shared_for", "try_lock_shared_until") for g in sib):
                    ctx.ob(rid, True, f.where, "%s gets the committed value from its sibling %s" % (nm, sib[0].name), "", fn=f.label, inst=f.qname)
                    continue
            ctx.ob(rid, ok, f.where, "%s reads m_data only through the left-right read handle" % nm,
                   "" if ok else str([r["callee"]["name"] for r in reads]), fn=f.label, inst=f.qname)
            for r in reads:
                # must initialise a named local (so that it lives to the end of the scope)
                par = f.par(r)
                while par is not None and par["k"] in ("ExprWithCleanups", "CXXBindTemporaryExpr", "ImplicitCastExpr",
                                                       "MaterializeTemporaryExpr") + CTORS:
                    par = f.par(par)
                hv = None
                if par is not None and par["k"] == "DeclStmt":
                    hv = par["decls"][0]["name"]
                ctx.ob(rid, hv is not None, f.loc(r), "the read handle is kept in a local for the duration of the copy",
                       "" if hv else "the read handle is a temporary: it is released before the shared_ptr slot is copied, "
                       "so the copy races with a committing writer", fn=f.label, inst=f.qname)
                if hv is None:
                    continue
                # destruction point of the handle
                dpos = None
                for pos in f.positions():
                    e = f.elem(pos)
                    if e["k"] == "AD" and e["var"]["name"] == hv:
                        dpos = pos
                uses_ok = True
                copied = False
                bad = ""
                for st in f.stmts.values():
                    if st["k"] == "CXXOperatorCallExpr" and st.get("op") == "*" and st["args"] and \
                            path(f, f.s(st["args"][0])) == "l:" + hv:
                        # the dereferenced slot must be copied (ctor/assign of shared_ptr) before the handle dies
                        acc = ctx.eng.classify_access(f, st)
                        user = acc[1]
                        if user is not None and (user["k"] in CTORS or (user["k"] == "CXXOperatorCallExpr" and user.get("op") == "=")) \
                                and user.get("t", "").replace("&", "").strip().startswith("std::shared_ptr<const "):
                            up = f.pos_of(user)
                            if dpos is not None and up is not None and (up[0] != dpos[0] or up[1] < dpos[1]) and \
                                    not f.reach_avoiding(dpos, up, []):
                                copied = True
                            else:
                                uses_ok = False
                                bad = "copy after the handle was released"
                        else:
                            uses_ok = False
                            bad = "the slot is used as %s, not copied" % (user["k"] if user else "?")
                    if st["k"] == "CXXMemberCallExpr" and st["callee"]["name"] in ("get", "release") and \
                            path(f, f.s(st["obj"])) == "l:" + hv:
                        uses_ok = False
                        bad = "raw pointer into the slot taken with %s()" % st["callee"]["name"]
                ctx.ob(rid, uses_ok and copied, f.loc(r), "the shared_ptr is copied out while the read handle is alive",
                       "" if uses_ok and copied else (bad or "no copy of *handle found"), fn=f.label, inst=f.qname)
    if n == 0:
        ctx.broken("no cow_guarded read method instantiated")
