"""C11 - TriggerVariable waits end only on their event, and the event wakes them."""
from ..engine import CALLS, atomic_ops, atomic_field_of, path, unwrap
from ..cv import check_waits, notify_follows
from ..guards import check_guarded_fields, class_functions, locks_of
from .. import common

EXPLANATION = (
    "Condition-variable discipline of TriggerVariable on every CFG path, for the two (cv, mutex, flag) triples "
    "(cv_trigger, triggerLock, triggered) and (cv_active, activeLock, activated). Decided: [C11.guard] every "
    "modification of a flag happens with its paired mutex held; [C11.cv] all four waits pass a lock owning the "
    "matching mutex, are predicate-form, and the predicate reads the paired flag only; [C11.wake] every store "
    "of true to a flag is followed on every path by notify_all on the MATCHING condition variable; [C11.who] "
    "who-writes: triggered becomes true only in trigger(), false only in activate(); activated becomes true only "
    "in activate(), false only in reset(); trigger() returns false without writing when activated is false; "
    "[C11.order] activate() clears triggered before it raises activated; reset() calls trigger() only with "
    "activeLock released and the two mutexes are never nested (lock-order graph has no edge). Not decided: "
    "timed forms and activation epochs (runtime timing/history).")
ASSUMPTIONS = ["std::condition_variable semantics; waiters are not re-activated while blocked (the property's proviso)"]

CLS = "gmlc::concurrency::TriggerVariable"
PAIRS = [("cv_trigger", "triggerLock", "triggered"), ("cv_active", "activeLock", "activated")]


def flag_stores(ctx, flag):
    out = []
    for f, top in class_functions(ctx.fb, CLS):
        if top.kind in ("ctor", "dtor"):
            continue
        for op in atomic_ops(f):
            if atomic_field_of(f, op) == (CLS, flag) and op["op"] in ("store", "rmw", "cas"):
                v = unwrap(f, op["value"]) if op["value"] is not None else None
                val = v["v"] if v is not None and v["k"] == "CXXBoolLiteralExpr" else None
                out.append((f, top, op, val))
    return out


def run(ctx):
    ctx.rule("C11.guard", "every modification of triggered / activated happens with its paired mutex held", floor=2)
    ctx.step(check_guarded_fields, ctx, "C11.guard", CLS)
    ctx.rule("C11.cv", "waits: lock owns the matching mutex, predicate-form, predicate reads the paired flag only", floor=4)
    for cv, mtx, flag in PAIRS:
        ctx.step(check_waits, ctx, "C11.cv", CLS, cv, mtx, [flag])
    ctx.step(entries, ctx)
    ctx.step(wake, ctx)
    ctx.step(who, ctx)
    ctx.step(order, ctx)
    ctx.step(common.lock_order, ctx, "C11.nonest", scope_pred=lambda f: f.file.endswith("/TriggerVariable.hpp"), floor=6)
    ctx.step(common.atomic_floors, ctx, "C11.orders", [CLS], floor=10, files=["TriggerVariable.hpp"])
    ctx.step(common.raii_only, ctx, "C11.raii", ["TriggerVariable.hpp"], floor=8)


ENTRY = {"wait": 0, "wait_for": 0, "waitActivation": 1, "wait_forActivation": 1}


def entries(ctx):
    """each of the four waiting operations blocks on ITS event's condition variable, with its mutex and its flag -
    directly, or through a helper that receives the triple as arguments"""
    from ..cv import WAITS, predicate_lambda
    rid = "C11.cv"
    fb, eng = ctx.fb, ctx.eng
    seen = 0
    for f in fb.functions(rec=CLS):
        if f.name not in ENTRY:
            continue
        seen += 1
        cv, mtx, flag = PAIRS[ENTRY[f.name]]
        direct = [st for st in f.stmts.values() if st["k"] == "CXXMemberCallExpr" and (st.get("callee") or {}).get("name") in WAITS
                  and (path(f, f.s(st["obj"])) or "").startswith("this.")]
        found = False
        for st in direct:
            found = True
            ok = path(f, f.s(st["obj"])) == "this." + cv
            ctx.ob(rid, ok, f.loc(st), "%s() blocks on %s (the condition variable its event notifies)" % (f.name, cv),
                   "" if ok else "it waits on %s: the event's notify_all never reaches this waiter" % path(f, f.s(st["obj"]))[5:],
                   fn=f.label, inst=f.qname)
        for call in f.stmts.values():
            if call["k"] not in CALLS:
                continue
            g = fb.callee_fn(f, call)
            if g is None or g.rec != CLS or g.id == f.id:
                continue
            gw = [st for st in g.stmts.values() if st["k"] == "CXXMemberCallExpr" and (st.get("callee") or {}).get("name") in WAITS
                  and (path(g, g.s(st["obj"])) or "").startswith("p:")]
            if not gw:
                continue
            amap = {"p:" + pd["name"]: path(f, f.s(a)) for pd, a in zip(g.params, call["args"])}
            la = locks_of(eng, fb, g)
            for st in gw:
                found = True
                got_cv = amap.get(path(g, g.s(st["obj"])))
                lk = g.s(st["args"][0]) if st["args"] else None
                v = la.state_at(g.pos_of(st)).get(la.key_of_expr(lk)) if lk is not None and g.pos_of(st) else None
                got_mtx = amap.get(v.mutex) if v is not None and v.mutex else None
                pl = predicate_lambda(ctx, g, st)
                got_flags = None
                if pl is not None:
                    # the predicate's captures are parameters of the helper
                    names = set()
                    for d in pl.stmts.values():
                        if d["k"] == "DeclRefExpr" and d["d"].get("k") in ("param", "local") and "p:" + d["d"]["name"] in amap:
                            names.add(amap["p:" + d["d"]["name"]])
                    got_flags = names
                ok = got_cv == "this." + cv and got_mtx == "this." + mtx and (got_flags is None or got_flags == {"this." + flag})
                ctx.ob(rid, ok, f.loc(call), "%s() waits through %s with its own triple (%s, %s, %s)" % (f.name, g.name, mtx, cv, flag),
                       "" if ok else "the helper is handed (mutex=%s, cv=%s, flag=%s): the waiter is parked where its event's "
                       "notify_all does not reach it" % (got_mtx, got_cv, sorted(got_flags) if got_flags is not None else "?"),
                       fn=f.label, inst=f.qname)
        if not found:
            ctx.unknown("%s: %s: no condition-variable wait found in %s() or in a helper it calls" % (rid, f.where, f.name))
    if seen < 4:
        ctx.broken("TriggerVariable wait operations not all found (%d of 4)" % seen)


def wake(ctx):
    rid = "C11.wake"
    ctx.rule(rid, "raising a flag is followed on every path by notify_all on the matching condition variable", floor=1)
    for cv, mtx, flag in PAIRS:
        raises = [(f, top, op) for f, top, op, val in flag_stores(ctx, flag) if val is True or val is None]
        if not raises:
            ctx.broken("no store of true to TriggerVariable::%s (anchor vanished)" % flag)
        for f, top, op in raises:
            ok, detail = notify_follows(f, f.pos_of(op["st"]), cv, [flag], CLS, fb=ctx.fb)
            ctx.ob(rid, ok, f.loc(op["st"]), "%s = true is followed by %s.notify_all()" % (flag, cv),
                   "" if ok else detail, fn=top.label, inst=f.qname)


ORIGINAL_OPS = ("activate", "trigger", "wait", "wait_for", "waitActivation", "wait_forActivation", "reset", "isActive", "isTriggered")


def who(ctx):
    rid = "C11.who"
    ctx.rule(rid, "who-writes table of the two flags; trigger() does nothing on an inactive variable", floor=3)
    # reset() may fire the trigger itself (same protocol: under triggerLock, followed by notify_all - C11.guard / C11.wake
    # judge every store) instead of calling trigger()
    want = {("triggered", True): {"trigger", "reset"}, ("triggered", False): {"activate"},
            ("activated", True): {"activate"}, ("activated", False): {"reset"}}
    for flag in ("triggered", "activated"):
        for f, top, op, val in flag_stores(ctx, flag):
            allowed = want.get((flag, val))
            ok = allowed is not None and top.name in allowed and (op["op"] == "store" or op["name"] == "exchange")
            if not ok and top.name not in ORIGINAL_OPS and (flag, val) == ("triggered", True) and op["op"] == "store":
                # an operation added later may fire the trigger as trigger() does: only on an active variable (the store is
                # dominated by a test of activated); C11.guard / C11.wake judge the mutex and the notification
                acc = common.accessors_of(ctx.fb, CLS, "activated")
                tests = [o["st"] for o in atomic_ops(f) if o["op"] == "load" and atomic_field_of(f, o) == (CLS, "activated")] + \
                        [c for c in f.stmts.values() if c["k"] == "CXXMemberCallExpr" and (c.get("callee") or {}).get("name") in acc]
                ok = any(f.pos_of(t) and f.dominates(f.pos_of(t), f.pos_of(op["st"])) for t in tests)
            ctx.ob(rid, ok, f.loc(op["st"]), "%s is set to %s only in %s" % (flag, str(val).lower(),
                   "/".join(sorted(allowed)) if allowed else "a known operation"),
                   "" if ok else "%s() %s %s" % (top.name, op["name"], val), fn=top.label, inst=f.qname)
    for f in ctx.fb.functions(rec=CLS, name="trigger"):
        # every store in trigger is dominated by a branch on activated (false -> return false)
        stores = [op for op in atomic_ops(f) if op["op"] in ("store", "rmw", "cas")]
        loads = [op for op in atomic_ops(f) if op["op"] == "load" and atomic_field_of(f, op) == (CLS, "activated")]
        # reading through a const accessor (isActive()) is the same read
        from ..cv import shared_fields_read
        for c in f.stmts.values():
            if c["k"] == "CXXMemberCallExpr" and c.get("obj") and path(f, f.s(c["obj"])) == "this":
                h = ctx.fb.callee_fn(f, c)
                if h is not None and h.rec == CLS and h.constm and shared_fields_read(ctx, h, CLS) == ["activated"]:
                    loads.append({"st": c})
        ok = bool(loads) and all(any(f.dominates(f.pos_of(l["st"]), f.pos_of(s["st"])) for l in loads) for s in stores)
        ctx.ob(rid, ok, f.where, "trigger() tests activated before it writes anything", "", fn=f.label, inst=f.qname)
        rets = [s for s in f.stmts.values() if s["k"] == "ReturnStmt"]
        early = False
        for r in rets:
            v = unwrap(f, f.children(r)[0])
            if v is not None and v["k"] == "CXXBoolLiteralExpr" and v["v"] is False:
                rp = f.pos_of(r)
                if not any(f.dominates(f.pos_of(s["st"]), rp) for s in stores):
                    early = True
        ctx.ob(rid, early, f.where, "trigger() on an inactive variable returns false without writing", "",
               fn=f.label, inst=f.qname)
        # ... and it reports success only where it has seen the variable active
        from ..typestate import NonNull
        nn = NonNull(f)
        for r in rets:
            v = unwrap(f, f.children(r)[0]) if f.children(r) else None
            if v is None or (v["k"] == "CXXBoolLiteralExpr" and v["v"] is False):
                continue
            rp = f.pos_of(r)
            seen = rp is not None and (("nn", "this.activated") in nn.before.get(tuple(rp), set()) or
                                       any(f.dominates(f.pos_of(l["st"]), rp) for l in loads if "op" not in l and f.pos_of(l["st"])))
            ctx.ob(rid, seen, f.loc(r), "trigger() returns true only on a path that saw activated set",
                   "" if seen else "this return does not depend on activated: on an inactive variable trigger() claims success "
                   "(e.g. because of a stale triggered flag) although nothing was fired for the next activation", fn=f.label, inst=f.qname)


def order(ctx):
    rid = "C11.order"
    ctx.rule(rid, "activate(): triggered is cleared before activated is raised; reset(): trigger() is called with "
             "activeLock released", floor=1)
    fb, eng = ctx.fb, ctx.eng
    for f in fb.functions(rec=CLS, name="activate"):
        clear = [op for op in atomic_ops(f) if atomic_field_of(f, op) == (CLS, "triggered") and op["op"] == "store"]
        raise_ = [op for op in atomic_ops(f) if atomic_field_of(f, op) == (CLS, "activated") and op["op"] in ("store", "rmw")]
        ok = bool(clear) and bool(raise_) and all(
            any(f.dominates(f.pos_of(c["st"]), f.pos_of(r["st"])) for c in clear) for r in raise_)
        ctx.ob(rid, ok, f.where, "the stale trigger is cleared before the activation becomes visible",
               "" if ok else "activated is raised before triggered is cleared: a waiter that sees the new "
               "activation can return on the previous cycle's trigger", fn=f.label, inst=f.qname)
        # a failed (redundant) activate() must leave the cycle alone: whoever clears `triggered` goes on to activate
        for c in clear:
            skip = bool(raise_) and f.exits_avoiding(f.pos_of(c["st"]), [tuple(f.pos_of(r["st"])) for r in raise_ if f.pos_of(r["st"])])
            ctx.ob(rid, not skip, f.loc(c["st"]), "activate() clears triggered only on the way to raising activated",
                   "" if not skip else "a path clears triggered and returns without activating (the 'already active' answer): "
                   "a trigger that already happened in the running cycle is wiped and its waiters block", fn=f.label, inst=f.qname)
    # the three state-changing operations have their effect when they are called: none of them gives up on a busy mutex
    for nm_ in ("activate", "trigger", "reset"):
        for f in fb.functions(rec=CLS, name=nm_):
            la_ = eng.locks(f)
            soft = [ev for ev in la_.acquire_events if ev[3] in ("try", "timed") and ev[2].mutex in ("this.activeLock", "this.triggerLock")]
            ctx.ob(rid, not soft, f.loc(soft[0][4]) if soft else f.where, "%s() waits for its mutex (it never skips its effect because the "
                   "mutex is busy)" % nm_, "" if not soft else "%s takes %s with a try / timed acquisition: when another thread holds it "
                   "for a moment the call returns without having done anything - waiters stay blocked, the variable stays active"
                   % (nm_, soft[0][2].mutex[5:]), fn=f.label, inst=f.qname)
    for f in fb.functions(rec=CLS, name="reset"):
        la = eng.locks(f)
        calls = [st for st in f.stmts.values() if st["k"] == "CXXMemberCallExpr" and st["callee"]["name"] == "trigger"]
        for c in calls:
            held = la.held_at(f.pos_of(c))
            # trigger() takes triggerLock: calling it with triggerLock held would self-deadlock; holding activeLock is
            # fine as long as the order activeLock -> triggerLock has no reverse edge (C11.nonest checks the graph)
            ok = not any(m == "this.triggerLock" for m, _mo, _k in held)
            ctx.ob(rid, ok, f.loc(c), "reset() does not call trigger() with triggerLock held", "" if ok else
                   "held: %s" % [(m, mo) for m, mo, _ in held], fn=f.label, inst=f.qname)
        # reset deactivates the cycle it found active: the clearing store sits on the 'activated was set' side of a test of
        # activated made in reset itself (a blind clear can kill an activation that began after reset's own look)
        from ..typestate import NonNull
        nn = NonNull(f)
        for op in [o for o in atomic_ops(f) if atomic_field_of(f, o) == (CLS, "activated") and o["op"] in ("store", "rmw", "cas")]:
            pos = f.pos_of(op["st"])
            seen_set = op["name"] == "exchange" or (pos is not None and ("nn", "this.activated") in nn.before.get(tuple(pos), set()))
            if not seen_set and pos is not None:
                acc = common.accessors_of(fb, CLS, "activated")
                seen_set = common.reached_only_when_true(
                    f, pos, lambda c: c["k"] == "CXXMemberCallExpr" and (c.get("callee") or {}).get("name") in acc and
                    path(f, f.s(c.get("obj"))) == "this")
            ctx.ob(rid, seen_set, f.loc(op["st"]), "reset() clears activated only where it has itself seen it set",
                   "" if seen_set else "activated is cleared without a test of it in reset(): an activate() that lands just before "
                   "is undone without its trigger ever firing, and its waiters stay blocked", fn=f.label, inst=f.qname)
        # the forced trigger comes first: trigger() does nothing on an inactive variable, so no trigger() call may be
        # reachable after activated was cleared
        clears = [op for op in atomic_ops(f) if atomic_field_of(f, op) == (CLS, "activated") and op["op"] in ("store", "rmw", "cas")]
        late = [(c, op) for c in calls for op in clears
                if f.pos_of(c) and f.pos_of(op["st"]) and f.reach_avoiding(f.pos_of(op["st"]), f.pos_of(c), [])]
        ctx.ob(rid, not late, f.loc(late[0][0]) if late else f.where, "reset() forces the trigger before it deactivates the variable",
               "" if not late else "trigger() is called after activated was cleared at %s: on an inactive variable it returns "
               "false without waking anybody, so waiters blocked in wait() stay blocked" % f.loc(late[0][1]["st"]),
               fn=f.label, inst=f.qname)
        # the forced trigger must go through triggerLock: every raise of triggered in reset's closure is under it
        # the forced trigger goes through trigger(), or reset raises the flag itself under triggerLock
        own = [op for op in atomic_ops(f) if atomic_field_of(f, op) == (CLS, "triggered") and op["op"] != "load"]
        ok = bool(calls) or not own or all(f.pos_of(op["st"]) and la.holds(f.pos_of(op["st"]), "this.triggerLock", "X") for op in own)
        ctx.ob(rid, ok, f.where, "reset() forces the trigger through trigger() or raises the flag itself under triggerLock",
               "" if ok else "reset writes triggered without triggerLock", fn=f.label, inst=f.qname)
