"""A5: condition-variable discipline."""
import re

from .engine import (CALLS, CTORS, HELD, atomic_ops, atomic_field_of, callee_fq, is_condvar_type, path, unwrap)
from .guards import class_functions, field_refs, lambda_site, locks_of, top_function, effective_access, READ_KINDS

WAITS = ("wait", "wait_for", "wait_until")


def cv_waits(ctx, cls, cvfield):
    """all wait calls on this.<cvfield> in class cls: list of (f, top, call stmt)"""
    out = []
    for f, top in class_functions(ctx.fb, cls):
        for st in f.stmts.values():
            if st["k"] == "CXXMemberCallExpr" and (st.get("callee") or {}).get("name") in WAITS and \
                    path(f, f.s(st["obj"])) == "this." + cvfield:
                out.append((f, top, st))
    return out


def cv_notifies(f, cvfield):
    out = []
    for st in f.stmts.values():
        if st["k"] == "CXXMemberCallExpr" and (st.get("callee") or {}).get("name") in ("notify_all", "notify_one") and \
                path(f, f.s(st["obj"])) == "this." + cvfield:
            out.append(st)
    return out


def predicate_lambda(ctx, f, call):
    """the lambda function object passed as predicate to a wait call, or None"""
    for a in call["args"]:
        e = unwrap(f, f.s(a))
        while e is not None and e["k"] in CTORS and len(e["args"]) == 1:
            e = unwrap(f, f.s(e["args"][0]))
        if e is not None and e["k"] == "LambdaExpr":
            for oid in e.get("call_ops", []):
                g = f.unit.fn_by_id.get(oid)
                if g is not None:
                    return g
    return None


def shared_fields_read(ctx, g, cls, site=None, depth=0):
    """names of fields of cls read inside function g - directly, through const accessors of cls it calls on this
    (`isActive()`), and through captured references that the creating function `site` bound to a field
    (`[&flag] { return flag.load(); }` inside a helper that was handed `activated`)"""
    from .engine import _ref_target
    names = {st["m"]["name"] for st in field_refs(g, cls)}
    if depth < 3:
        for st in g.stmts.values():
            if st["k"] == "CXXMemberCallExpr" and st.get("obj") and path(g, g.s(st["obj"])) == "this":
                h = ctx.fb.callee_fn(g, st)
                if h is not None and h.rec == cls and h.id != g.id:
                    names |= set(shared_fields_read(ctx, h, cls, None, depth + 1))
    if site is not None and g.is_lambda:
        caps = []
        for st in site.stmts.values():
            if st["k"] == "LambdaExpr" and g.id in st.get("call_ops", []):
                caps = [c.get("var") for c in st.get("caps", []) if c.get("var")]
        for st in g.stmts.values():
            if st["k"] == "DeclRefExpr" and st["d"].get("k") in ("local", "param"):
                nm = st["d"]["name"]
                for v in caps:
                    if v.get("name") == nm or v.get("name", "").endswith("$" + nm):
                        tgt = _ref_target(site, v["id"])
                        tp = path(site, tgt) if tgt is not None else None
                        if tp and tp.startswith("this.") and "->" not in tp and "." not in tp[5:]:
                            names.add(tp[5:])
    return sorted(names)


def _local_defs(f, decl_id, name):
    """every (stmt, rhs expr) that defines the local with declaration id decl_id"""
    out = []
    for st in f.stmts.values():
        if st["k"] == "DeclStmt":
            for d in st["decls"]:
                if d.get("id") == decl_id:
                    out.append((st, f.s(d["init"]) if d.get("init") else None))
        elif st["k"] == "BinaryOperator" and st["op"] == "=":
            l = unwrap(f, f.children(st)[0])
            if l is not None and l["k"] == "DeclRefExpr" and l["d"].get("id") == decl_id:
                out.append((st, f.children(st)[1]))
        elif st["k"] in ("CompoundAssignOperator", "UnaryOperator") and st.get("op") in ("++", "--", "+=", "-=", "|=", "&="):
            l = unwrap(f, f.children(st)[0])
            if l is not None and l["k"] == "DeclRefExpr" and l["d"].get("id") == decl_id:
                out.append((st, None))
    return out


def expand_loop_cond(f, cond, neg, body, wait_pos, test_pos):
    """the loop test `cond` (negated when neg) with a tested local replaced by the expression(s) that define it:
    list of (expr, neg).  A local is replaced only when it is recomputed inside the loop on every way from the
    wait back to the test; otherwise the local itself is returned (it reads no shared field: a stale test)."""
    cond = unwrap(f, cond)
    while cond is not None and cond["k"] == "UnaryOperator" and cond["op"] == "!":
        neg = not neg
        cond = unwrap(f, f.children(cond)[0])
    if cond is None:
        return []
    if cond["k"] == "DeclRefExpr" and cond["d"].get("k") == "local":
        defs = _local_defs(f, cond["d"]["id"], cond["d"]["name"])
        inloop = [(st, rhs) for st, rhs in defs if (f.pos_of(st) or (None,))[0] in body]
        if defs and inloop and all(rhs is not None for _st, rhs in defs):
            dpos = [tuple(f.pos_of(st)) for st, _r in inloop]
            if wait_pos is None or test_pos is None or not f.reach_avoiding(wait_pos, test_pos, dpos):
                out = []
                for _st, rhs in defs:
                    out += expand_loop_cond(f, rhs, neg, body, None, None) if _is_simple(f, rhs) else [(rhs, neg)]
                return out
    return [(cond, neg)]


def _is_simple(f, e):
    e = unwrap(f, e)
    return e is not None and e["k"] in ("UnaryOperator", "DeclRefExpr")


def enclosing_loop_cond_fields(f, call, cls):
    """if the wait call sits in a loop: (fields of cls that every form of its exit test reads, first test
    expression, [(test expr, loop continues while it is <bool>)]) - locals in the test are traced to their
    in-loop definition.  None when the call is not in a loop."""
    pos = f.pos_of(call)
    if pos is None:
        return None
    best = None
    for h, body in f.loops():
        if pos[0] not in body:
            continue
        for b in sorted(body):
            blk = f.blocks[b]
            if not (blk.term and blk.term.get("cond") and len(blk.succs) == 2 and
                    any(s is not None and s not in body for s in blk.succs)):
                continue
            cond = f.s(blk.term["cond"])
            stays_when_true = blk.succs[0] is not None and blk.succs[0] in body
            forms = expand_loop_cond(f, cond, False, body, tuple(pos), (b, len(blk.elems)))
            names = None
            for e, _neg in forms:
                ns = set()
                for d in f.descendants(e):
                    if d["k"] == "MemberExpr" and d["m"].get("is_field") and d["m"].get("rec") == cls:
                        ns.add(d["m"]["name"])
                names = ns if names is None else (names & ns)
            res = (sorted(names or ()), cond, [(e, stays_when_true != neg) for e, neg in forms])
            if best is None or (names and not best[0]):
                best = res
        if best is not None:
            return best
    return best


def check_waits(ctx, rid, cls, cvfield, mutex, pred_fields):
    """(a) every wait passes a lock that holds this.<mutex>; (b) predicate form
    reading exactly pred_fields, or a loop whose condition re-reads them"""
    fb, eng = ctx.fb, ctx.eng
    ws = cv_waits(ctx, cls, cvfield)
    for f, top, st in ws:
        la = locks_of(eng, fb, f)
        pos = f.pos_of(st)
        lk = f.s(st["args"][0]) if st["args"] else None
        key = la.key_of_expr(lk) if lk is not None else None
        v = la.state_at(pos).get(key) if pos else None
        ok = v is not None and v.st == HELD and v.mutex == "this." + mutex and v.mode == "X"
        ctx.ob(rid, ok, f.loc(st), "%s.%s() is called with a lock that owns %s" % (cvfield, st["callee"]["name"], mutex),
               "" if ok else "lock argument state: %s" % (v,), fn=top.label, inst=f.qname)
        if st["callee"]["name"] in ("wait_for", "wait_until"):
            # a bounded wait ends without the event when its time is up: the caller has to be told (the result is
            # returned or tested), an ignored expiry lets the thread go on as if the event had happened
            cur, par = st, f.par(st)
            while par is not None and par["k"] in ("ExprWithCleanups", "ImplicitCastExpr", "ParenExpr", "CXXBindTemporaryExpr",
                                                   "MaterializeTemporaryExpr"):
                cur, par = par, f.par(par)
            discarded = par is None or (par["k"] in ("CompoundStmt", "IfStmt", "WhileStmt", "ForStmt", "DoStmt", "CXXForRangeStmt",
                                                     "CXXTryStmt", "CXXCatchStmt", "SwitchStmt", "CaseStmt", "DefaultStmt", "LabelStmt")
                                        and par.get("cond") != cur["id"])
            ctx.ob(rid, not discarded, f.loc(st), "the outcome of the bounded wait %s.%s() is reported or tested" % (cvfield, st["callee"]["name"]),
                   "" if not discarded else "the result is ignored: when the time is up the thread continues as if the awaited state "
                   "had been reached", fn=top.label, inst=f.qname)
        g = predicate_lambda(ctx, f, st)
        if g is not None:
            reads = shared_fields_read(ctx, g, cls, site=f)
            ok = reads == sorted(pred_fields)
            ctx.ob(rid, ok, f.loc(st), "the wait predicate reads exactly %s" % sorted(pred_fields),
                   "" if ok else "it reads %s" % reads, fn=top.label, inst=f.qname)
        else:
            lc = enclosing_loop_cond_fields(f, st, cls)
            ok = lc is not None and set(pred_fields) <= set(lc[0])
            ctx.ob(rid, ok, f.loc(st), "a predicate-less wait sits in a loop that re-checks %s" % sorted(pred_fields),
                   "" if ok else ("no enclosing loop (a spurious or stale wake-up ends the wait)" if lc is None
                                  else "loop condition reads %s" % lc[0]), fn=top.label, inst=f.qname)
    return ws


def _waits_without_baton(fb, rec, cvfield, pred_fields):
    """location of a wait on this.<cvfield> after which no notify on the same condition variable follows, or None"""
    n = 0
    for g in fb.functions(rec=rec):
        ns = cv_notifies(g, cvfield)
        for st in g.stmts.values():
            if not (st["k"] == "CXXMemberCallExpr" and (st.get("callee") or {}).get("name") in WAITS and
                    path(g, g.s(st.get("obj"))) == "this." + cvfield and g.pos_of(st)):
                continue
            n += 1
            wp = tuple(g.pos_of(st))
            after = [tuple(g.pos_of(x)) for x in ns if g.pos_of(x) and g.reach_avoiding(wp, tuple(g.pos_of(x)), [])]
            if not after:
                return g.loc(st)
            if g.exits_avoiding(wp, after):
                # a way around the notify: only through a test of the wait's result or of the predicate
                okb = False
                for b, blk in g.blocks.items():
                    if blk.term and blk.term.get("cond") and len(blk.succs) == 2 and any(p[0] in [s for s in blk.succs if s is not None] for p in after):
                        cond = g.s(blk.term["cond"])
                        names = {d["m"]["name"] for d in g.descendants(cond) if d["k"] == "MemberExpr" and d["m"].get("is_field")} | \
                                ({cond["m"]["name"]} if cond["k"] == "MemberExpr" and cond["m"].get("is_field") else set())
                        locs = [d for d in [cond] + list(g.descendants(cond)) if d["k"] == "DeclRefExpr" and d["d"].get("k") == "local"]
                        from_wait = all(any(x["id"] == st["id"] for s_ in g.stmts.values() if s_["k"] == "DeclStmt" for dd in s_["decls"]
                                            if dd["id"] == l_["d"].get("id") and dd.get("init") for x in [g.s(dd["init"])] + list(g.descendants(g.s(dd["init"]))))
                                        for l_ in locs)
                        if (names <= set(pred_fields)) and from_wait and (names or locs):
                            okb = True
                if not okb:
                    return g.loc(st)
    return None if n else "?"


def _uncounted_waits(fb, rec, cvfield, counters):
    """None if every wait on this.<cvfield> in class `rec` is dominated by an increment of each field in `counters`;
    otherwise the location of a wait that is not"""
    for g in fb.functions(rec=rec):
        for st in g.stmts.values():
            if st["k"] == "CXXMemberCallExpr" and (st.get("callee") or {}).get("name") in ("wait", "wait_for", "wait_until") and \
                    path(g, g.s(st.get("obj"))) == "this." + cvfield and g.pos_of(st):
                for c in counters:
                    incs = [s2 for s2 in g.stmts.values() if s2["k"] in ("UnaryOperator", "CompoundAssignOperator") and
                            s2.get("op") in ("++", "+=") and path(g, g.children(s2)[0]) == "this." + c and g.pos_of(s2)]
                    if not any(g.dominates(tuple(g.pos_of(i)), tuple(g.pos_of(st))) for i in incs):
                        return g.loc(st)
    return None


def notify_follows(f, write_pos, cvfield, pred_fields, cls, require_all=True, la=None, mutex=None, fb=None):
    """a notify on this.<cvfield> follows write_pos on every path to the exit,
    or is bypassed only through a branch whose condition reads pred_fields only.
    returns (ok, detail)"""
    ns = cv_notifies(f, cvfield)
    if not ns:
        return False, "no notify on %s in %s" % (cvfield, f.name)
    if require_all and any(n["callee"]["name"] == "notify_one" for n in ns):
        # waking ONE waiter releases all of them only if each released waiter wakes the next (baton passing): every wait on
        # this condition variable, in every member, is followed by a notify on it - skipped at most on a branch that tests
        # the wait's own outcome / the predicate (a wait that timed out has no wake-up to pass on)
        unpassed = _waits_without_baton(fb, f.rec, cvfield, pred_fields) if fb is not None else "?"
        if unpassed:
            return False, "notify_one wakes a single waiter; every waiter must be released" + (
                "" if unpassed == "?" else " (the waiter at %s does not pass the wake-up on)" % unpassed)
    npos = [tuple(f.pos_of(n)) for n in ns if f.pos_of(n)]
    # reachable & not before
    if not any(f.reach_avoiding(write_pos, p, []) for p in npos):
        return False, "the notify is not reachable after the state change (notify-before-update)"
    # nothing that can throw user exceptions runs between the state change and the notify (the CFG has no exception
    # edges: a throwing callback would leave the function with the state changed and nobody woken)
    from .common import is_user_call
    protected = set()
    for t in [s_ for s_ in f.stmts.values() if s_["k"] == "CXXTryStmt"]:
        hs = [f.s(h) for h in t["handlers"]]
        swallows = any(h.get("all") for h in hs) and not any(d["k"] == "CXXThrowExpr" for h in hs for d in f.descendants(h))
        notifies = any(h.get("all") and any(d["id"] == n["id"] for n in ns for d in f.descendants(h)) for h in hs)
        if swallows or notifies:        # the handler keeps the exception in, or wakes the waiters itself before rethrowing
            protected |= {d["id"] for d in f.descendants(f.s(t["try"]))}
    for u in f.stmts.values():
        if u["id"] in protected or u["k"] not in CALLS or not is_user_call(f, u):
            continue
        up = f.pos_of(u)
        if up is None:
            continue
        if f.reach_avoiding(write_pos, tuple(up), []) and any(f.reach_avoiding(tuple(up), p, []) for p in npos) and \
                not any(f.reach_avoiding(write_pos, p, [tuple(up)]) and not f.reach_avoiding(write_pos, tuple(up), [p]) for p in npos):
            return False, "user code is called at %s between the state change and the notify: if it throws, the waiters are " \
                          "never woken although the state they wait for has been reached" % f.loc(u)
    if not f.exits_avoiding(write_pos, npos):
        return True, ""
    # some path avoids the notify: accept only a bypass decided by the predicate fields alone
    for p in npos:
        nb = p[0]
        for pb in f.blocks[nb].preds:
            blk = f.blocks[pb]
            # `if (a && b)`: the test starts in the block that evaluates `a`; that one has to be on every path
            top = pb
            while blk.term and len(f.blocks[top].preds) == 1:
                up = f.blocks[f.blocks[top].preds[0]]
                if up.term and up.term.get("k") == "BinaryOperator" and \
                        any(d["id"] == up.term.get("s") for d in f.descendants(f.s(blk.term.get("cond")))):
                    top = f.blocks[top].preds[0]
                else:
                    break
            tb = f.blocks[top]
            if blk.term and blk.term.get("cond") and len(blk.succs) == 2 and \
                    f.postdominates((top, len(tb.elems) - 1 if tb.elems else 0), write_pos):
                cond = f.s(blk.term["cond"])
                names = set()
                other = False
                work = [cond]
                seen_decl = set()
                unlocked_read = None
                while work:
                    c0 = work.pop()
                    for d in f.descendants(c0):
                        if d["k"] == "MemberExpr" and d["m"].get("is_field"):
                            names.add(d["m"]["name"])
                            if la is not None and mutex is not None and d["m"]["name"] in pred_fields:
                                rp = f.pos_of(d)
                                if rp is None or not la.holds(rp, "this." + mutex, "X"):
                                    unlocked_read = f.loc(d)
                        if d["k"] == "DeclRefExpr" and d["d"].get("k") == "param":
                            other = True
                        if d["k"] == "DeclRefExpr" and d["d"].get("inl_ret"):
                            # the result of an inlined helper (`if (countDown()) notify`): judge what the helper returns
                            from .engine import inl_ret_sources
                            srcs = inl_ret_sources(f, d["d"]["id"])
                            if srcs and all(f.dominates(write_pos, f.pos_of(x) or write_pos) or True for x in srcs):
                                work += srcs
                            else:
                                other = True
                            continue
                        if d["k"] == "DeclRefExpr" and d["d"].get("k") == "local":
                            # a local computed (once, before the test) from the predicate fields only
                            nm = d["d"]["name"]
                            if nm in seen_decl:
                                continue
                            seen_decl.add(nm)
                            inits = [f.s(dd.get("init")) for s_ in f.stmts.values() if s_["k"] == "DeclStmt"
                                     for dd in s_["decls"] if dd["name"] == nm and dd.get("init")]
                            reassigned = any(s_["k"] == "BinaryOperator" and s_["op"] == "=" and
                                             path(f, f.children(s_)[0]) == "l:" + nm for s_ in f.stmts.values())
                            if len(inits) == 1 and not reassigned and f.dominates(write_pos, f.pos_of(inits[0]) or write_pos):
                                work.append(inits[0])
                            else:
                                other = True
                extra = names - set(pred_fields)
                if extra and not other and fb is not None:
                    # `... && waiters_ > 0`: skipping the notify because nobody is waiting is sound exactly when every wait on
                    # this condition variable is counted - in every function, before it blocks, under the same mutex
                    uncounted = _uncounted_waits(fb, f.rec, cvfield, extra)
                    if uncounted is None:
                        names = names - extra
                    else:
                        return False, "the notify is skipped when %s says nobody waits, but the wait at %s is not counted in it: that " \
                                      "thread blocks for ever once the state it waits for is reached" % (sorted(extra), uncounted)
                if names and names <= set(pred_fields) and not other:
                    if unlocked_read:
                        return False, "the decision whether to notify re-reads %s at %s after the mutex was released: a " \
                                      "concurrent change in between makes the arrival that opened the gate skip the notify" \
                                      % (sorted(names), unlocked_read)
                    return True, "notify guarded by a test of %s only" % sorted(names)
    return False, "a path from the state change to the exit avoids every notify"
