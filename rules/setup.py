"""MANIFEST.setup_cmd: build the extractor from source (offline)."""
import sys
from .runner import build_extractor, Broken

if __name__ == "__main__":
    try:
        build_extractor()
        print("extractor ready")
    except Broken as e:
        print(e)
        sys.exit(1)
