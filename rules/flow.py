"""Path enumeration and a small value-token interpreter (A4).

paths(f): every entry->exit path of the CFG with loops taken at most
`unroll` times, as a list of (block id, chosen successor index).  The
functions this is used on have a handful of branches, so the enumeration is
exhaustive (a cap turns into 'analysis broken', never into a pass).
"""
import re

from .engine import CALLS, CTORS, WRAPPERS, callee_fq, path, unwrap, PASS_THROUGH_FUNCS


class TooManyPaths(Exception):
    pass


# loop bound of the exhaustive path enumeration: every loop is taken 0..DEPTH times on the enumerated paths.
# quick tier 1, thorough tier 2 (set by the runner).  Rules must hold on every enumerated path.
DEPTH = 1


def paths(f, unroll=None, cap=20000, start=None):
    """syntactic paths from the entry block (or from block `start`, e.g. an exception handler) to an end of the function"""
    if unroll is None:
        unroll = DEPTH
    out = []
    stack = [(f.entry if start is None else start, [], {})]
    while stack:
        b, trail, visits = stack.pop()
        if b == f.exit:
            out.append(trail + [(b, None)])
            if len(out) > cap:
                raise TooManyPaths(f.label)
            continue
        v = visits.get(b, 0)
        if v > unroll:
            continue
        visits = dict(visits)
        visits[b] = v + 1
        blk = f.blocks[b]
        succs = [(i, s) for i, s in enumerate(blk.succs) if s is not None]
        if not succs:
            # noreturn / throw block: path ends here
            out.append(trail + [(b, None)])
            continue
        for i, s in succs:
            stack.append((s, trail + [(b, i)], visits))
    return out


def path_positions(f, p):
    """element positions along a path, with the branch outcome after each block"""
    for b, choice in p:
        blk = f.blocks[b]
        for i in range(len(blk.elems)):
            yield ("elem", (b, i), None)
        if blk.term and choice is not None and len(blk.succs) == 2:
            yield ("branch", (b, len(blk.elems)), choice == 0)


def cond_atoms(f, cond, val=True):
    """decompose a branch condition with known outcome into atomic facts:
    list of (kind, a, b, value) with kind in
       'eq'   a == b      (paths; b may be 'nullptr' / 'true' / 'false' / int)
       'truth' a is truthy
       'call' the call expression (stmt) returned value
    """
    cond = unwrap(f, cond)
    if cond is None:
        return []
    k = cond["k"]
    if k == "UnaryOperator" and cond["op"] == "!":
        return cond_atoms(f, f.children(cond)[0], not val)
    if k == "BinaryOperator" and cond["op"] in ("&&", "||"):
        l, r = f.children(cond)
        if (cond["op"] == "&&" and val) or (cond["op"] == "||" and not val):
            return cond_atoms(f, l, val) + cond_atoms(f, r, val)
        return []
    if (k == "BinaryOperator" and cond["op"] in ("==", "!=")) or \
            (k == "CXXOperatorCallExpr" and cond.get("op") in ("==", "!=")):
        if k == "BinaryOperator":
            l, r = f.children(cond)
        else:
            l, r = [f.s(a) for a in cond["args"][:2]]
        op = cond["op"]
        eq = (op == "==") == val
        return [("eq", operand(f, l), operand(f, r), eq, cond)]
    if k in CALLS:
        return [("call", cond, None, val, cond), ("truth", operand(f, cond), None, val, cond)]
    return [("truth", operand(f, cond), None, val, cond)]


def operand(f, st):
    st = unwrap(f, st)
    if st is None:
        return None
    k = st["k"]
    if k == "CXXNullPtrLiteralExpr" or k == "GNUNullExpr":
        return "nullptr"
    if k == "CXXBoolLiteralExpr":
        return "true" if st["v"] else "false"
    if k == "IntegerLiteral":
        return st["v"]
    if k == "CXXMemberCallExpr" and (st.get("callee") or {}).get("name") == "operator bool" and st.get("obj") and \
            re.match(r"^std::(optional|unique_ptr|shared_ptr|__shared_ptr|weak_ptr|function)\b", (st["callee"].get("rec") or "")):
        # `if (opt)` / `if (ptr)`: the truth of the object itself (engaged / non-null)
        return path(f, f.s(st["obj"]))
    return path(f, st)


# ------------------------------------------------------------ value tokens
class TokenFlow:
    """tracks which symbolic value each named object holds along ONE path.

    objects are access paths (p:x, l:y, this.m_obj); values are tokens
    ('in:p:x' = value the object had on entry, 'copy-of' is not distinguished
    from the value itself: copies carry the same token)."""

    def __init__(self, f, objects):
        self.f = f
        self.val = {o: "in:" + o for o in objects}
        self.returned = None
        self.events = []

    def get(self, p):
        if p is None:
            return None
        return self.val.get(p, "in:" + p)

    def value_of(self, st):
        f = self.f
        st = unwrap(f, st)
        if st is None:
            return None
        k = st["k"]
        if k == "CXXBoolLiteralExpr":
            return "true" if st["v"] else "false"
        if k == "CXXNullPtrLiteralExpr":
            return "nullptr"
        if k in CTORS:
            if len(st["args"]) == 1:
                return self.value_of(f.s(st["args"][0]))
            if st["args"] and st.get("t", "").startswith(("std::unique_ptr<", "std::shared_ptr<")):
                return self.value_of(f.s(st["args"][0]))      # smart pointer built from (pointer, deleter)
            return "obj:" + st["id"]
        if k in CALLS:
            fq = callee_fq(st)
            if fq in PASS_THROUGH_FUNCS:
                return self.value_of(f.s(st["args"][0]))
            if fq == "std::exchange":
                # value computed in step()
                return self.val.get("call:" + st["id"])
            if k == "CXXMemberCallExpr" and (st.get("callee") or {}).get("name") in ("get", "release"):
                o = f.s(st["obj"])
                if o is not None and o.get("t", "").replace("const ", "").startswith(("std::unique_ptr<", "std::shared_ptr<")):
                    return self.value_of(o)
            return self.val.get("call:" + st["id"], "call:" + st["id"])
        p = path(f, st)
        if p is not None:
            return self.get(p)
        return None

    def step(self, pos):
        f = self.f
        e = f.elem(pos)
        if e["k"] != "S":
            return
        st = f.stmts[e["s"]]
        k = st["k"]
        if k == "CallExpr":
            fq = callee_fq(st)
            args = [f.s(a) for a in st["args"]]
            if fq == "std::swap" and len(args) == 2:
                a, b = path(f, args[0]), path(f, args[1])
                if a and b:
                    va, vb = self.get(a), self.get(b)
                    self.val[a], self.val[b] = vb, va
                    self.events.append(("swap", a, b, pos))
            elif fq == "std::exchange" and len(args) == 2:
                a = path(f, args[0])
                if a:
                    self.val["call:" + st["id"]] = self.get(a)
                    self.val[a] = self.value_of(args[1])
                    self.events.append(("assign", a, pos))
        elif k == "CXXOperatorCallExpr" and st.get("op") == "=":
            args = [f.s(a) for a in st["args"]]
            a = path(f, args[0])
            if a:
                self.val[a] = self.value_of(args[1])
                self.events.append(("assign", a, pos))
        elif k == "BinaryOperator" and st.get("op") == "=":
            l, r = f.children(st)
            a = path(f, l)
            if a:
                self.val[a] = self.value_of(r)
                self.events.append(("assign", a, pos))
        elif k == "DeclStmt":
            for d in st["decls"]:
                if d.get("init"):
                    self.val["l:" + d["name"]] = self.value_of(f.s(d["init"])) if not d.get("ref") else None
                    if d.get("ref"):
                        # reference: alias the referenced object
                        tgt = path(f, f.s(d["init"]))
                        if tgt:
                            self.val["l:" + d["name"]] = self.get(tgt)
        elif k == "ReturnStmt":
            ch = f.children(st)
            self.returned = self.value_of(ch[0]) if ch else "void"
            self.events.append(("return", self.returned, pos))
