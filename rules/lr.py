"""Path-sensitive interpretation of lr_guarded::modify / lock_shared (A4).

Each CFG path is executed over a tiny symbolic state: boolean locals hold
either a literal or (negations of) the value an atomic flag had when it was
loaded; pointer locals hold the address of a field.  Branches on such values
split the path per valuation.  The result is, per path, the ordered list of
protocol events with CONCRETE values under that valuation."""
from .engine import CALLS, CTORS, atomic_ops, atomic_field_of, callee_fq, path, unwrap
from .flow import paths, TooManyPaths

LR = "gmlc::libguarded::lr_guarded"


class Sym:
    """value: ('lit', bool) | ('flag', field, load id, negated) | ('addr', field) | ('unknown',)"""


def _neg(v):
    if v[0] == "lit":
        return ("lit", not v[1])
    if v[0] == "flag":
        return ("flag", v[1], v[2], not v[3])
    return ("unknown",)


class PathRun:
    def __init__(self, f, p):
        self.f = f
        self.p = p
        self.env = {}
        self.assume = {}       # load id -> bool
        self.events = []
        self.ok = True
        self.why = ""
        self.atomic = {op["st"]["id"]: op for op in atomic_ops(f)}

    # -------------------------------------------------------------- values
    def value(self, st):
        f = self.f
        st = unwrap(f, st)
        if st is None:
            return ("unknown",)
        k = st["k"]
        if k == "CXXBoolLiteralExpr":
            return ("lit", bool(st["v"]))
        if k == "UnaryOperator" and st["op"] == "!":
            return _neg(self.value(f.children(st)[0]))
        if k == "UnaryOperator" and st["op"] == "&":
            p = path(f, f.children(st)[0])
            if p and p.startswith("this."):
                return ("addr", p[5:])
            return ("unknown",)
        if k == "DeclRefExpr":
            p = path(f, st)
            return self.env.get(p, ("unknown",))
        if st["id"] in self.atomic:
            op = self.atomic[st["id"]]
            fld = atomic_field_of(f, op)
            if op["op"] == "load" and fld:
                return ("flag", fld[1], st["id"], False)
        return ("unknown",)

    def concrete(self, v):
        """bool value under the path's assumptions, or None"""
        if v[0] == "lit":
            return v[1]
        if v[0] == "flag":
            a = self.assume.get(v[2])
            if a is None:
                return None
            return (not a) if v[3] else a
        return None

    def target(self, st):
        """field a pointer expression designates ('m_left'), or None"""
        f = self.f
        st = unwrap(f, st)
        if st is None:
            return None
        if st["k"] == "UnaryOperator" and st["op"] == "*":
            inner = unwrap(f, f.children(st)[0])
            if inner is not None and inner["k"] == "DeclRefExpr":
                v = self.env.get(path(f, inner), ("unknown",))
                return v[1] if v[0] == "addr" else None
            p = path(f, st)
            return p[5:] if p and p.startswith("this.") else None
        if st["k"] == "UnaryOperator" and st["op"] == "&":
            p = path(f, f.children(st)[0])
            return p[5:] if p and p.startswith("this.") else None
        p = path(f, st)
        if p and p.startswith("this."):
            return p[5:]
        if st["k"] == "DeclRefExpr":
            v = self.env.get(path(f, st), ("unknown",))
            return v[1] if v[0] == "addr" else None
        return None

    # --------------------------------------------------------------- steps
    def run(self):
        f = self.f
        for b, choice in self.p:
            blk = f.blocks[b]
            for i, e in enumerate(blk.elems):
                if e["k"] == "S":
                    self.step(f.stmts[e["s"]], (b, i))
            if blk.term and choice is not None and len(blk.succs) == 2 and blk.term.get("cond"):
                cond = f.s(blk.term["cond"])
                taken = (choice == 0)
                if not self.branch(cond, taken, blk):
                    self.ok = False     # infeasible under earlier assumptions
                    return self
        return self

    def branch(self, cond, taken, blk):
        f = self.f
        cu = unwrap(f, cond)
        # loop headers on a counter: 'X.load() != 0'
        z = self.zero_observed(cu, taken)
        if z:
            self.events.append(("zero", z, taken, blk.id, None))
        if blk.term["k"] in ("WhileStmt", "ForStmt", "DoStmt"):
            self.events.append(("loopcond", self.drained_by_exit(cu), taken, blk.id, None))
            return True
        v = self.value(cu)
        if v[0] == "flag":
            want = (not taken) if v[3] else taken
            old = self.assume.get(v[2])
            if old is not None and old != want:
                return False
            self.assume[v[2]] = want
            return True
        if v[0] == "lit":
            return v[1] == taken
        return True

    def zero_observed(self, cu, taken):
        """atomic fields whose loaded value is known to be ZERO given that the
        branch condition cu evaluated to `taken`"""
        f = self.f
        cu = unwrap(f, cu)
        if cu is None:
            return set()
        k = cu["k"]
        if k == "UnaryOperator" and cu["op"] == "!":
            return self.zero_observed(f.children(cu)[0], not taken)
        if k == "BinaryOperator" and cu["op"] == "||" and not taken:
            l, r = f.children(cu)
            return self.zero_observed(l, False) | self.zero_observed(r, False)
        if k == "BinaryOperator" and cu["op"] == "&&" and taken:
            l, r = f.children(cu)
            return self.zero_observed(l, True) | self.zero_observed(r, True)
        if k == "BinaryOperator" and cu["op"] in ("!=", ">", "==", "<="):
            l, r = [unwrap(f, x) for x in f.children(cu)]
            if r is not None and r["k"] == "IntegerLiteral" and r["v"] == 0 and l is not None and \
                    l["id"] in self.atomic and self.atomic[l["id"]]["op"] == "load":
                fld = atomic_field_of(f, self.atomic[l["id"]])
                zero_when = cu["op"] in ("==", "<=")
                if fld and taken == zero_when:
                    return {fld[1]}
            return set()
        if cu["id"] in self.atomic and self.atomic[cu["id"]]["op"] == "load" and not taken:
            fld = atomic_field_of(f, self.atomic[cu["id"]])
            t = self.atomic[cu["id"]]["objtype"]
            if fld and "atomic<int>" in t:
                return {fld[1]}
        return set()

    def drained_by_exit(self, cu):
        """set of atomic fields that are known to have been observed ZERO when
        the loop condition evaluates to false: cond is 'c.load() != 0' (or > 0,
        or the bare load), or a disjunction of such terms.  None if the
        condition has another shape."""
        f = self.f
        cu = unwrap(f, cu)
        if cu is None:
            return None
        if cu["k"] == "BinaryOperator" and cu["op"] == "||":
            l, r = f.children(cu)
            a, b = self.drained_by_exit(l), self.drained_by_exit(r)
            if a is None or b is None:
                return None
            return a | b
        if cu["k"] == "BinaryOperator" and cu["op"] in ("!=", ">"):
            l, r = [unwrap(f, x) for x in f.children(cu)]
            if r is not None and r["k"] == "IntegerLiteral" and r["v"] == 0 and l is not None and l["id"] in self.atomic:
                fld = atomic_field_of(f, self.atomic[l["id"]])
                return {fld[1]} if fld else None
            return None
        if cu["id"] in self.atomic and self.atomic[cu["id"]]["op"] == "load":
            fld = atomic_field_of(f, self.atomic[cu["id"]])
            return {fld[1]} if fld else None
        return None

    def _counter_of(self, cu):
        f = self.f
        for d in f.descendants(cu):
            if d["id"] in self.atomic:
                fld = atomic_field_of(f, self.atomic[d["id"]])
                if fld:
                    return fld[1]
        return None

    def _exit_shape(self, cu):
        """does the loop continue exactly while the counter is non-zero?"""
        f = self.f
        if cu is None:
            return "?"
        if cu["k"] == "BinaryOperator" and cu["op"] in ("!=", ">"):
            l, r = [unwrap(f, x) for x in f.children(cu)]
            if r is not None and r["k"] == "IntegerLiteral" and r["v"] == 0 and l is not None and l["id"] in self.atomic:
                return "nonzero"
        if cu["id"] in self.atomic:
            return "nonzero"
        return "other"

    def step(self, st, pos):
        f = self.f
        k = st["k"]
        if k == "DeclStmt":
            for d in st["decls"]:
                if d.get("init"):
                    self.env["l:" + d["name"]] = self.value(f.s(d["init"]))
        elif k == "BinaryOperator" and st["op"] == "=":
            l, r = f.children(st)
            lp = path(f, l)
            if lp and lp.startswith("l:"):
                self.env[lp] = self.value(r)
        elif st["id"] in self.atomic:
            op = self.atomic[st["id"]]
            fld = atomic_field_of(f, op)
            if fld is None:
                self.events.append(("unknown-atomic", op["name"], None, pos, st))
                return
            if op["op"] == "load":
                self.events.append(("load", fld[1], st["id"], pos, st))
            elif op["op"] == "store":
                v = self.value(op["value"]) if op["value"] is not None else ("unknown",)
                self.events.append(("store", fld[1], v, pos, st))
            elif op["op"] in ("rmw", "cas"):
                self.events.append(("rmw", fld[1], op["name"], pos, st))
        elif k == "CXXOperatorCallExpr" and st.get("op") == "()":
            # application of the user functor
            args = [f.s(a) for a in st["args"]]
            if len(args) >= 2:
                self.events.append(("apply", self.target(args[1]), None, pos, st))
        elif k == "CallExpr" and callee_fq(st) == "std::this_thread::yield":
            self.events.append(("yield", None, None, pos, st))
        elif k in CTORS and st.get("t", "").startswith("std::unique_ptr<const ") and len(st["args"]) == 2:
            # shared_handle(&m_left, shared_deleter(counter))
            ptr = self.target(f.s(st["args"][0]))
            cnt = None
            d = unwrap(f, f.s(st["args"][1]))
            while d is not None and d["k"] in CTORS and len(d["args"]) == 1:
                a0 = f.s(d["args"][0])
                p = path(f, a0)
                if p and p.startswith("this."):
                    cnt = p[5:]
                    break
                d = unwrap(f, a0)
            self.events.append(("handle", ptr, cnt, pos, st))


def run_paths(f, unroll=None):
    out = []
    for p in paths(f, unroll=unroll):
        r = PathRun(f, p).run()
        if r.ok:
            out.append(r)
    return out
