"""Path-sensitive interpretation of lr_guarded::modify / lock_shared (A4).

Each CFG path is executed over a small symbolic state.  Values of locals:
  ('lit', b)                      boolean literal
  ('flag', field, load id, neg)   (negation of) the value an atomic flag had when it was loaded
  ('ztest', fields, nonzero)      result of comparing atomic counter load(s) with zero
                                  (nonzero=True: the value is true when some counter is NON-zero)
  ('addr', field)                 address of a member (write pointers)
  ('atomref', field)              reference alias of an atomic member (field may be ('param', name) in helpers)
  ('unknown',)
Branches on such values split the path per valuation.  The result is, per path, the ordered list of protocol
events with CONCRETE values under that valuation.  Calls of small private/static helpers of the same class are
summarised (which counters they wait for / observe zero) and spliced in at the call."""
from .engine import CALLS, CTORS, atomic_ops, atomic_field_of, callee_fq, path, unwrap
from .flow import paths, TooManyPaths

LR = "gmlc::libguarded::lr_guarded"


def _neg(v):
    if v[0] == "lit":
        return ("lit", not v[1])
    if v[0] == "flag":
        return ("flag", v[1], v[2], not v[3])
    if v[0] == "ztest":
        return ("ztest", v[1], not v[2])
    return ("unknown",)


class PathRun:
    def __init__(self, f, p, param_env=None, depth=0):
        self.f = f
        self.p = p
        self.env = dict(param_env or {})
        self.assume = {}       # load id -> bool
        self.events = []
        self.ok = True
        self.depth = depth
        self.atomic = {op["st"]["id"]: op for op in atomic_ops(f)}

    # -------------------------------------------------------------- values
    def field_of_expr(self, st):
        """member field designated by an lvalue expression (through reference aliases / ?: on known values)"""
        f = self.f
        st = unwrap(f, st)
        if st is None:
            return None
        k = st["k"]
        if k == "MemberExpr" and st["m"].get("is_field"):
            b = path(f, f.s(st["base"]))
            if b == "this":
                return st["m"]["name"]
            return None
        if k == "DeclRefExpr":
            d = st["d"]
            key = ("p:" if d.get("k") == "param" else "l:") + d["name"]
            v = self.env.get("#" + d["id"], self.env.get(key))
            if v is not None and v[0] == "atomref":
                return v[1]
            return None
        if k == "ConditionalOperator":
            c = self.concrete(self.value(f.s(st["cond"])))
            if c is None:
                return None
            return self.field_of_expr(f.s(st["then"] if c else st["else"]))
        if k == "UnaryOperator" and st["op"] == "*":
            inner = unwrap(f, f.children(st)[0])
            if inner is not None and inner["k"] == "UnaryOperator" and inner["op"] == "&":
                return self.field_of_expr(f.children(inner)[0])
        return None

    def atomic_field(self, op):
        st = op["st"]
        o = self.f.s(st["obj"]) if st["k"] == "CXXMemberCallExpr" else self.f.s(st["args"][0])
        fld = self.field_of_expr(o)      # path-sensitive first (aliases decided on this path)
        if fld:
            return fld
        fld = atomic_field_of(self.f, op)
        return fld[1] if fld else None

    def value(self, st):
        f = self.f
        st = unwrap(f, st)
        if st is None:
            return ("unknown",)
        k = st["k"]
        if k == "CXXBoolLiteralExpr":
            return ("lit", bool(st["v"]))
        # an exception carried as a value (std::exception_ptr): null / non-null
        if k == "CXXNullPtrLiteralExpr":
            return ("null",)
        if k == "CallExpr" and callee_fq(st) == "std::current_exception":
            return ("nonnull",)
        if k in CTORS and "exception_ptr" in st.get("t", ""):
            if not st["args"]:
                return ("null",)
            if len(st["args"]) == 1:
                return self.value(f.s(st["args"][0]))
        if k == "CXXMemberCallExpr" and (st.get("callee") or {}).get("name") == "operator bool" and \
                "exception_ptr" in (f.s(st.get("obj")) or {}).get("t", ""):
            v = self.value(f.s(st["obj"]))
            if v[0] == "null":
                return ("lit", False)
            if v[0] == "nonnull":
                return ("lit", True)
            return ("unknown",)
        if k == "UnaryOperator" and st["op"] == "!":
            return _neg(self.value(f.children(st)[0]))
        if k == "UnaryOperator" and st["op"] == "&":
            fld = self.field_of_expr(f.children(st)[0])
            if fld:
                return ("addr", fld)
            return ("unknown",)
        if k == "ConditionalOperator":
            c = self.concrete(self.value(f.s(st["cond"])))
            if c is None:
                return ("unknown",)
            return self.value(f.s(st["then"] if c else st["else"]))
        if k == "DeclRefExpr":
            d = st["d"]
            key = ("p:" if d.get("k") == "param" else "l:") + d["name"]
            return self.env.get("#" + d["id"], self.env.get(key, ("unknown",)))
        if k == "BinaryOperator" and st["op"] in ("!=", ">", "==", "<="):
            l, r = [unwrap(f, x) for x in f.children(st)]
            if r is not None and r["k"] == "IntegerLiteral" and r["v"] == 0 and l is not None and l["id"] in self.atomic \
                    and self.atomic[l["id"]]["op"] == "load":
                fld = self.atomic_field(self.atomic[l["id"]])
                if fld:
                    return ("ztest", frozenset([fld]), st["op"] in ("!=", ">"))
            # comparison of two boolean values: readingLeft == countingLeft
            if st["op"] in ("==", "!="):
                a, b = self.concrete(self.value(l)), self.concrete(self.value(r))
                if a is not None and b is not None:
                    return ("lit", (a == b) if st["op"] == "==" else (a != b))
            return ("unknown",)
        if k == "BinaryOperator" and st["op"] == "||":
            a, b = [self.value(x) for x in f.children(st)]
            if a[0] == "ztest" and b[0] == "ztest" and a[2] and b[2]:
                return ("ztest", a[1] | b[1], True)
            return ("unknown",)
        if st["id"] in self.atomic:
            op = self.atomic[st["id"]]
            if op["op"] == "load":
                fld = self.atomic_field(op)
                if fld:
                    return ("flag", fld, st["id"], False)
        return ("unknown",)

    def concrete(self, v):
        """bool value under the path's assumptions, or None"""
        if v[0] == "lit":
            return v[1]
        if v[0] == "flag":
            a = self.assume.get(v[2])
            if a is None:
                return None
            return (not a) if v[3] else a
        return None

    def target(self, st):
        """member a pointer expression designates ('m_left'), or None"""
        f = self.f
        st = unwrap(f, st)
        if st is None:
            return None
        if st["k"] == "UnaryOperator" and st["op"] == "*":
            v = self.value(f.children(st)[0])
            if v[0] == "addr":
                return v[1]
            return self.field_of_expr(st)
        v = self.value(st)
        if v[0] in ("addr", "objref"):
            return v[1]
        return self.field_of_expr(st)

    # --------------------------------------------------------------- steps
    def run(self):
        f = self.f
        for b, choice in self.p:
            blk = f.blocks[b]
            for i, e in enumerate(blk.elems):
                if e["k"] == "S":
                    self.step(f.stmts[e["s"]], (b, i))
            if blk.term and choice is not None and len(blk.succs) == 2 and blk.term.get("cond"):
                cond = f.s(blk.term["cond"])
                taken = (choice == 0)
                if not self.branch(cond, taken, blk):
                    self.ok = False     # infeasible under earlier assumptions
                    return self
        return self

    def branch(self, cond, taken, blk):
        v = self.value(cond)
        is_loop = blk.term["k"] in ("WhileStmt", "ForStmt", "DoStmt")
        if v[0] == "ztest":
            zero = (not taken) if v[2] else taken
            if zero:
                self.events.append(("zero", set(v[1]), taken, blk.id, None))
            self.events.append(("loopcond", set(v[1]), taken, blk.id, None))
            return True
        if v[0] == "flag" and "atomic<int>" in self.atomic.get(v[2], {}).get("objtype", ""):
            # bare counter used as a condition: while (cnt.load()) ...
            zero = taken if v[3] else (not taken)
            if zero:
                self.events.append(("zero", {v[1]}, taken, blk.id, None))
            self.events.append(("loopcond", {v[1]}, taken, blk.id, None))
            return True
        if is_loop:
            self.events.append(("loopcond", None, taken, blk.id, None))
        if v[0] == "flag":
            want = (not taken) if v[3] else taken
            old = self.assume.get(v[2])
            if old is not None and old != want:
                return False
            self.assume[v[2]] = want
            return True
        if v[0] == "lit":
            return v[1] == taken
        return True

    def step(self, st, pos):
        f = self.f
        k = st["k"]
        if k == "DeclStmt":
            for d in st["decls"]:
                if not d.get("init"):
                    continue
                init = f.s(d["init"])
                if d.get("ref"):
                    fld = self.field_of_expr(init)
                    if fld:
                        v = ("atomref", fld)
                    else:
                        tg = self.target(init)      # T& target = *firstWriteLocation;
                        v = ("objref", tg) if tg else ("unknown",)
                else:
                    v = self.value(init)
                self.env["l:" + d["name"]] = v
                self.env["#" + d["id"]] = v
        elif k == "BinaryOperator" and st["op"] == "=":
            l, r = f.children(st)
            lu = unwrap(f, l)
            if lu is not None and lu["k"] == "DeclRefExpr" and lu["d"].get("k") == "local":
                v = self.value(r)
                self.env["l:" + lu["d"]["name"]] = v
                self.env["#" + lu["d"]["id"]] = v
        elif k == "CXXOperatorCallExpr" and st.get("op") == "=" and len(st["args"]) == 2 and \
                "exception_ptr" in (f.s(st["args"][0]) or {}).get("t", ""):
            lu = unwrap(f, f.s(st["args"][0]))
            if lu is not None and lu["k"] == "DeclRefExpr" and lu["d"].get("k") == "local":
                v = self.value(f.s(st["args"][1]))
                self.env["l:" + lu["d"]["name"]] = v
                self.env["#" + lu["d"]["id"]] = v
        elif k == "CallExpr" and callee_fq(st) == "std::rethrow_exception":
            self.events.append(("rethrow", self.value(f.s(st["args"][0])) if st["args"] else ("unknown",), None, pos, st))
        elif st["id"] in self.atomic:
            op = self.atomic[st["id"]]
            fld = self.atomic_field(op)
            if fld is None:
                self.events.append(("unknown-atomic", op["name"], None, pos, st))
                return
            if op["op"] == "load":
                self.events.append(("load", fld, st["id"], pos, st))
            elif op["op"] == "store":
                v = self.value(op["value"]) if op["value"] is not None else ("unknown",)
                self.events.append(("store", fld, v, pos, st))
            elif op["op"] in ("rmw", "cas"):
                self.events.append(("rmw", fld, op["name"], pos, st))
        elif k == "CXXOperatorCallExpr" and st.get("op") == "()":
            args = [f.s(a) for a in st["args"]]
            if len(args) >= 2:
                self.events.append(("apply", self.target(args[1]), None, pos, st))
        elif k == "CallExpr" and callee_fq(st) == "std::this_thread::yield":
            self.events.append(("yield", None, None, pos, st))
        elif k in ("CallExpr", "CXXMemberCallExpr") and (st.get("callee") or {}).get("inrepo") and \
                (st.get("callee") or {}).get("rec") == f.rec and f.rec:
            self.helper_call(st, pos)
        elif k in CTORS and st.get("t", "").startswith("std::unique_ptr<const ") and len(st["args"]) == 2:
            # shared_handle(&m_left, shared_deleter(counter))
            ptr = self.target(f.s(st["args"][0]))
            cnt = None
            d = unwrap(f, f.s(st["args"][1]))
            while d is not None and d["k"] in CTORS and len(d["args"]) == 1:
                a0 = f.s(d["args"][0])
                fld = self.field_of_expr(a0)
                if fld:
                    cnt = fld
                    break
                d = unwrap(f, a0)
            self.events.append(("handle", ptr, cnt, pos, st))

    # ------------------------------------------------------------- helpers
    def helper_call(self, st, pos):
        """a call of a small helper of the same class: splice in what it waits for"""
        f = self.f
        g = f.unit.fn_by_id.get(st["callee"]["id"])
        if g is None or g is f or self.depth >= 2 or g.name in ("lock_shared", "modify"):
            return
        summ = helper_summary(g, self.depth + 1)
        if summ is None:
            self.events.append(("unknown-helper", g.name, None, pos, st))
            return
        mapping = {}
        for pd, a in zip(g.params, st["args"]):
            mapping[("param", pd["name"])] = self.field_of_expr(f.s(a))

        def tr(fields):
            out = set()
            for x in fields:
                if isinstance(x, tuple):
                    y = mapping.get(x)
                    if y is None:
                        return None
                    out.add(y)
                else:
                    out.add(x)
            return out
        mz, waited = tr(summ["must_zero"]), tr(summ["waited"])
        if mz is None or waited is None:
            self.events.append(("unknown-helper", g.name, None, pos, st))
            return
        if waited:
            self.events.append(("loopcond", waited, True, ("helper", g.id), None))
        if mz:
            self.events.append(("zero", mz, False, ("helper", g.id), None))
        if summ["yields"]:
            self.events.append(("yield", None, None, pos, st))


_HELPER = {}


def helper_summary(g, depth=1):
    """what a helper does in terms of the protocol: counters it must have observed zero when it returns
    (on every path), counters it waits on; None if it does anything else (stores, applications, unknown atomics)"""
    key = (g.unit.path, g.id)
    if key in _HELPER:
        return _HELPER[key]
    _HELPER[key] = None
    env = {}
    for pd in g.params:
        if "std::atomic<" in pd.get("type", "") and pd.get("ref"):
            env["p:" + pd["name"]] = ("atomref", ("param", pd["name"]))
    try:
        ps = paths(g)
    except TooManyPaths:
        return None
    must = None
    waited = set()
    yields = False
    for p in ps:
        if p[-1][0] != g.exit:
            continue
        r = PathRun(g, p, env, depth).run()
        if not r.ok:
            continue
        z = set()
        for e in r.events:
            if e[0] in ("store", "rmw", "apply", "handle", "unknown-atomic", "unknown-helper"):
                return None
            if e[0] == "zero":
                z |= set(e[1])
            if e[0] == "loopcond" and e[1]:
                waited |= set(e[1])
            if e[0] == "yield":
                yields = True
        must = z if must is None else (must & z)
    res = dict(must_zero=must or set(), waited=waited, yields=yields)
    _HELPER[key] = res
    return res


def run_paths(f, unroll=None, start=None):
    out = []
    for p in paths(f, unroll=unroll, start=start):
        r = PathRun(f, p).run()
        if r.ok:
            out.append(r)
    return out
