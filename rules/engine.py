"""Shared analyses A1-A4 over the fact base (see DESIGN.md section 3).

 * access paths (normalised chains rooted at this / a parameter / a local)
 * A1  lock-state dataflow over RAII lock objects, with branch refinement
 * A2  handle summaries of functions returning lock-carrying objects
 * field-access classification (read / write / address-escape) with the lock
   set that is held at the access
"""
import re
from collections import namedtuple

from .facts import short

# --------------------------------------------------------------------- types
MUTEX_TYPES = (
    "std::mutex", "std::timed_mutex", "std::recursive_mutex",
    "std::recursive_timed_mutex", "std::shared_mutex", "std::shared_timed_mutex",
)
_LOCK_RX = re.compile(r"^(?:const )?std::(lock_guard|unique_lock|shared_lock|scoped_lock)<(.*)>(?: ?&{1,2})?$")
_HANDLE_RX = re.compile(
    r"^(?:const )?gmlc::libguarded::(lock_handle|shared_lock_handle)<(.*)>(?: ?&{1,2})?$")
WRAPPERS = ("ExprWithCleanups", "MaterializeTemporaryExpr", "CXXBindTemporaryExpr",
            "ParenExpr", "ConstantExpr", "CXXFunctionalCastExpr", "CXXStaticCastExpr",
            "CStyleCastExpr", "CXXConstCastExpr", "CXXReinterpretCastExpr",
            "ImplicitCastExpr", "FullExpr")
CALLS = ("CallExpr", "CXXMemberCallExpr", "CXXOperatorCallExpr")
CTORS = ("CXXConstructExpr", "CXXTemporaryObjectExpr")
PASS_THROUGH_FUNCS = ("std::move", "std::forward", "std::addressof", "std::as_const",
                      "std::move_if_noexcept")


def strip_cvref(t):
    t = t.strip()
    t = re.sub(r"\s*&{1,2}$", "", t)
    if t.startswith("const "):
        t = t[6:]
    return t.strip()


def is_mutex_type(t):
    return strip_cvref(t) in MUTEX_TYPES


def lock_class(t):
    """'lock_guard' / 'unique_lock' / 'shared_lock' / 'scoped_lock' or None"""
    m = _LOCK_RX.match(t.strip())
    return m.group(1) if m else None


def handle_class(t):
    m = _HANDLE_RX.match(t.strip())
    return m.group(1) if m else None


def is_lock_carrier(t):
    return lock_class(t) is not None or handle_class(t) is not None


def is_atomic_type(t):
    t = strip_cvref(t)
    return t.startswith("std::atomic<") or t in ("std::atomic_bool", "std::atomic_int") \
        or t.startswith("std::__atomic_base<") or t == "std::atomic_flag"


def is_condvar_type(t):
    return strip_cvref(t) in ("std::condition_variable", "std::condition_variable_any")


def is_pointer_to_const(t):
    t = t.strip()
    return bool(re.match(r"^const .*\*$", t)) or bool(re.search(r"\bconst \*$", t))


# --------------------------------------------------------------------- paths
def inl_ret_sources(f, decl_id):
    """expressions a helper inlined into f returns through its synthetic result local decl_id"""
    m = getattr(f, "_inl_rets", None)
    if m is None:
        m = {}
        for st in f.stmts.values():
            if st.get("inl_return") and st["k"] == "BinaryOperator":
                ch = f.children(st)
                if len(ch) == 2:
                    m.setdefault(st["inl_return"], []).append(ch[1])
        f._inl_rets = m
    return m.get(decl_id, [])


def unwrap(f, st):
    """look through value-preserving wrapper nodes - and through the result of an inlined helper that has a single
    return statement (the call then simply denotes the returned expression)"""
    n = 0
    while st is not None and n < 60:
        n += 1
        if st["k"] in WRAPPERS:
            ch = f.children(st)
            if not ch:
                break
            st = ch[0]
            continue
        if st["k"] == "DeclRefExpr" and st.get("d", {}).get("inl_ret"):
            src = inl_ret_sources(f, st["d"]["id"])
            if len(src) == 1:
                st = src[0]
                continue
        break
    return st


def callee_fq(st):
    c = st.get("callee")
    return c["fq"] if c else ""


def path(f, st, depth=0):
    """normalised access path of an expression, or None.

    'this', 'this.m_obj', 'this.m_zombie->next', 'p:gmutex', 'l:glock',
    '&this.m_obj', 'l:n->owner' ...  Loads of atomics, smart-pointer get()/->/*
    and std::move/forward are looked through."""
    if st is None or depth > 40:
        return None
    k = st["k"]
    if k in WRAPPERS:
        ch = f.children(st)
        return path(f, ch[0], depth + 1) if ch else None
    if k == "CXXThisExpr":
        return "this"
    if k == "DeclRefExpr":
        d = st["d"]
        kind = d.get("k")
        if d.get("inl_ret"):
            src = inl_ret_sources(f, d["id"])
            if len(src) == 1:
                return path(f, src[0], depth + 1)
        if kind == "param":
            return "p:" + d["name"]
        if kind == "binding" and d.get("decomp"):
            # `auto& [key, pr] = *it;` / `for (auto& [key, pr] : map)`: pr is the second member of the unnamed variable
            base = "l:" + d["decomp_name"]
            if depth < 30:
                tgt = _ref_target(f, d["decomp"])
                if tgt is not None:
                    tp = path(f, tgt, depth + 5)
                    if tp is not None and "l:__" not in tp:
                        base = tp
            if re.match(r"^(const )?std::pair<", d.get("decomp_type", "")) and d.get("bidx") in (0, 1):
                mem = ("first", "second")[d["bidx"]]
                return base[1:] + "->" + mem if base.startswith("*") else base + "." + mem
            return "%s.$%s" % (base, d.get("bidx"))
        if kind in ("local", "static_local", "binding"):
            if kind == "local" and depth < 30:
                # a local reference is an alias of the lvalue it is bound to (and a never-reassigned pointer copy of
                # a member pointer the function only reads denotes that member's pointee)
                tgt = _ref_target(f, d["id"])
                if tgt is not None:
                    p = path(f, tgt, depth + 5)
                    if p is not None and "l:__" not in p:
                        return p
            return "l:" + d["name"]
        if kind in ("global", "static_member"):
            return "g:" + d["name"]
        if kind == "function":
            return "fn:" + d["name"]
        if kind == "enumconst":
            return "e:" + d["name"]
        return None
    if k == "MemberExpr":
        b = path(f, f.s(st["base"]), depth + 1)
        if b is None:
            return None
        name = st["m"]["name"]
        if b == "this" or b == "*this":
            return "this." + name
        if st["arrow"]:
            if b.startswith("&"):
                res = b[1:] + "." + name
            else:
                res = b + "->" + name
        elif b.startswith("*"):
            res = b[1:] + "->" + name
        else:
            res = b + "." + name
        # a reference member of an RAII object whose constructor was inlined denotes what it was bound to
        refs = f.d.get("inl_member_refs")
        if refs and res in refs and depth < 30:
            tp = path(f, f.s(refs[res]), depth + 5)
            if tp is not None:
                return tp
        return res
    if k == "BinaryOperator" and st.get("op") in ("->*", ".*"):
        pf = ptm_field(f, st)
        if pf is None:
            return None
        b = path(f, pf[0], depth + 1)
        if b is None:
            return None
        if pf[1]:
            return (b[1:] + "." + pf[2]) if b.startswith("&") else (b + "->" + pf[2])
        return (b[1:] + "->" + pf[2]) if b.startswith("*") else (b + "." + pf[2])
    if k == "UnaryOperator":
        op = st["op"]
        ch = f.children(st)
        b = path(f, ch[0], depth + 1) if ch else None
        if b is None:
            return None
        if b == "this" and op in ("*", "&"):
            return "this"        # `*this` (and `&*this`): the object itself - calls and member accesses on it are on `this`
        if op == "&":
            return b[1:] if b.startswith("*") else "&" + b
        if op == "*":
            return b[1:] if b.startswith("&") else "*" + b
        return None
    if k in CALLS:
        c = st.get("callee")
        if not c:
            return None
        fq = c["fq"]
        args = [f.s(a) for a in st["args"]]
        if fq in PASS_THROUGH_FUNCS and args:
            p = path(f, args[0], depth + 1)
            if fq == "std::addressof" and p:
                return "&" + p
            return p
        if k == "CXXOperatorCallExpr":
            op = st.get("op")
            if op == "->" and args:
                # value is the pointer; MemberExpr(arrow) adds the '->'
                return path(f, args[0], depth + 1)
            if op == "*" and len(args) == 1:
                b = path(f, args[0], depth + 1)
                return ("*" + b) if b else None
            return None
        if k == "CXXMemberCallExpr":
            obj = f.s(st["obj"])
            name = c["name"]
            ot = obj.get("t", "") if obj else ""
            if name in ("get", "release") and re.match(r"^(const )?std::(__)?(unique_ptr|shared_ptr)<", ot):
                return path(f, obj, depth + 1)
            if name in ("load",) and is_atomic_type(ot):
                return path(f, obj, depth + 1)
            if c.get("kind") == "conv" and is_atomic_type(ot):
                return path(f, obj, depth + 1)
            if c.get("kind") == "conv" and name == "operator bool" and \
                    re.match(r"^(const )?std::(__)?(unique_ptr|shared_ptr|function)(_access)?<", ot):
                return path(f, obj, depth + 1)
            if name == "get_deleter":
                b = path(f, obj, depth + 1)
                return (b + ".<deleter>") if b else None
        return None
    return None


def ptm_field(f, st):
    """for `obj->*pm` / `obj.*pm` where pm is (a parameter of an inlined helper bound to) `&Class::field`:
    (object expression, arrow?, field name), else None"""
    st = unwrap(f, st)
    if st is None or st["k"] != "BinaryOperator" or st.get("op") not in ("->*", ".*"):
        return None
    ch = f.children(st)
    if len(ch) != 2:
        return None
    pm = unwrap(f, ch[1])
    for _ in range(4):
        if pm is None:
            return None
        if pm["k"] == "DeclRefExpr" and pm["d"].get("k") in ("local", "param"):
            init = None
            for s_ in f.stmts.values():
                if s_["k"] == "DeclStmt":
                    for d_ in s_["decls"]:
                        if d_.get("id") == pm["d"].get("id") and d_.get("init"):
                            init = f.s(d_["init"])
            pm = unwrap(f, init) if init is not None else None
            continue
        break
    if pm is None or pm["k"] != "UnaryOperator" or pm.get("op") != "&":
        return None
    fd = unwrap(f, f.children(pm)[0]) if f.children(pm) else None
    if fd is None or fd["k"] != "DeclRefExpr" or fd["d"].get("k") != "field":
        return None
    return ch[0], st["op"] == "->*", fd["d"]["name"]


def _tmpl_of_type(t):
    """class template name (template arguments removed) of a (pointer / reference to a) class type spelling"""
    t = strip_cvref(t).rstrip("*& ").strip()
    out, depth = [], 0
    for ch_ in t:
        if ch_ == "<":
            depth += 1
        elif ch_ == ">":
            depth -= 1
        elif depth == 0:
            out.append(ch_)
    return "".join(out).strip()


def _ref_target(f, name):
    """initialiser of the local reference with declaration id `name` when it binds an lvalue (not a temporary)"""
    cache = getattr(f, "_ref_cache", None)
    if cache is None:
        cache = {}
        for st in f.stmts.values():
            if st["k"] == "DeclStmt":
                for d in st["decls"]:
                    if d.get("ref") and d.get("init") and d.get("k") == "local":
                        init = f.s(d["init"])
                        iu = unwrap(f, init)
                        # an rvalue reference bound to `std::move(x)` / `std::forward<T>(x)` names x just the same
                        while iu is not None and iu["k"] == "CallExpr" and callee_fq(iu) in ("std::move", "std::forward") and iu.get("args"):
                            init = f.s(iu["args"][0])
                            iu = unwrap(f, init)
                        if iu is not None and iu.get("vk") == "l" and iu["k"] in ("MemberExpr", "DeclRefExpr", "UnaryOperator",
                                                                                 "CXXOperatorCallExpr"):
                            cache[d["id"]] = init
                        else:
                            cache.setdefault(d["id"], None)
                    elif d.get("inl") and not d.get("ref") and d.get("init") and d.get("type", "").rstrip().endswith(("*", "*const", "* const")):
                        # pointer parameter of an inlined helper, bound to the argument: the same pointer value for the whole
                        # helper body as long as the helper never reassigns it
                        iu_ = unwrap(f, f.s(d["init"]))
                        named = iu_ is not None and iu_["k"] in ("MemberExpr", "DeclRefExpr", "UnaryOperator", "CXXThisExpr")
                        # (a pointer that is the RESULT of a call - an atomic load, get() - is a value, not a name)
                        if d.get("inl_this") or (named and _only_rvalue_uses(f, lambda x: x["k"] == "DeclRefExpr" and x["d"].get("id") == d["id"], True)):
                            cache[d["id"]] = f.s(d["init"])
                    elif not d.get("ref") and d.get("init") and d.get("k") == "local" and \
                            d.get("type", "").rstrip().endswith(("*", "*const", "* const")):
                        # a pointer local that is a never-reassigned copy of a member pointer this function only reads
                        # (`node* const self = m_zombie;`) denotes the same object as the member for the whole body
                        iu = unwrap(f, f.s(d["init"]))
                        base_ = unwrap(f, f.s(iu.get("base"))) if iu is not None and iu["k"] == "MemberExpr" else None
                        # the member pointer of `this` or of a parameter object (`iter.m_current`), read-only in this function
                        stable_base = base_ is not None and (base_["k"] == "CXXThisExpr" or
                                                            (base_["k"] == "DeclRefExpr" and base_["d"].get("k") == "param"))
                        if iu is not None and iu["k"] == "MemberExpr" and iu["m"].get("is_field") and stable_base and \
                                _only_rvalue_uses(f, lambda x: x["k"] == "DeclRefExpr" and x["d"].get("id") == d["id"], True) and \
                                _only_rvalue_uses(f, lambda x: x["k"] == "MemberExpr" and x["m"].get("id") == iu["m"].get("id")):
                            cache[d["id"]] = f.s(d["init"])
        f._ref_cache = cache
    return cache.get(name)


def _only_rvalue_uses(f, pred, allow_forward=False):
    """every use of the matched variable / member reads its value.  allow_forward: handing the variable to a library
    function through a forwarding reference (`construct(alloc, p, current)`) counts as a read as well - nothing in the
    standard library assigns through such a parameter"""
    for st in f.stmts.values():
        if pred(st):
            par = f.par(st)
            while par is not None and par["k"] == "ParenExpr":
                par = f.par(par)
            if par is not None and par["k"] == "ImplicitCastExpr" and par.get("ck") == "LValueToRValue":
                continue
            if allow_forward and par is not None:
                up = par
                while up is not None and up["k"] in ("ImplicitCastExpr", "ParenExpr") and up.get("ck") in (None, "NoOp"):
                    up = f.par(up)
                if up is not None and up["k"] in CALLS + CTORS and not (up.get("callee") or {}).get("inrepo") and \
                        (up.get("callee") or {}).get("fq", "").startswith("std::"):
                    continue
            return False
    return True


def subst(p, mapping):
    """substitute path roots: mapping like {'this': 'this.m_pendingList',
    'p:gmutex': 'this.m_mutex'} (longest root first)"""
    if p is None:
        return None
    amp = ""
    core = p
    while core and core[0] in "&*":
        amp += core[0]
        core = core[1:]
    for root in sorted(mapping, key=len, reverse=True):
        if core == root or core.startswith(root + ".") or core.startswith(root + "->"):
            rep = mapping[root]
            if rep is None:
                return None
            rest = core[len(root):]
            ramp = ""
            rcore = rep
            while rcore and rcore[0] in "&*":
                ramp += rcore[0]
                rcore = rcore[1:]
            if ramp == "&" and rest.startswith("->"):
                return normalise(amp + rcore + "." + rest[2:])
            if ramp and rest:
                return None
            return normalise(amp + ramp + rcore + rest)
    return p


def normalise(p):
    while "&*" in p or "*&" in p:
        p = p.replace("&*", "").replace("*&", "")
    return p


# ------------------------------------------------------------ lock state A1
HELD, UNOWNED, MAYBE = "held", "unowned", "maybe"
LockVal = namedtuple("LockVal", "mutex mode st")   # mode 'X' | 'S'


def _join_val(a, b):
    if a == b:
        return a
    if a is None or b is None:
        return None
    mutex = a.mutex if a.mutex == b.mutex else None
    mode = a.mode if a.mode == b.mode else "S"
    if a.st == b.st and mutex is not None:
        return LockVal(mutex, mode, a.st)
    return LockVal(mutex, mode, MAYBE)


def _join(s1, s2):
    if s1 is None:
        return s2
    if s2 is None:
        return s1
    out = {}
    for k in s1:
        if k in s2:
            v = _join_val(s1[k], s2[k])
            if v is not None:
                out[k] = v
    return out


class LockAnalysis:
    """forward must-dataflow of lock-carrying objects in one function.

    keys:  'l:<name>' / 'p:<name>' for variables, 'this.<field>' for members,
           't:<stmt id>' for temporaries (id of the CXXBindTemporaryExpr when
           there is one, so that the temporary destructor can find it)
    inherited: lock values held by the caller for the whole body (lambdas)."""

    def __init__(self, eng, f, inherited=None, entry_state=None, assume=None):
        self.eng = eng
        self.f = f
        self.assume = dict(assume or {})     # immutable boolean members with an assumed value: {'this.enabled': True}
        self.inherited = list(inherited or [])
        self.before = {}      # pos -> state dict
        self.block_in = {}
        self.block_out = {}   # bid -> state at the end of the block
        self.edge_out = {}    # (bid, succ index) -> state on that edge (after branch refinement)
        self.notes = []       # things the analysis could not interpret
        self.acquire_events = []  # (pos, key, LockVal, blocking?)
        self.entry_state = dict(entry_state or {})
        self._run()

    # ----------------------------------------------------------- helpers
    def key_of_expr(self, st):
        """key of the lock object an expression denotes"""
        f = self.f
        st = unwrap(f, st)
        if st is None:
            return None
        if st["k"] in CALLS and callee_fq(st) in PASS_THROUGH_FUNCS:
            return self.key_of_expr(f.s(st["args"][0]))
        if st["k"] in CTORS or st["k"] in CALLS:
            return self.temp_key(st)
        p = path(f, st)
        return p

    def temp_key(self, st):
        """key for the temporary created by construct/call expression st"""
        f = self.f
        cur = st
        while True:
            par = f.par(cur)
            if par is None:
                break
            if par["k"] == "CXXBindTemporaryExpr":
                return "t:" + par["id"]
            if par["k"] in ("CXXFunctionalCastExpr", "ImplicitCastExpr", "ParenExpr") and \
                    par["k"] != "CXXBindTemporaryExpr":
                cur = par
                continue
            break
        return "t:" + st["id"]

    def target_key(self, st):
        """where does the object built by construct/call expression st live:
        a declared variable (DeclStmt init), a member (ctor initialiser), or a
        temporary"""
        f = self.f
        cur = st
        while True:
            par = f.par(cur)
            if par is None:
                break
            k = par["k"]
            if k == "DeclStmt":
                for d in par["decls"]:
                    if d.get("init") == cur["id"]:
                        if d.get("ref"):
                            break
                        return "l:" + d["name"]
                break
            if k == "BinaryOperator" and par.get("inl_init"):
                # member initialiser of an inlined constructor: the object lives in that member
                lp = path(f, f.children(par)[0])
                if lp:
                    return lp
                break
            if k in ("ExprWithCleanups", "CXXBindTemporaryExpr", "CXXFunctionalCastExpr",
                     "MaterializeTemporaryExpr", "ParenExpr", "ConstantExpr"):
                cur = par
                continue
            if k == "ImplicitCastExpr" and par.get("ck") in ("NoOp", "ConstructorConversion"):
                cur = par
                continue
            if k in CTORS and par["callee"].get("copy_ctor") is None:
                # elidable copy/move of the same type
                c = par["callee"]
                if len(par["args"]) == 1 and strip_cvref(par["t"]) == strip_cvref(st.get("t", "")):
                    cur = par
                    continue
            break
        # member initialiser?
        top = cur
        for ini in f.inits:
            if ini.get("init") == top["id"] and ini.get("field"):
                return "this." + ini["field"]
        return self.temp_key(st)

    # ---------------------------------------------------------- transfer
    def _ctor(self, st, state, pos):
        f = self.f
        t = st.get("t", "")
        lc = lock_class(t)
        hc = handle_class(t)
        if lc is None and hc is None:
            return
        key = self.target_key(st)
        args = [f.s(a) for a in st["args"]]
        argt = [a.get("t", "") if a else "" for a in args]
        c = st["callee"]
        ptypes = c.get("params", [])
        if lc:
            mode = "S" if lc == "shared_lock" else "X"
            if not args:
                state[key] = LockVal(None, mode, UNOWNED)
                return
            if len(args) == 1 and lock_class(ptypes[0] if ptypes else ""):
                # move (or copy) construction from another lock object
                src = self.key_of_expr(args[0])
                v = state.get(src)
                if v is None:
                    state[key] = LockVal(None, mode, MAYBE)
                    self.notes.append((f.loc(st), "lock moved from unknown source"))
                else:
                    state[key] = v
                    state[src] = LockVal(v.mutex, v.mode, UNOWNED)
                return
            mpath = path(f, args[0])
            if lc == "scoped_lock" and len(args) > 1:
                # several mutexes: record each under a suffixed key
                for i, a in enumerate(args):
                    state["%s#%d" % (key, i)] = LockVal(path(f, a), "X", HELD)
                    self.acquire_events.append((pos, key, LockVal(path(f, a), "X", HELD), True, st))
                return
            if len(args) == 1:
                v = LockVal(mpath, mode, HELD)
                state[key] = v
                self.acquire_events.append((pos, key, v, True, st))
                return
            tag = strip_cvref(ptypes[1]) if len(ptypes) > 1 else ""
            if tag == "std::defer_lock_t":
                state[key] = LockVal(mpath, mode, UNOWNED)
            elif tag == "std::adopt_lock_t":
                v = LockVal(mpath, mode, HELD)
                state[key] = v
                self.acquire_events.append((pos, key, v, "adopt", st))
            elif tag == "std::try_to_lock_t":
                v = LockVal(mpath, mode, MAYBE)
                state[key] = v
                self.acquire_events.append((pos, key, v, "try", st))
            elif "std::chrono::" in tag:
                v = LockVal(mpath, mode, MAYBE)
                state[key] = v
                self.acquire_events.append((pos, key, v, "timed", st))
            else:
                state[key] = LockVal(mpath, mode, MAYBE)
                self.notes.append((f.loc(st), "unknown lock constructor tag " + tag))
            return
        # library handle
        mode = self.eng.handle_mode(t)
        if len(args) == 1 and handle_class(ptypes[0] if ptypes else ""):
            src = self.key_of_expr(args[0])
            v = state.get(src)
            if v is None:
                state[key] = LockVal(None, mode, MAYBE)
            else:
                state[key] = v
                state[src] = LockVal(v.mutex, v.mode, UNOWNED)
            return
        if len(args) > 2:
            r = self.eng.handle_ctor_lock(f, self, st, pos)
            if r is None:
                state[key] = LockVal(None, mode, MAYBE)
                self.notes.append((f.loc(st), "handle built by a constructor the analysis cannot read"))
            else:
                state[key] = r[0]
                if r[1] is not None:
                    self.acquire_events.append((pos, key, r[0], r[1], st))
            return
        if len(args) == 2:
            if is_mutex_type(ptypes[1]):
                r = self.eng.handle_ctor_lock(f, self, st, pos)
                if r is not None and not (r[0].st == HELD and r[1] is True):
                    # the (pointer, mutex&) constructor no longer simply locks: use what its initialisers do
                    state[key] = r[0]
                    if r[1] is not None:
                        self.acquire_events.append((pos, key, r[0], r[1], st))
                    return
                v = LockVal(path(f, args[1]), mode, HELD)
                state[key] = v
                self.acquire_events.append((pos, key, v, True, st))
            else:
                src = self.key_of_expr(args[1])
                v = state.get(src)
                if v is None:
                    state[key] = LockVal(None, mode, MAYBE)
                    self.notes.append((f.loc(st), "handle built from unknown lock object"))
                else:
                    state[key] = LockVal(v.mutex, v.mode, v.st)
                    state[src] = LockVal(v.mutex, v.mode, UNOWNED)
            return

    def _raw_mutex_call(self, st, state, pos, obj):
        """raw operations on a bare mutex are tracked too (key 'raw:<path>'), so that the lockset is right;
        that they bypass RAII is reported by the *.raii rules"""
        f = self.f
        mp = path(f, obj)
        if mp is None:
            return
        name = st["callee"]["name"]
        key = "raw:" + mp
        if name in ("lock", "lock_shared"):
            v = LockVal(mp, "S" if name == "lock_shared" else "X", HELD)
            state[key] = v
            self.acquire_events.append((pos, key, v, True, st))
        elif name in ("unlock", "unlock_shared"):
            state.pop(key, None)
        elif name in ("try_lock", "try_lock_for", "try_lock_until", "try_lock_shared", "try_lock_shared_for",
                      "try_lock_shared_until"):
            v = LockVal(mp, "S" if "shared" in name else "X", MAYBE)
            state[key] = v
            self.acquire_events.append((pos, key, v, "try" if name in ("try_lock", "try_lock_shared") else "timed", st))

    def _member_call(self, st, state, pos):
        f = self.f
        obj = f.s(st["obj"])
        if obj is None:
            return
        ot = obj.get("t", "")
        if is_mutex_type(ot):
            self._raw_mutex_call(st, state, pos, obj)
            return
        if not is_lock_carrier(ot):
            return
        key = self.key_of_expr(obj)
        name = st["callee"]["name"]
        v = state.get(key)
        if name in ("lock", "lock_shared"):
            if v is not None:
                nv = LockVal(v.mutex, v.mode, HELD)
                state[key] = nv
                self.acquire_events.append((pos, key, nv, True, st))
        elif name == "unlock":
            if v is not None:
                state[key] = LockVal(v.mutex, v.mode, UNOWNED)
        elif name in ("try_lock", "try_lock_for", "try_lock_until"):
            if v is not None:
                nv = LockVal(v.mutex, v.mode, MAYBE)
                state[key] = nv
                self.acquire_events.append(
                    (pos, key, nv, "try" if name == "try_lock" else "timed", st))
        elif name == "release":
            if v is not None:
                state[key] = LockVal(v.mutex, v.mode, UNOWNED)
                self.notes.append((f.loc(st), "lock.release() leaks ownership"))
        elif name == "swap":
            state.pop(key, None)

    def _call_returning_carrier(self, st, state, pos):
        """call to a repository function that returns a lock-carrying object:
        use its handle summary"""
        f = self.f
        t = st.get("t", "")
        if not is_lock_carrier(t) or st.get("vk") == "l":
            return
        c = st.get("callee")
        if not c or c.get("kind") in ("ctor",):
            return
        key = self.target_key(st)
        summ = self.eng.handle_summary_of_call(f, st)
        if summ is None:
            state[key] = LockVal(None, self.eng.handle_mode(t) if handle_class(t) else "X", MAYBE)
            return
        alts = summ
        vals = set()
        for a in alts:
            vals.add((a["mutex"], a["mode"], a["st"]))
        if len(vals) == 1:
            m, mode, stt = next(iter(vals))
            v = LockVal(m, mode, stt)
        else:
            ms = {m for (m, _, _) in vals if m}
            modes = {mo for (_, mo, _) in vals}
            v = LockVal(next(iter(ms)) if len(ms) == 1 else None,
                        next(iter(modes)) if len(modes) == 1 else "S", MAYBE)
        state[key] = v
        blocking = any(a.get("blocking") for a in alts)
        if v.st in (HELD, MAYBE):
            self.acquire_events.append((pos, key, v, True if blocking else "try", st))

    def transfer(self, pos, state):
        f = self.f
        e = f.elem(pos)
        k = e["k"]
        if k == "S":
            st = f.stmts[e["s"]]
            sk = st["k"]
            if sk in CTORS:
                self._ctor(st, state, pos)
            elif sk == "CXXMemberCallExpr":
                self._member_call(st, state, pos)
                self._call_returning_carrier(st, state, pos)
            elif sk in ("CallExpr", "CXXOperatorCallExpr"):
                self._call_returning_carrier(st, state, pos)
                if sk == "CallExpr" and callee_fq(st) == "std::lock":
                    # std::lock(l1, l2, ...) on lock objects (deferred unique_locks): all of them are owned afterwards
                    for a in st["args"]:
                        ae = f.s(a)
                        if ae is not None and is_lock_carrier(ae.get("t", "")):
                            key = self.key_of_expr(ae)
                            v = state.get(key)
                            if v is not None:
                                nv = LockVal(v.mutex, v.mode, HELD)
                                state[key] = nv
                                self.acquire_events.append((pos, key, nv, True, st))
                if sk == "CXXOperatorCallExpr" and st.get("op") == "=" and st["args"]:
                    lhs = f.s(st["args"][0])
                    if lhs is not None and is_lock_carrier(lhs.get("t", "")):
                        dst = self.key_of_expr(lhs)
                        src = self.key_of_expr(f.s(st["args"][1]))
                        v = state.get(src)
                        if v is not None:
                            state[dst] = v
                            state[src] = LockVal(v.mutex, v.mode, UNOWNED)
                        else:
                            state.pop(dst, None)
        elif k == "AD":
            name = e["var"]["name"]
            if is_lock_carrier(e["var"].get("type", "")):
                state.pop("l:" + name, None)
                for kk in [x for x in state if x.startswith("l:" + name + "#")]:
                    state.pop(kk, None)
            # lock objects that are members of a dying local (an RAII section object) are released with it
            for kk in [x for x in state if x.startswith("l:" + name + ".")]:
                state.pop(kk, None)
        elif k == "TD":
            state.pop("t:" + e["s"], None)
        return state

    def refine(self, blk, state):
        """states for the true / false successors of a two-way branch"""
        f = self.f
        if not blk.term or len(blk.succs) != 2 or not blk.term.get("cond"):
            return [state] * len(blk.succs)
        cond = f.s(blk.term["cond"])
        t_state, f_state = dict(state), dict(state)
        self._refine_expr(cond, t_state, f_state)
        return [t_state, f_state]

    def _refine_expr(self, cond, t_state, f_state):
        f = self.f
        cond = unwrap(f, cond)
        if cond is None:
            return
        if cond["k"] == "UnaryOperator" and cond["op"] == "!":
            self._refine_expr(f.children(cond)[0], f_state, t_state)
            return
        if cond["k"] == "BinaryOperator" and cond.get("op") in ("&&", "||"):
            # the block that ends an `a && b` / `a || b` chain carries the whole expression as its condition: on the edge
            # where the conjunction is TRUE every operand is true (disjunction FALSE: every operand false); the other edge
            # says nothing definite about one operand
            scratch = {}
            for sub_ in f.children(cond):
                if cond["op"] == "&&":
                    self._refine_expr(sub_, t_state, scratch)
                else:
                    self._refine_expr(sub_, scratch, f_state)
            return
        if cond["k"] == "CXXMemberCallExpr":
            obj = f.s(cond["obj"])
            if obj is not None and is_mutex_type(obj.get("t", "")) and cond["callee"]["name"].startswith("try_lock"):
                key = "raw:" + (path(f, obj) or "?")
                for stt, new in ((t_state, HELD), (f_state, UNOWNED)):
                    v = stt.get(key)
                    if v is not None and v.st == MAYBE:
                        if new == HELD:
                            stt[key] = LockVal(v.mutex, v.mode, HELD)
                        else:
                            stt.pop(key, None)
                return
            if obj is None or not is_lock_carrier(obj.get("t", "")):
                return
            name = cond["callee"]["name"]
            if name in ("owns_lock", "operator bool", "try_lock", "try_lock_for",
                        "try_lock_until"):
                key = self.key_of_expr(obj)
                for stt, new in ((t_state, HELD), (f_state, UNOWNED)):
                    v = stt.get(key)
                    if v is not None and v.st == MAYBE:
                        stt[key] = LockVal(v.mutex, v.mode, new)

    def _infeasible_succ(self, blk, state=None):
        """index of the successor that contradicts an assumed member value - or what is KNOWN about a lock object whose
        ownership the branch tests (`if (!lk.owns_lock())` right after a blocking acquisition) -, or None"""
        if not blk.term or len(blk.succs) != 2 or not blk.term.get("cond"):
            return None
        f = self.f
        c = unwrap(f, f.s(blk.term["cond"]))
        neg = False
        while c is not None and c["k"] == "UnaryOperator" and c["op"] == "!":
            neg = not neg
            c = unwrap(f, f.children(c)[0])
        if state is not None and c is not None and c["k"] == "CXXMemberCallExpr" and \
                (c.get("callee") or {}).get("name") in ("owns_lock", "operator bool") and c.get("obj"):
            o = f.s(c["obj"])
            if o is not None and lock_class(o.get("t", "")):
                v = state.get(self.key_of_expr(o))
                if v is not None and v.st in (HELD, UNOWNED):
                    val = (v.st == HELD) != neg
                    return 1 if val else 0
        if not self.assume:
            return None
        p = path(f, c) if c is not None else None
        if p in self.assume:
            val = self.assume[p] != neg       # value of the whole condition
            return 1 if val else 0
        return None

    def _run(self):
        f = self.f
        if f.entry is None:
            return
        self.block_in = {f.entry: dict(self.entry_state)}
        self._fix([f.entry])
        # exception handlers: clang's CFG has no edge into a catch block.  A handler runs with exactly the lock objects
        # that were alive before the try block began and stay alive throughout it (objects created inside the try are
        # destroyed by unwinding), each in the join of the states it has at the points of the try body.
        for _round in range(3):
            seeds = []
            for b, blk in f.blocks.items():
                if not (blk.term and blk.term.get("k") == "CXXTryStmt"):
                    continue
                ts = f.stmts.get(blk.term.get("s"))
                body = f.s(ts.get("try")) if ts else None
                if body is None:
                    continue
                ep = f.elempos()
                st = None
                for d in f.descendants(body):
                    pos = ep.get(d["id"])
                    if pos is None or tuple(pos) not in self.before:
                        continue
                    st = _join(st, self.before[tuple(pos)])
                if st is None:
                    continue
                for hb in blk.succs:
                    if hb is None:
                        continue
                    old = self.block_in.get(hb)
                    new = dict(st) if old is None else _join(old, st)
                    if old is None or new != old:
                        self.block_in[hb] = new
                        seeds.append(hb)
            if not seeds:
                break
            self._fix(seeds)
        # acquire events may have been recorded several times during iteration
        seen = set()
        uniq = []
        for ev in self.acquire_events:
            k = (ev[0], ev[1])
            if k in seen:
                continue
            seen.add(k)
            uniq.append(ev)
        self.acquire_events = uniq

    def _fix(self, start):
        f = self.f
        work = list(start)
        inq = set(start)
        iters = 0
        while work:
            iters += 1
            if iters > 5000:
                self.notes.append((f.where, "lock dataflow did not converge"))
                break
            b = work.pop(0)
            inq.discard(b)
            blk = f.blocks[b]
            state = dict(self.block_in.get(b) or {})
            for i in range(len(blk.elems)):
                pos = (b, i)
                self.before[pos] = dict(state)
                state = self.transfer(pos, state)
            self.block_out[b] = dict(state)
            outs = self.refine(blk, state)
            for idx_, o_ in enumerate(outs):
                self.edge_out[(b, idx_)] = o_
            dead = self._infeasible_succ(blk, state)
            for idx, s in enumerate(blk.succs):
                if s is None or idx == dead:
                    continue
                new = outs[idx] if idx < len(outs) else state
                old = self.block_in.get(s)
                joined = _join(old, new) if old is not None else dict(new)
                if old is None or joined != old:
                    self.block_in[s] = joined
                    if s not in inq:
                        work.append(s)
                        inq.add(s)

    # ------------------------------------------------------------ queries
    def state_at(self, pos):
        return self.before.get(tuple(pos), {})

    def held_at(self, pos):
        """list of (mutex path, mode, key) definitely held before pos"""
        res = [(v.mutex, v.mode, "inherited") for v in self.inherited]
        for k, v in self.state_at(pos).items():
            if v.st == HELD and v.mutex is not None:
                res.append((v.mutex, v.mode, k))
        return res

    def holds(self, pos, mutex, need="S"):
        for m, mode, _ in self.held_at(pos):
            if m == mutex and (need == "S" or mode == "X"):
                return True
        return False


# ------------------------------------------------------------------ engine
class Engine:
    def __init__(self, fb):
        self.fb = fb
        self._la = {}
        self._summ = {}
        self._summ_busy = set()
        self._handle_mode = {}
        for r in fb.records():
            if r.tmpl == "gmlc::libguarded::shared_lock_handle":
                a = r.alias("lock_type")
                if a:
                    self._handle_mode[r.qname] = "S" if lock_class(a["type"]) == "shared_lock" else "X"

    def handle_mode(self, t):
        """X for lock_handle; for shared_lock_handle what its lock_type gives"""
        hc = handle_class(t)
        if hc == "lock_handle":
            return "X"
        if hc == "shared_lock_handle":
            q = strip_cvref(t)
            if q in self._handle_mode:
                return self._handle_mode[q]
            # derive from the mutex argument: shared-capable mutexes get shared_lock
            return "S" if re.search(r"std::shared_(timed_)?mutex>$", q) else "X"
        lc = lock_class(t)
        return "S" if lc == "shared_lock" else "X"

    def locks(self, f, inherited=None):
        if inherited:
            return LockAnalysis(self, f, inherited)
        la = self._la.get((f.unit.name, f.uid))
        if la is None:
            la = LockAnalysis(self, f)
            self._la[(f.unit.name, f.uid)] = la
        return la

    # ---------------------------------------------------------------- A2
    def handle_summary(self, g):
        """summary of a function returning a lock-carrying object: list of
        alternatives {data, mutex, mode, st, blocking, cond}; paths are in the
        callee's own name space (this / p:param).  None = not understood."""
        key = (g.unit.name, g.uid)
        if key in self._summ:
            return self._summ[key]
        if key in self._summ_busy:
            return None
        self._summ_busy.add(key)
        alts = []
        ok = True
        la = self.locks(g)
        rets = [s for s in g.stmts.values() if s["k"] == "ReturnStmt"]
        if not rets:
            ok = False
        for r in rets:
            ch = g.children(r)
            if not ch:
                ok = False
                continue
            rp = g.pos_of(r)
            if rp is not None and rp[0] not in la.block_in and len(rets) > 1:
                continue        # on a path the lock state rules out (e.g. 'not owned' right after a blocking lock)
            a = self._summ_expr(g, la, ch[0], g.pos_of(r), None)
            if a is None:
                ok = False
            else:
                # 'if (!enabled) return X; return Y;' : the condition is a branch fact at the return
                rc = self._return_cond(g, r)
                if rc is not None:
                    a = [dict(x, cond=x.get("cond") or rc) for x in a]
                alts.extend(a)
        self._summ_busy.discard(key)
        res = alts if ok else None
        self._summ[key] = res
        return res

    def _return_cond(self, g, r):
        """(path, value) of the single boolean member whose value is known at return statement r"""
        from .typestate import NonNull
        key = ("nn", g.unit.name, g.uid)
        nn = self._summ.get(key)
        if nn is None:
            nn = NonNull(g)
            self._summ[key] = nn
        pos = g.pos_of(r)
        if pos is None:
            return None
        facts = [(k, p) for k, p in nn.before.get(tuple(pos), set()) if p.startswith("this.") and "->" not in p]
        if len(facts) == 1:
            k, p = facts[0]
            return (p, k == "nn")
        return None

    def _summ_expr(self, g, la, e, pos, cond):
        e = unwrap(g, e)
        if e is None:
            return None
        k = e["k"]
        t = e.get("t", "")
        if k == "ConditionalOperator":
            ce = unwrap(g, g.s(e["cond"]))
            neg = False
            while ce is not None and ce["k"] == "UnaryOperator" and ce.get("op") == "!":
                neg = not neg
                ce = unwrap(g, g.children(ce)[0])
            c = path(g, ce)
            a = self._summ_expr(g, la, g.s(e["then"]), g.pos_of(g.s(e["then"])), (c, not neg))
            b = self._summ_expr(g, la, g.s(e["else"]), g.pos_of(g.s(e["else"])), (c, neg))
            if a is None or b is None:
                return None
            return a + b
        if k in CTORS:
            args = [g.s(x) for x in e["args"]]
            ptypes = e["callee"].get("params", [])
            hc = handle_class(t)
            lc = lock_class(t)
            if len(args) == 1 and (handle_class(ptypes[0]) or lock_class(ptypes[0])):
                # (a named handle returned by value is moved / copied here: its state is the one BEFORE this construction)
                return self._summ_expr(g, la, args[0], g.pos_of(e) or pos, cond)
            if hc and len(args) > 2:
                r = self.handle_ctor_lock(g, la, e, pos)
                if r is None:
                    return None
                lv, kind, data = r
                return [dict(data=data, mutex=lv.mutex, mode=lv.mode, st=lv.st, blocking=(kind is True), cond=cond, site=g.loc(e))]
            if hc and len(args) == 2:
                mode = self.handle_mode(t)
                data = self._data_path(g, args[0])
                if is_mutex_type(ptypes[1]):
                    r = self.handle_ctor_lock(g, la, e, pos)
                    if r is not None and not (r[0].st == HELD and r[1] is True):
                        return [dict(data=data, mutex=r[0].mutex, mode=r[0].mode, st=r[0].st, blocking=(r[1] is True),
                                     cond=cond, site=g.loc(e))]
                    return [dict(data=data, mutex=path(g, args[1]), mode=mode, st=HELD,
                                 blocking=True, cond=cond, site=g.loc(e))]
                lk = unwrap(g, args[1])
                sub = self._lock_value(g, la, lk, g.pos_of(e) or pos)
                if sub is None:
                    return None
                if sub.st == MAYBE:
                    sp = self._owns_correlated(g, args[0], lk)
                    if sp is not None:
                        # `T* d = lk.owns_lock() ? obj : nullptr; return handle(d, std::move(lk));`
                        return [dict(data=sp[0], mutex=sub.mutex, mode=sub.mode if sub.mutex else mode, st=HELD,
                                     blocking=False, cond=cond, site=g.loc(e)),
                                dict(data=sp[1], mutex=sub.mutex, mode=sub.mode if sub.mutex else mode, st=UNOWNED,
                                     blocking=False, cond=cond, site=g.loc(e))]
                # the handle adopts a lock object: it was a blocking acquisition iff that object was locked by one
                src_ = lk
                while src_ is not None and ((src_["k"] in CALLS and callee_fq(src_) in PASS_THROUGH_FUNCS) or
                                            (src_["k"] in CTORS and len(src_["args"]) == 1 and lock_class(src_.get("t", "")))):
                    src_ = unwrap(g, g.s(src_["args"][0]))
                lkey = la.key_of_expr(src_) if src_ is not None else None
                evs = [ev for ev in la.acquire_events if ev[1] == lkey]
                blk_ = bool(evs) and all(ev[3] is True for ev in evs) and sub.st == HELD
                return [dict(data=data, mutex=sub.mutex, mode=sub.mode if sub.mutex else mode,
                             st=sub.st, blocking=blk_, cond=cond, site=g.loc(e))]
            if lc:
                v = self._lock_value(g, la, e, g.pos_of(e) or pos)
                if v is None:
                    return None
                return [dict(data=None, mutex=v.mutex, mode=v.mode, st=v.st,
                             blocking=(v.st == HELD), cond=cond, site=g.loc(e))]
            return None
        if k in CALLS:
            if callee_fq(e) in PASS_THROUGH_FUNCS:
                return self._summ_expr(g, la, g.s(e["args"][0]), pos, cond)
            s = self.handle_summary_of_call(g, e)
            if s is None:
                return None
            return [dict(a, cond=cond if cond else a.get("cond")) for a in s]
        if k == "DeclRefExpr" and e.get("d", {}).get("inl_ret"):
            out = []
            srcs = inl_ret_sources(g, e["d"]["id"])
            live = [x for x in srcs if g.pos_of(x) is None or g.pos_of(x)[0] in la.block_in]
            for src in (live or srcs):
                a = self._summ_expr(g, la, src, g.pos_of(src) or pos, cond)
                if a is None:
                    return None
                rc = self._return_cond(g, g.par(src)) if g.par(src) is not None else None
                out += [dict(x, cond=x.get("cond") or rc) for x in a] if rc is not None else a
            return out or None
        if k == "DeclRefExpr":
            p = path(g, e)
            v = la.state_at(pos).get(p) if pos else None
            if v is None:
                return None
            # a named handle built once in this function and only handed on: what it was built from
            if e["d"].get("k") == "local" and handle_class(t):
                inits = [g.s(d.get("init")) for s_ in g.stmts.values() if s_["k"] == "DeclStmt" for d in s_["decls"]
                         if d["id"] == e["d"].get("id") and d.get("init")]
                touched = [s_ for s_ in g.stmts.values() if s_["k"] in ("CXXMemberCallExpr", "CXXOperatorCallExpr") and
                           ((s_["k"] == "CXXMemberCallExpr" and path(g, g.s(s_.get("obj"))) == p and
                             (s_.get("callee") or {}).get("name") in ("unlock", "reset", "release", "swap")) or
                            (s_["k"] == "CXXOperatorCallExpr" and s_.get("op") == "=" and s_["args"] and path(g, g.s(s_["args"][0])) == p))]
                if len(inits) == 1 and not touched:
                    iu = unwrap(g, inits[0])
                    if iu is not None and iu["k"] in CTORS and handle_class(iu.get("t", "")) and len(iu.get("args", [])) >= 2:
                        a = self._summ_expr(g, la, iu, g.pos_of(iu) or pos, cond)
                        if a is not None:
                            return a
            return [dict(data="?", mutex=v.mutex, mode=v.mode, st=v.st, blocking=False,
                         cond=cond, site=g.loc(e))]
        if k == "InitListExpr":
            return None
        return None

    def _owns_correlated(self, g, data_e, lock_e):
        """data_e is a local defined once as `<lock>.owns_lock() ? A : B` (or operator bool) on the very lock object
        lock_e, which nothing else operates on: (data when owned, data when not owned), else None"""
        d = unwrap(g, data_e)
        lk = unwrap(g, lock_e)
        while lk is not None and ((lk["k"] in CALLS and callee_fq(lk) in PASS_THROUGH_FUNCS) or
                                  (lk["k"] in CTORS and len(lk["args"]) == 1 and lock_class(lk.get("t", "")))):
            lk = unwrap(g, g.s(lk["args"][0]))
        lp = path(g, lk) if lk is not None else None
        if d is None or not lp:
            return None

        def single_init(x):
            """initialiser of a local that is defined once and only read afterwards"""
            if x is None or x["k"] != "DeclRefExpr" or x["d"].get("k") != "local" or x["d"].get("ref"):
                return None
            did_ = x["d"]["id"]
            if not _only_rvalue_uses(g, lambda y: y["k"] == "DeclRefExpr" and y["d"].get("id") == did_):
                return None
            for st in g.stmts.values():
                if st["k"] == "DeclStmt":
                    for dd in st["decls"]:
                        if dd["id"] == did_ and dd.get("init"):
                            return unwrap(g, g.s(dd["init"]))
            return None
        # the selection may be written in place (`handle(owned ? obj : nullptr, std::move(lk))`) or kept in a local
        init = d if d["k"] == "ConditionalOperator" else single_init(d)
        if init is None or init["k"] != "ConditionalOperator":
            return None
        c = unwrap(g, g.s(init["cond"]))
        neg = False
        while c is not None and c["k"] == "UnaryOperator" and c["op"] == "!":
            neg = not neg
            c = unwrap(g, g.children(c)[0])
        if c is not None and c["k"] == "DeclRefExpr":
            # `const bool owned = lk.owns_lock();` tested later
            ci = single_init(c)
            while ci is not None and ci["k"] == "UnaryOperator" and ci["op"] == "!":
                neg = not neg
                ci = unwrap(g, g.children(ci)[0])
            c = ci
        if c is None or c["k"] != "CXXMemberCallExpr" or (c.get("callee") or {}).get("name") not in ("owns_lock", "operator bool") \
                or path(g, g.s(c["obj"])) != lp:
            return None
        # nothing else may operate on the lock object (its state at the test is its state at the hand-over)
        for st in g.stmts.values():
            if st["k"] == "CXXMemberCallExpr" and st["id"] != c["id"] and path(g, g.s(st["obj"])) == lp and \
                    (st.get("callee") or {}).get("name") not in ("owns_lock", "operator bool", "mutex"):
                return None
        a, b = self._data_path(g, g.s(init["then"])), self._data_path(g, g.s(init["else"]))
        return (b, a) if neg else (a, b)

    def handle_ctor_lock(self, g, la, e, pos):
        """what a handle constructor call does with the lock, read off the constructor's member initialisers (for
        constructors other than the two the reference tree has: (pointer, mutex&) and (pointer, lock&&)):
        (LockVal of the handle's lock member, acquisition kind True/'try'/'timed'/'adopt'/None, data argument) or None"""
        h = self.fb.callee_fn(g, e, raw=True)
        if h is None or h.kind != "ctor" or h.invalid or not h.inits:
            return None
        args = [g.s(x) for x in e["args"]]
        pidx = {"p:" + pd["name"]: i for i, pd in enumerate(h.params)}
        mode = self.handle_mode(e.get("t", ""))
        lockv = None
        kind = None
        data = "?"
        for ini in h.inits:
            fld = ini.get("field")
            ie = unwrap(h, h.s(ini.get("init")))
            if ie is None or not fld:
                continue
            ft = ie.get("t", "")
            if lock_class(ft) and ie["k"] in CALLS and ie.get("args"):
                # the lock comes out of a factory (shared_locker<M>::generate_lock(mut)): what that factory returns
                s_ = self.handle_summary_of_call(h, ie)
                if not s_ or len(s_) != 1:
                    return None
                a_ = s_[0]
                i0 = pidx.get(a_.get("mutex"))
                if i0 is None or i0 >= len(args):
                    return None
                lockv = LockVal(path(g, args[i0]), a_.get("mode") or mode, a_["st"])
                kind = True if a_.get("blocking") else ("try" if a_["st"] == MAYBE else None)
                continue
            if lock_class(ft) and ie["k"] in CTORS:
                ia = [h.s(x) for x in ie["args"]]
                ipt = ie["callee"].get("params", [])
                if not ia:
                    lockv = LockVal(None, mode, UNOWNED)
                    continue
                i0 = pidx.get(path(h, ia[0]))
                if i0 is None or i0 >= len(args):
                    return None
                if len(ia) == 1 and lock_class(ipt[0] if ipt else ""):
                    lockv = self._lock_value(g, la, args[i0], g.pos_of(e) or pos)
                    if lockv is None:
                        return None
                    continue
                mp = path(g, args[i0])
                tag = strip_cvref(ipt[1]) if len(ipt) > 1 else ""
                if len(ia) == 1:
                    lockv, kind = LockVal(mp, mode, HELD), True
                elif tag == "std::defer_lock_t":
                    lockv = LockVal(mp, mode, UNOWNED)
                elif tag == "std::adopt_lock_t":
                    lockv, kind = LockVal(mp, mode, HELD), "adopt"
                elif tag == "std::try_to_lock_t":
                    lockv, kind = LockVal(mp, mode, MAYBE), "try"
                elif "std::chrono::" in tag:
                    lockv, kind = LockVal(mp, mode, MAYBE), "timed"
                else:
                    return None
            elif ft.rstrip().endswith("*") or fld == "data":
                j = pidx.get(path(h, ie))
                if j is not None and j < len(args):
                    data = self._data_path(g, args[j])
        if lockv is None:
            return None
        return lockv, kind, data

    def _data_path(self, g, e):
        e2 = unwrap(g, e)
        if e2 is not None and e2["k"] == "CXXNullPtrLiteralExpr":
            return None
        p = path(g, e)
        return p if p is not None else "?"

    def _lock_value(self, g, la, e, pos):
        """LockVal of a lock-object expression at pos"""
        e = unwrap(g, e)
        if e is None:
            return None
        if e["k"] in CALLS and callee_fq(e) in PASS_THROUGH_FUNCS:
            return self._lock_value(g, la, g.s(e["args"][0]), pos)
        if e["k"] in CALLS and lock_class(e.get("t", "")) and (e.get("callee") or {}).get("inrepo"):
            # a lock object that comes out of a factory of the library (shared_locker<M>::generate_lock(m))
            s_ = self.handle_summary_of_call(g, e)
            if s_ and len(s_) == 1 and s_[0].get("mutex"):
                return LockVal(s_[0]["mutex"], s_[0].get("mode") or "X", s_[0]["st"])
            return None
        if e["k"] in CTORS:
            args = [g.s(x) for x in e["args"]]
            ptypes = e["callee"].get("params", [])
            lc = lock_class(e.get("t", ""))
            mode = "S" if lc == "shared_lock" else "X"
            if not args:
                return LockVal(None, mode, UNOWNED)
            if len(args) == 1 and lock_class(ptypes[0]):
                # move construction: the source's state just before the move
                return self._lock_value(g, la, args[0], g.elempos().get(e["id"], pos))
            if len(args) == 1:
                return LockVal(path(g, args[0]), mode, HELD)
            tag = strip_cvref(ptypes[1])
            if tag == "std::defer_lock_t":
                return LockVal(path(g, args[0]), mode, UNOWNED)
            if tag == "std::adopt_lock_t":
                return LockVal(path(g, args[0]), mode, HELD)
            return LockVal(path(g, args[0]), mode, MAYBE)
        if e["k"] == "InitListExpr" and not g.children(e):
            lc = lock_class(e.get("t", ""))
            return LockVal(None, "S" if lc == "shared_lock" else "X", UNOWNED)
        p = path(g, e)
        if p is None or pos is None:
            return None
        return la.state_at(pos).get(p)

    def handle_summary_of_call(self, f, call):
        """summary of a call, translated into the caller's paths"""
        g = self.fb.callee_fn(f, call)
        if g is None or g.invalid:
            return None
        s = self.handle_summary(g)
        if s is None:
            return None
        mapping = {}
        if call["k"] == "CXXMemberCallExpr":
            mapping["this"] = path(f, f.s(call["obj"]))
        args = [f.s(a) for a in call["args"]]
        if call["k"] == "CXXOperatorCallExpr" and g.kind in ("op", "method") and g.rec:
            mapping["this"] = path(f, args[0]) if args else None
            args = args[1:]
        for pd, a in zip(g.params, args):
            ap = path(f, a)
            au = unwrap(f, a)
            if ap is None and au is not None and au["k"] == "CXXNullPtrLiteralExpr":
                ap = None
            mapping["p:" + pd["name"]] = ap
        out = []
        for a in s:
            d = dict(a)
            d["mutex"] = subst(a["mutex"], mapping) if a["mutex"] else None
            if a["data"] not in (None, "?"):
                d["data"] = subst(a["data"], mapping) or "?"
            if a.get("cond"):
                cp, pol = a["cond"]
                d["cond"] = (subst(cp, mapping), pol)
            out.append(d)
        return out

    # ------------------------------------------------------ field accesses
    def classify_access(self, f, st):
        """how is the lvalue denoted by MemberExpr/DeclRefExpr `st` used:
        'read' | 'write' | 'addr-const' | 'addr' | 'call-const' | 'call' |
        'bind-const' | 'bind' | 'sub' (member of member: recurse in caller)
        returns (kind, user stmt)"""
        cur = st
        while True:
            par = f.par(cur)
            if par is None:
                return ("read", None)
            k = par["k"]
            if k == "ParenExpr":
                cur = par
                continue
            if k == "ImplicitCastExpr":
                ck = par.get("ck")
                if ck == "LValueToRValue":
                    return ("read", par)
                if ck in ("NoOp", "DerivedToBase", "UncheckedDerivedToBase"):
                    if par.get("t", "").startswith("const "):
                        # binding to const: keep climbing but remember constness
                        nxt = self._climb_const(f, par)
                        return nxt
                    cur = par
                    continue
                if ck in ("ArrayToPointerDecay",):
                    return ("addr", par)
                if ck in ("UserDefinedConversion", "ConstructorConversion"):
                    cur = par
                    continue
                return ("read", par)
            if k == "MemberExpr":
                if par.get("base") == cur["id"] or cur["id"] in par.get("ch", []):
                    if par["m"].get("is_field"):
                        return ("sub", par)
                    # bound member function: the call decides
                    call = f.par(par)
                    while call is not None and call["k"] in ("ParenExpr", "ImplicitCastExpr"):
                        call = f.par(call)
                    if call is not None and call["k"] == "CXXMemberCallExpr":
                        c = call.get("callee") or {}
                        return ("call-const" if c.get("constm") else "call", call)
                    return ("call", par)
            if k == "CXXMemberCallExpr":
                if par.get("obj") == cur["id"] or self._is_obj(f, par, cur):
                    c = par["callee"]
                    return ("call-const" if c.get("constm") else "call", par)
                return self._arg_use(f, par, cur)
            if k == "UnaryOperator":
                op = par["op"]
                if op == "&":
                    t = par.get("t", "")
                    # look for an implicit conversion to pointer-to-const above
                    up = f.par(par)
                    while up is not None and up["k"] in ("ImplicitCastExpr", "ParenExpr"):
                        if is_pointer_to_const(up.get("t", "")):
                            return ("addr-const", par)
                        up = f.par(up)
                    if is_pointer_to_const(t):
                        return ("addr-const", par)
                    return ("addr", par)
                if op in ("++", "--"):
                    return ("write", par)
                if op == "*":
                    cur = par
                    continue
                return ("read", par)
            if k in ("BinaryOperator", "CompoundAssignOperator"):
                ch = par.get("ch", [])
                if ch and ch[0] == cur["id"] and (par["op"] == "=" or k == "CompoundAssignOperator"):
                    return ("write", par)
                return ("read", par)
            if k == "CXXOperatorCallExpr":
                args = par["args"]
                c = par.get("callee") or {}
                if args and args[0] == cur["id"] and c.get("kind") in ("op", "method") and c.get("rec"):
                    return ("call-const" if c.get("constm") else "call", par)
                return self._arg_use(f, par, cur)
            if k == "CallExpr" and callee_fq(par) == "std::addressof" and par.get("args") and par["args"][0] == cur["id"]:
                # std::addressof(x) is `&x` (for types that overload operator&): the address is what is used
                t = par.get("t", "")
                up = f.par(par)
                while up is not None and up["k"] in ("ImplicitCastExpr", "ParenExpr"):
                    if is_pointer_to_const(up.get("t", "")):
                        return ("addr-const", par)
                    up = f.par(up)
                return ("addr-const" if is_pointer_to_const(t) else "addr", par)
            if k in ("CallExpr",) + CTORS:
                return self._arg_use(f, par, cur)
            if k in ("MaterializeTemporaryExpr", "CXXBindTemporaryExpr", "ExprWithCleanups",
                     "CXXFunctionalCastExpr", "CXXStaticCastExpr"):
                cur = par
                continue
            if k == "ReturnStmt":
                return ("bind-const" if f.ret.startswith("const ") else
                        ("bind" if f.ret.endswith("&") else "read"), par)
            if k == "DeclStmt":
                for d in par["decls"]:
                    if d.get("init") == cur["id"] and d.get("ref"):
                        return ("bind-const" if d["type"].startswith("const ") else "bind", par)
                return ("read", par)
            if k == "LambdaExpr":
                return ("capture", par)
            return ("read", par)

    def _is_obj(self, f, call, cur):
        o = f.s(call.get("obj"))
        while o is not None and o["k"] in WRAPPERS:
            if o["id"] == cur["id"]:
                return True
            ch = f.children(o)
            o = ch[0] if ch else None
        return o is not None and o["id"] == cur["id"]

    def _climb_const(self, f, castst):
        par = f.par(castst)
        if par is not None and par["k"] == "CXXMemberCallExpr" and self._is_obj(f, par, castst):
            return ("call-const", par)
        if par is not None and par["k"] == "CXXOperatorCallExpr" and par["args"] and \
                par["args"][0] == castst["id"]:
            c = par.get("callee") or {}
            if c.get("rec"):
                return ("call-const", par)
        if par is not None and par["k"] == "MemberExpr":
            return ("sub-const", par)
        return ("bind-const", par)

    def _arg_use(self, f, call, cur):
        c = call.get("callee") or {}
        args = call.get("args", [])
        ptypes = c.get("params", [])
        idx = None
        for i, a in enumerate(args):
            if a == cur["id"]:
                idx = i
        if idx is None:
            return ("read", call)
        if call["k"] == "CXXOperatorCallExpr" and c.get("rec") and c.get("kind") in ("op", "method"):
            idx -= 1
        if c.get("fq") in PASS_THROUGH_FUNCS:
            # std::move / forward: the use is the parent's
            r = self.classify_access(f, call)
            return r
        if 0 <= idx < len(ptypes):
            pt = ptypes[idx]
            if pt.endswith("&"):
                return ("bind-const" if pt.startswith("const ") else "bind", call)
            return ("read", call)
        return ("bind", call)


def describe_cond_arm(f, st, cond_path):
    """if `st` lies in one arm of an if / ?: whose condition is (a negation
    of) `cond_path`, return True/False for the value the condition has in that
    arm, else None"""
    cur = st
    for a in f.ancestors(st):
        if a["k"] in ("ConditionalOperator", "IfStmt"):
            c = unwrap(f, f.s(a["cond"]))
            neg = False
            while c is not None and c["k"] == "UnaryOperator" and c["op"] == "!":
                neg = not neg
                c = unwrap(f, f.children(c)[0])
            if c is not None and path(f, c) == cond_path:
                if _contains(f, f.s(a.get("then")), st):
                    return not neg
                if _contains(f, f.s(a.get("else")), st):
                    return neg
        cur = a
    # flow form: `if (cond) return ...;` followed by the other case - the branch fact that reaches st decides
    from .typestate import NonNull
    nn = getattr(f, "_nn_cache", None)
    if nn is None:
        nn = NonNull(f)
        f._nn_cache = nn
    pos = f.pos_of(st)
    if pos is not None:
        facts = nn.before.get(tuple(pos), set())
        if ("nn", cond_path) in facts:
            return True
        if ("null", cond_path) in facts:
            return False
    return None


def _contains(f, root, st):
    if root is None:
        return False
    if root["id"] == st["id"]:
        return True
    for a in f.ancestors(st):
        if a["id"] == root["id"]:
            return True
    return False


# ------------------------------------------------------------------ atomics
MO_NAMES = {0: "relaxed", 1: "consume", 2: "acquire", 3: "release", 4: "acq_rel", 5: "seq_cst"}
_RMW = ("exchange", "fetch_add", "fetch_sub", "fetch_and", "fetch_or", "fetch_xor",
        "test_and_set", "operator++", "operator--", "operator+=", "operator-=", "operator&=",
        "operator|=", "operator^=")


def _atomic_obj_type(t):
    t = strip_cvref(t)
    if t.endswith("*"):
        t = strip_cvref(t[:-1].strip())
    if t.endswith(" const"):
        t = t[:-6]
    return t


def atomic_ops(f):
    """every operation on a std::atomic object in f:
    dicts {st, obj (path), op: load|store|rmw|cas, name, order, fail_order, value (stmt)}"""
    out = []
    for st in f.stmts.values():
        k = st["k"]
        obj = None
        name = None
        args = []
        if k == "CXXMemberCallExpr":
            obj = f.s(st["obj"])
            name = (st.get("callee") or {}).get("name")
            args = [f.s(a) for a in st["args"]]
            if (st.get("callee") or {}).get("kind") == "conv":
                name = "operator T"
        elif k == "CXXOperatorCallExpr" and st["args"]:
            obj = f.s(st["args"][0])
            name = "operator" + (st.get("op") or "")
            args = [f.s(a) for a in st["args"][1:]]
        else:
            continue
        if obj is None or not is_atomic_type(_atomic_obj_type(obj.get("t", ""))):
            continue
        c = st.get("callee") or {}
        if not (c.get("rec", "").startswith("std::atomic") or c.get("rec", "").startswith("std::__atomic")):
            continue
        mos = st.get("mo", [])
        op = None
        order = 5
        fail = None
        value = None
        if name == "load" or name == "operator T":
            op = "load"
            order = mos[0] if mos else 5
        elif name == "store" or name == "operator=":
            op = "store"
            order = mos[0] if mos else 5
            value = args[0] if args else None
        elif name in ("compare_exchange_weak", "compare_exchange_strong"):
            op = "cas"
            order = mos[0] if mos else 5
            fail = mos[1] if len(mos) > 1 else None
            value = args[1] if len(args) > 1 else None
        elif name in _RMW:
            op = "rmw"
            order = mos[0] if mos else 5
            value = args[0] if args else None
        elif name in ("is_lock_free", "wait", "notify_one", "notify_all"):
            continue
        else:
            op = "other"
        p = path(f, obj)
        out.append(dict(st=st, obj=p, op=op, name=name, order=order, fail_order=fail, value=value,
                        objtype=_atomic_obj_type(obj.get("t", ""))))
    return out


def mo_at_least(order, floor):
    """order >= floor in the lattice relaxed < {acquire, release} < acq_rel < seq_cst (consume ~ acquire)"""
    if order == 1:
        order = 2
    if floor == "relaxed":
        return True
    if floor == "acquire":
        return order in (2, 4, 5)
    if floor == "release":
        return order in (3, 4, 5)
    if floor == "acq_rel":
        return order in (4, 5)
    if floor == "seq_cst":
        return order == 5
    raise ValueError(floor)


def atomic_field_of(f, op):
    """(owner class template, field name) of the atomic object of an atomic op, or None"""
    st = op["st"]
    if st["k"] == "CXXMemberCallExpr":
        o = f.s(st["obj"])
    else:
        o = f.s(st["args"][0])
    o = unwrap(f, o)
    # *ptr / ptr-> forms
    while o is not None and o["k"] == "UnaryOperator" and o["op"] in ("*", "&"):
        o = unwrap(f, f.children(o)[0])
    if o is not None and o["k"] == "MemberExpr" and o["m"].get("is_field"):
        return (o["m"].get("rec"), o["m"]["name"])
    if o is not None and o["k"] == "BinaryOperator" and o.get("op") in ("->*", ".*"):
        pf = ptm_field(f, o)
        if pf is not None:
            return (_tmpl_of_type(pf[0].get("t", "")), pf[2])
    if o is not None and o["k"] == "DeclRefExpr" and o["d"].get("k") == "local" and o["d"].get("ref"):
        # a local reference bound directly to an atomic member
        tgt = unwrap(f, _ref_target(f, o["d"]["id"]))
        if tgt is not None and tgt["k"] == "MemberExpr" and tgt["m"].get("is_field"):
            return (tgt["m"].get("rec"), tgt["m"]["name"])
    return None


def atomic_fields_may(f, op):
    """all members an atomic operation may act on: the direct member, or - through a local reference initialised
    with a conditional expression - either arm"""
    fld = atomic_field_of(f, op)
    if fld:
        return [fld]
    st = op["st"]
    o = f.s(st["obj"]) if st["k"] == "CXXMemberCallExpr" else f.s(st["args"][0])
    o = unwrap(f, o)
    out = []
    if o is not None and o["k"] == "DeclRefExpr" and o["d"].get("k") == "local" and o["d"].get("ref"):
        for s_ in f.stmts.values():
            if s_["k"] == "DeclStmt":
                for d in s_["decls"]:
                    if d["id"] == o["d"]["id"] and d.get("init"):
                        work = [unwrap(f, f.s(d["init"]))]
                        while work:
                            e = work.pop()
                            if e is None:
                                continue
                            if e["k"] == "ConditionalOperator":
                                work += [unwrap(f, f.s(e["then"])), unwrap(f, f.s(e["else"]))]
                            elif e["k"] == "MemberExpr" and e["m"].get("is_field"):
                                out.append((e["m"].get("rec"), e["m"]["name"]))
    return out


def atomic_param_of(f, op):
    """name of the reference parameter an atomic operation goes through (helpers taking std::atomic<T>&), or None"""
    st = op["st"]
    o = f.s(st["obj"]) if st["k"] == "CXXMemberCallExpr" else f.s(st["args"][0])
    o = unwrap(f, o)
    if o is not None and o["k"] == "DeclRefExpr" and o["d"].get("k") == "param":
        return o["d"]["name"]
    return None
