"""Generated driver for members the hand-written driver (drivers/inst.cpp) does not instantiate.

A member template added to the library after the driver was written has no instantiation, hence no facts, and the
coverage audit would have to answer 'cannot decide'.  For such members a supplementary translation unit is generated
at run time (in the cache directory, never in /repo or /verif): it includes the driver for its types (VERIF_AUTO
switches the driver's own instantiations off) and calls the uncovered member with candidate argument lists through a
SFINAE wrapper, so that only the argument lists the member accepts are instantiated.  Candidates are chosen from the
written parameter types (functor-like template parameters get the driver's functors and generic lambdas, durations and
time points get chrono values, payload-like parameters get lvalue / rvalue payloads, ...).  An instantiation whose
body does not compile for one candidate is reported by the diagnostics pass like any other lost instantiation.

Nothing here decides a property: it only widens what the rules get to see.  A member that stays uncovered is still
reported by the audit."""
import itertools
import os
import re

# class template (qualified name without arguments) -> (declarations that create an object `o`, is it a template over M)
OBJECTS = {
    "gmlc::libguarded::guarded": ("guarded<P, M> o(p);", True),
    "gmlc::libguarded::guarded_opt": ("guarded_opt<P, M> o(true, p);", True),
    "gmlc::libguarded::shared_guarded": ("shared_guarded<P, M> o(p);", True),
    "gmlc::libguarded::shared_guarded_opt": ("shared_guarded_opt<P, M> o(true, p);", True),
    "gmlc::libguarded::ordered_guarded": ("ordered_guarded<P, M> o(p);", True),
    "gmlc::libguarded::deferred_guarded": ("deferred_guarded<P, M> o(p);", True),
    "gmlc::libguarded::atomic_guarded": ("atomic_guarded<P, M> o(p);", True),
    "gmlc::libguarded::cow_guarded": ("cow_guarded<P, M> o(p);", True),
    "gmlc::libguarded::lr_guarded": ("lr_guarded<P, M> o(p);", True),
    "gmlc::libguarded::lock_handle": ("guarded<P, M> own(p); auto o = own.lock();", True),
    "gmlc::libguarded::shared_lock_handle": ("shared_guarded<P, M> own(p); auto o = own.lock_shared();", True),
    "gmlc::libguarded::cow_guarded::handle": ("cow_guarded<P, M> own(p); auto o = own.lock();", True),
    "gmlc::libguarded::rcu_list": ("rcu_list<RcuT, M, std::allocator<RcuT>> o;", True),
    "gmlc::libguarded::rcu_guarded": ("rcu_guarded<rcu_list<RcuT, M, std::allocator<RcuT>>> o;", True),
    "gmlc::libguarded::rcu_guarded::write_handle": ("rcu_guarded<rcu_list<RcuT, M, std::allocator<RcuT>>> own; auto o = own.lock_write();", True),
    "gmlc::libguarded::rcu_guarded::read_handle": ("rcu_guarded<rcu_list<RcuT, M, std::allocator<RcuT>>> own; auto o = own.lock_read();", True),
    "gmlc::concurrency::Barrier": ("Barrier o(2);", False),
    "gmlc::concurrency::Latch": ("Latch o(2);", False),
    "gmlc::concurrency::TriggerVariable": ("TriggerVariable o;", False),
    "gmlc::concurrency::TripWireDetector": ("TripWireDetector o;", False),
    "gmlc::concurrency::TripWireTrigger": ("TripWireTrigger o;", False),
    "gmlc::concurrency::DelayedDestructor": ("DelayedDestructor<CX> o;", False),
    "gmlc::concurrency::DelayedDestructorSingleThread": ("DelayedDestructorSingleThread<CX> o;", False),
    "gmlc::concurrency::DelayedObjects": ("DelayedObjects<CX> o;", False),
    "gmlc::concurrency::SearchableObjectHolder": ("SearchableObjectHolder<CX, int> o;", False),
}

FUNCTORS = ["VoidMod{}", "ValMod{}", "VoidRead{}", "ValRead{}", "GenericMod{}", "BoolMod{}", "BoolRead{}", "RetP{}",
            "A0{}", "A0b{}", "GV", "GB"]
PAYLOADS = ["p", "P(p)", "q", "cx", "CX(cx)"]
TIMES = ["ms(1)", "tp{}", "std::chrono::system_clock::time_point{}"]
MISC = ["1", "1U", "true", "key", "std::string(\"k\")", "sp"]


def candidates(written):
    """argument expressions worth trying for a parameter with this written type"""
    t = written.strip()
    if t.endswith("..."):
        return None         # a pack: handled by the caller (0, 1 or 2 trailing arguments)
    core = re.sub(r"\b(const|volatile)\b", "", t).replace("&", "").strip()
    if "std::function<" in core:
        return FUNCTORS
    if "std::chrono::" in core:
        return TIMES
    if core in ("int", "unsigned int", "unsigned", "long", "unsigned long", "size_t", "std::size_t", "short", "long long"):
        return ["1", "1U"]
    if core == "bool":
        return ["true"]
    if core in ("std::string", "std::basic_string<char>", "string"):
        return ["key", "std::string(\"k\")"]
    if "shared_ptr<" in core:
        return ["sp", "std::shared_ptr<CX>(sp)"]
    if re.match(r"^[A-Za-z_]\w*$", core):
        low = core.lower()
        if re.match(r"^(f|fn|func\w*|funct\w*|pred\w*|call\w*|visit\w*|op|oper\w*|action|handler|cb|callback\w*|search|locate)$", low):
            return FUNCTORS
        if low.startswith(("dur", "rep", "period")):
            return ["ms(1)"]
        if low.startswith(("timep", "tp", "clock", "deadline")):
            return TIMES[1:]
        if core in ("T", "X", "objType", "value_type"):
            return PAYLOADS
        return FUNCTORS + TIMES + PAYLOADS + MISC
    return PAYLOADS + MISC + FUNCTORS[:3]


def argument_lists(params, cap=48):
    fixed = [p for p in params if not p.strip().endswith("...")]
    packs = [p for p in params if p.strip().endswith("...")]
    per = [candidates(p) for p in fixed]
    combos = list(itertools.islice(itertools.product(*per), 0, 4000)) if per else [()]
    if len(combos) > cap:
        step = len(combos) / float(cap)
        combos = [combos[int(i * step)] for i in range(cap)]
    out = []
    for c in combos:
        if packs:
            for tail in ((), ("p",), ("1",), ("1", "1"), ("key", "p")):
                out.append(tuple(c) + tail)
        else:
            out.append(tuple(c))
    return out[:cap * 3]


OPS = {"operator==": "==", "operator!=": "!=", "operator<": "<", "operator<=": "<=", "operator>": ">", "operator>=": ">="}


def _template_like(p):
    return any(re.match(r"^(const )?[A-Z]\w*( ?&&?| ?\.\.\.)?( ?\.\.\.)?$", x.strip()) and
               x.strip().split()[0].rstrip("&.") not in ("T", "M", "X", "Y") for x in p.get("params", []))


def synthesize(missing, verif, outdir, all_patterns=()):
    """missing: pattern records (dict with rec, name, params, constm).  Returns the path of the generated source, or
    None when nothing can be generated for them."""
    groups = {}
    sweep = False
    free = sorted({p["name"] for p in missing if not (p.get("rec") or "") and re.match(r"^[A-Za-z_]\w*$", p["name"])})
    for p in missing:
        rec = p.get("rec") or ""
        if rec not in OBJECTS:
            # a free function template (or a member of a helper class): it is reached through the public member
            # templates of the classes, instantiated for every mutex type
            sweep = True
            continue
        if p.get("access", "public") != "public":
            sweep = True
            continue
        if p["name"].startswith("~") or p["name"] == rec.split("::")[-1]:
            continue
        if p["name"].startswith("operator") and p["name"] not in OPS:
            continue
        groups.setdefault(rec, []).append(p)
    if sweep:
        seen = {(p.get("rec"), p["name"], tuple(p.get("params", []))) for ps in groups.values() for p in ps}
        for p in all_patterns:
            rec = p.get("rec") or ""
            if rec in OBJECTS and p.get("access") == "public" and not p.get("lambda") and not p["name"].startswith(("operator", "~")) \
                    and p["name"] != rec.split("::")[-1] and _template_like(p):
                k = (rec, p["name"], tuple(p.get("params", [])))
                if k not in seen:
                    seen.add(k)
                    groups.setdefault(rec, []).append(p)
    if free:
        for rec in OBJECTS:
            groups.setdefault(rec, [])
    if not groups:
        return None
    names = sorted({p["name"] for ps in groups.values() for p in ps if not p["name"].startswith("operator")})
    L = []
    L.append("// generated by rules/autodrive.py - calls of library members the hand-written driver does not reach")
    L.append("#define VERIF_AUTO 1")
    L.append('#include "%s"' % os.path.join(verif, "drivers", "inst.cpp"))
    L.append("#include <memory>\n#include <utility>")
    L.append("namespace vauto {")
    L.append("using namespace vdrv;")
    L.append("struct BoolMod { bool operator()(P& p) const; };")
    L.append("struct BoolRead { bool operator()(const P& p) const; };")
    L.append("struct RetP { P operator()(const P& p) const; };")
    L.append("struct A0 { void operator()() const; };")
    L.append("struct A0b { bool operator()() const; };")
    L.append("static const auto GV = [](auto&&...) {};")
    L.append("static const auto GB = [](auto&&...) { return true; };")
    for n in names:
        L.append("struct try_%s {" % n)
        L.append("    template<class O, class... A> static auto call(int, O& o, A&&... a) -> decltype((void)o.%s(std::forward<A>(a)...))"
                 " { (void)o.%s(std::forward<A>(a)...); }" % (n, n))
        L.append("    template<class O, class... A> static void call(long, O&, A&&...) {}")
        L.append("};")
    L.append("using namespace gmlc::libguarded;\nusing namespace gmlc::concurrency;")
    for n in free:
        L.append("struct try_free_%s {" % n)
        L.append("    template<class... A> static auto call(int, A&&... a) -> decltype((void)%s(std::forward<A>(a)...))"
                 " { (void)%s(std::forward<A>(a)...); }" % (n, n))
        L.append("    template<class... A> static void call(long, A&&...) {}")
        L.append("};")
    for nm, op in sorted(OPS.items()):
        tag = "op_" + re.sub(r"\W", lambda m: "%02x" % ord(m.group(0)), op)
        L.append("struct try_%s {" % tag)
        L.append("    template<class O, class A> static auto call(int, O& o, A&& a) -> decltype((void)(o %s std::forward<A>(a)))"
                 " { (void)(o %s std::forward<A>(a)); }" % (op, op))
        L.append("    template<class O, class A> static void call(long, O&, A&&) {}")
        L.append("};")
    fi = 0
    insts = []
    for rec, ps in sorted(groups.items()):
        decl, templ = OBJECTS[rec]
        fi += 1
        L.append(("template<class M>\n" if templ else "template<class Never>\n") + "void auto_use_%d()\n{" % fi)
        L.append("    P p{}; P q(p); CX cx{}; const std::string key(\"k\"); std::shared_ptr<CX> sp; (void)q; (void)cx; (void)sp;")
        L.append("    " + decl)
        L.append("    const auto& co = o; (void)co;")
        for n in free:
            L.append("    { auto& o2 = o; try_free_%s::call(0, o, o2); try_free_%s::call(0, o); try_free_%s::call(0, o, p); }" % (n, n, n))
        for p in ps:
            if p["name"] in OPS:
                tag = "op_" + re.sub(r"\W", lambda m: "%02x" % ord(m.group(0)), OPS[p["name"]])
                for a in PAYLOADS + ["1"]:
                    L.append("    try_%s::call(0, %s, %s);" % (tag, "co" if p.get("constm") else "o", a))
                continue
            for args in argument_lists(p.get("params", [])):
                a = ", ".join(args)
                L.append("    try_%s::call(0, %s%s%s);" % (p["name"], "co" if p.get("constm") else "o", ", " if a else "", a))
        L.append("}")
        if templ:
            for m in ("std::mutex", "std::timed_mutex", "std::shared_mutex", "std::shared_timed_mutex"):
                insts.append("template void auto_use_%d<%s>();" % (fi, m))
        else:
            insts.append("template void auto_use_%d<int>();" % fi)
    L += insts
    L.append("}  // namespace vauto")
    os.makedirs(outdir, exist_ok=True)
    path = os.path.join(outdir, "auto_inst.cpp")
    src = "\n".join(L) + "\n"
    if not os.path.exists(path) or open(path).read() != src:
        with open(path, "w") as fh:
            fh.write(src)
    return path
