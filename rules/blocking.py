"""blocking primitives and loop classification (C14, C08, C16)."""
import json
import os
import re

from .engine import CALLS, CTORS, atomic_ops, atomic_field_of, callee_fq, path, unwrap
from .guards import locks_of
from .typestate import assigned_paths, root_var

VERIF = os.path.dirname(os.path.dirname(os.path.abspath(__file__)))
_TAB = None


def table():
    global _TAB
    if _TAB is None:
        _TAB = json.load(open(os.path.join(VERIF, "tables", "blocking.json")))
    return _TAB


def blocking_sites(eng, fb, f):
    """list of (stmt, description) of blocking primitives executed by f itself"""
    out = []
    la = locks_of(eng, fb, f)
    for pos, key, v, kind, st in la.acquire_events:
        if kind is True:
            if v.mutex and v.mutex.startswith("p:") and f.kind == "ctor":
                continue
            out.append((st, "blocking acquisition of %s" % v.mutex))
        elif kind == "timed":
            out.append((st, "timed acquisition of %s" % v.mutex))
    for st in f.stmts.values():
        if st["k"] in CALLS:
            c = st.get("callee")
            if not c:
                continue
            q = c.get("qname") or c.get("fq") or ""
            for b in table()["blocking_calls"]:
                if b.get("param") and not any(b["param"] in pt for pt in c.get("params", [])):
                    continue
                if re.search(b["fq"], q) or re.search(b["fq"], c.get("fq", "")):
                    if b["what"] in ("lock object lock()", "timed lock"):
                        break     # already reported through the lock analysis
                    out.append((st, b["what"] + " (" + c.get("fq", q) + ")"))
                    break
    return out


def _body_sources(f, var, body):
    """right-hand sides of every (re)definition of local `var` inside the loop body, or None when one of them is
    not a plain assignment / initialisation"""
    out = []
    for b in body:
        for e in f.blocks[b].elems:
            if e["k"] != "S":
                continue
            st = f.stmts[e["s"]]
            if var not in assigned_paths(f, st):
                continue
            if st["k"] == "BinaryOperator" and st["op"] == "=":
                out.append(f.children(st)[1])
            elif st["k"] == "DeclStmt":
                for d in st["decls"]:
                    if "l:" + d["name"] == var:
                        if not d.get("init"):
                            return None
                        out.append(f.s(d["init"]))
            else:
                return None
    return out


def classify_loops(f):
    """every natural loop of f: (header, kind, detail) with kind in
       'cas-retry'  an exit edge is decided by the result of a compare_exchange
       'traversal'  the exit condition tests a local/member cursor that the body itself advances,
                    or a range-for / iterator comparison
       'bounded'    the exit condition tests a local counter the body changes
       'spin-wait'  the exit condition reads shared atomic state that the body does not change"""
    res = []
    aops = {op["st"]["id"]: op for op in atomic_ops(f)}
    for h, body in f.loops():
        conds = []
        for b in body:
            blk = f.blocks[b]
            if blk.term and blk.term.get("cond") and any(s is not None and s not in body for s in blk.succs):
                conds.append(f.s(blk.term["cond"]))
        if not conds:
            res.append((h, "infinite", "no exit edge"))
            continue
        assigned = set()
        for b in body:
            for e in f.blocks[b].elems:
                if e["k"] == "S":
                    for ap in assigned_paths(f, f.stmts[e["s"]]):
                        assigned.add(ap)
        kinds = []
        for cond in conds:
            k = None
            detail = ""
            descs = list(f.descendants(cond))
            if any(d["id"] in aops and aops[d["id"]]["op"] == "cas" for d in descs):
                k = "cas-retry"
            else:
                vars_ = set()
                atoms = []
                for d in descs:
                    if d["k"] == "DeclRefExpr" and d["d"].get("k") in ("local", "param"):
                        vars_.add(path(f, d))
                    if d["id"] in aops and aops[d["id"]]["op"] == "load":
                        atoms.append(aops[d["id"]])
                adv = [v for v in vars_ if v in assigned]
                # a local that the body only ever refreshes from atomic loads stands for those atomics:
                # `bool more = a.load() != 0; while (more) { yield(); more = a.load() != 0; }`
                for v in list(adv):
                    srcs = _body_sources(f, v, body)
                    if not srcs:
                        continue
                    got = []
                    for src in srcs:
                        ls = [aops[d["id"]] for d in f.descendants(src) if d["id"] in aops and aops[d["id"]]["op"] == "load"]
                        others = [d for d in f.descendants(src) if d["k"] == "DeclRefExpr" and
                                  d["d"].get("k") in ("local", "param") and path(f, d) in assigned and
                                  not any(path(f, d) == l_["obj"] for l_ in ls)]
                        if not ls or others:
                            got = None
                            break
                        got += ls
                    if got:
                        atoms += got
                        adv.remove(v)
                if atoms and not any(root_var(a["obj"]) in assigned for a in atoms if a["obj"]):
                    k = "spin-wait"
                    from .engine import atomic_fields_may
                    names = set()
                    for a in atoms:
                        fl = atomic_fields_may(f, a)
                        names |= {x[1] for x in fl} if fl else {a["obj"] or "?"}
                    detail = "waits for %s to change" % ", ".join(sorted(names))
                elif adv:
                    k = "traversal"
                    detail = "advances " + ", ".join(sorted(adv))
                elif vars_ or atoms:
                    # condition on locals not assigned in the body, or on members
                    fields = [d for d in descs if d["k"] == "MemberExpr" and d["m"].get("is_field")]
                    fpaths = {path(f, d) for d in fields}
                    if any(p in assigned for p in fpaths if p):
                        k = "traversal"
                        detail = "advances " + ", ".join(sorted(p for p in fpaths if p))
                    else:
                        k = "spin-wait" if atoms else "unknown"
                        detail = "condition does not depend on anything the body changes"
                else:
                    fields = [d for d in descs if d["k"] == "MemberExpr" and d["m"].get("is_field")]
                    fpaths = {path(f, d) for d in fields}
                    if any(p in assigned for p in fpaths if p):
                        k = "traversal"
                    else:
                        k = "unknown"
            kinds.append((k, detail))
        order = ["spin-wait", "unknown", "infinite", "cas-retry", "traversal", "bounded"]
        kinds.sort(key=lambda x: order.index(x[0]) if x[0] in order else 0)
        res.append((h, kinds[0][0], kinds[0][1]))
    return res
