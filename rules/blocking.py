"""blocking primitives and loop classification (C14, C08, C16)."""
import json
import os
import re

from .engine import CALLS, CTORS, atomic_ops, atomic_field_of, callee_fq, path, unwrap
from .guards import locks_of
from .typestate import assigned_paths, root_var

VERIF = os.path.dirname(os.path.dirname(os.path.abspath(__file__)))
_TAB = None


def table():
    global _TAB
    if _TAB is None:
        _TAB = json.load(open(os.path.join(VERIF, "tables", "blocking.json")))
    return _TAB


def blocking_sites(eng, fb, f):
    """list of (stmt, description) of blocking primitives executed by f itself"""
    out = []
    la = locks_of(eng, fb, f)
    for pos, key, v, kind, st in la.acquire_events:
        if kind is True:
            if v.mutex and v.mutex.startswith("p:") and f.kind == "ctor":
                continue
            out.append((st, "blocking acquisition of %s" % v.mutex))
        elif kind == "timed":
            out.append((st, "timed acquisition of %s" % v.mutex))
    for st in f.stmts.values():
        if st["k"] in CALLS:
            c = st.get("callee")
            if not c:
                continue
            q = c.get("qname") or c.get("fq") or ""
            for b in table()["blocking_calls"]:
                if b.get("param") and not any(b["param"] in pt for pt in c.get("params", [])):
                    continue
                if re.search(b["fq"], q) or re.search(b["fq"], c.get("fq", "")):
                    if b["what"] in ("lock object lock()", "timed lock"):
                        break     # already reported through the lock analysis
                    out.append((st, b["what"] + " (" + c.get("fq", q) + ")"))
                    break
    return out


def never_empty_result(fb, g, depth=0):
    """every return of g hands out a pointer-like object built around the address of an object / a fresh allocation,
    or the result of a function for which the same holds"""
    if g is None or g.invalid or depth > 4:
        return False
    rets = [s for s in g.stmts.values() if s["k"] == "ReturnStmt"]
    if not rets:
        return False
    for r in rets:
        ch = g.children(r)
        e = unwrap(g, ch[0]) if ch else None
        while e is not None and e["k"] in CTORS and len(e["args"]) == 1:
            e = unwrap(g, g.s(e["args"][0]))
        if e is None:
            return False
        if e["k"] in CTORS and e["args"]:
            a0 = unwrap(g, g.s(e["args"][0]))
            if a0 is not None and (a0["k"] == "CXXNewExpr" or a0["k"] == "UnaryOperator" and a0.get("op") == "&"):
                continue
            return False
        if e["k"] in CALLS and never_empty_result(fb, fb.callee_fn(g, e), depth + 1):
            continue
        return False
    return True


def wait_on_value_only(eng, fb, f, st):
    """`st` is a yield/sleep inside a retry loop whose only exit test is the emptiness of a local that is (re)filled from
    an in-repo call r(...) and every acquisition r itself makes always succeeds (handle summary: owned on every path, no
    try/timed lock object, no atomic it branches on).  Then r comes back empty only if a STORED value is empty, which is a
    value invariant these rules do not decide: returns the text of that question, else None (the wait is real)."""
    pos = f.pos_of(st)
    if pos is None:
        return None
    for h, body in f.loops():
        if pos[0] not in body:
            continue
        conds = []
        for b in body:
            blk = f.blocks[b]
            if blk.term and blk.term.get("cond") and any(s is not None and s not in body for s in blk.succs):
                conds.append(f.s(blk.term["cond"]))
        if len(conds) != 1:
            return None
        c = unwrap(f, conds[0])
        if c is not None and c["k"] == "UnaryOperator" and c.get("op") == "!":
            c = unwrap(f, f.children(c)[0])
        while c is not None and c["k"] in ("CXXMemberCallExpr",) and (c.get("callee") or {}).get("name") == "operator bool":
            c = unwrap(f, f.s(c["obj"]))
        if c is None or c["k"] != "DeclRefExpr" or c["d"].get("k") != "local":
            return None
        var = path(f, c)
        srcs = []
        for s2 in f.stmts.values():
            if s2["k"] == "DeclStmt":
                srcs += [f.s(d.get("init")) for d in s2["decls"] if "l:" + d["name"] == var]
            elif s2["k"] in ("BinaryOperator", "CXXOperatorCallExpr") and (s2.get("op") == "=" or (s2.get("callee") or {}).get("name") == "operator="):
                ch = f.children(s2) if s2["k"] == "BinaryOperator" else [f.s(a) for a in s2["args"]]
                if len(ch) == 2 and path(f, ch[0]) == var:
                    srcs.append(ch[1])
            elif var in assigned_paths(f, s2) and s2["k"] not in ("DeclRefExpr",):
                return None
        if not srcs:
            return None
        rs = set()
        for s_ in srcs:
            u = unwrap(f, s_)
            while u is not None and u["k"] in CTORS and len(u["args"]) == 1:
                u = unwrap(f, f.s(u["args"][0]))
            r = fb.callee_fn(f, u) if u is not None and u["k"] in CALLS else None
            if r is None or r.invalid:
                return None
            rs.add(r)
        for r in rs:
            la = locks_of(eng, fb, r)
            if any(kind in ("try", "timed") for _p, _k, _v, kind, _s in la.acquire_events) or any(True for _ in atomic_ops(r)):
                return None
            n = 0
            for c2 in r.stmts.values():
                if c2["k"] in CALLS and (c2.get("callee") or {}).get("inrepo") and fb.callee_fn(r, c2) is not None:
                    g2 = fb.callee_fn(r, c2)
                    if g2.kind in ("ctor", "dtor") or g2.name.startswith("operator"):
                        continue
                    summ = eng.handle_summary_of_call(r, c2)
                    if summ is None and never_empty_result(fb, g2) and not any(
                            kind in ("try", "timed") for _p, _k, _v, kind, _s in locks_of(eng, fb, g2).acquire_events):
                        n += 1
                        continue
                    if not summ or any(a.get("st") != "held" for a in summ):
                        return None
                    n += 1
            if n == 0:
                return None
        return "%s waits until %s returns a non-empty value; every acquisition inside %s always succeeds, so whether the " \
               "loop ever runs depends on a stored value being empty" % ("%s::%s (%s)" % ((f.rec or "").split("::")[-1], f.name, f.where), ", ".join(sorted(r.name for r in rs)),
                                                                        ", ".join(sorted(r.name for r in rs)))
    return None


def _body_sources(f, var, body):
    """right-hand sides of every (re)definition of local `var` inside the loop body, or None when one of them is
    not a plain assignment / initialisation"""
    out = []
    for b in body:
        for e in f.blocks[b].elems:
            if e["k"] != "S":
                continue
            st = f.stmts[e["s"]]
            if var not in assigned_paths(f, st):
                continue
            if st["k"] == "BinaryOperator" and st["op"] == "=":
                out.append(f.children(st)[1])
            elif st["k"] == "DeclStmt":
                for d in st["decls"]:
                    if "l:" + d["name"] == var:
                        if not d.get("init"):
                            return None
                        out.append(f.s(d["init"]))
            else:
                return None
    return out


def classify_loops(f):
    """every natural loop of f: (header, kind, detail) with kind in
       'cas-retry'  an exit edge is decided by the result of a compare_exchange
       'traversal'  the exit condition tests a local/member cursor that the body itself advances,
                    or a range-for / iterator comparison
       'bounded'    the exit condition tests a local counter the body changes
       'spin-wait'  the exit condition reads shared atomic state that the body does not change"""
    res = []
    aops = {op["st"]["id"]: op for op in atomic_ops(f)}
    for h, body in f.loops():
        conds = []
        for b in body:
            blk = f.blocks[b]
            if blk.term and blk.term.get("cond") and any(s is not None and s not in body for s in blk.succs):
                conds.append(f.s(blk.term["cond"]))
        if not conds:
            res.append((h, "infinite", "no exit edge"))
            continue
        assigned = set()
        for b in body:
            for e in f.blocks[b].elems:
                if e["k"] == "S":
                    for ap in assigned_paths(f, f.stmts[e["s"]]):
                        assigned.add(ap)
        kinds = []
        for cond in conds:
            k = None
            detail = ""
            descs = list(f.descendants(cond))
            if any(d["id"] in aops and aops[d["id"]]["op"] == "cas" for d in descs):
                k = "cas-retry"
            else:
                vars_ = set()
                atoms = []
                for d in descs:
                    if d["k"] == "DeclRefExpr" and d["d"].get("k") in ("local", "param"):
                        vars_.add(path(f, d))
                    if d["id"] in aops and aops[d["id"]]["op"] == "load":
                        atoms.append(aops[d["id"]])
                adv = [v for v in vars_ if v in assigned]
                # a local that the body only ever refreshes from atomic loads stands for those atomics:
                # `bool more = a.load() != 0; while (more) { yield(); more = a.load() != 0; }`
                for v in list(adv):
                    srcs = _body_sources(f, v, body)
                    if not srcs:
                        continue
                    got = []
                    for src in srcs:
                        ls = [aops[d["id"]] for d in f.descendants(src) if d["id"] in aops and aops[d["id"]]["op"] == "load"]
                        others = [d for d in f.descendants(src) if d["k"] == "DeclRefExpr" and
                                  d["d"].get("k") in ("local", "param") and path(f, d) in assigned and
                                  not any(path(f, d) == l_["obj"] for l_ in ls)]
                        if not ls or others:
                            got = None
                            break
                        got += ls
                    if got:
                        atoms += got
                        adv.remove(v)
                if atoms and not any(root_var(a["obj"]) in assigned for a in atoms if a["obj"]):
                    k = "spin-wait"
                    from .engine import atomic_fields_may
                    names = set()
                    for a in atoms:
                        fl = atomic_fields_may(f, a)
                        names |= {x[1] for x in fl} if fl else {a["obj"] or "?"}
                    detail = "waits for %s to change" % ", ".join(sorted(names))
                elif adv:
                    k = "traversal"
                    detail = "advances " + ", ".join(sorted(adv))
                elif vars_ or atoms:
                    # condition on locals not assigned in the body, or on members
                    fields = [d for d in descs if d["k"] == "MemberExpr" and d["m"].get("is_field")]
                    fpaths = {path(f, d) for d in fields}
                    if any(p in assigned for p in fpaths if p):
                        k = "traversal"
                        detail = "advances " + ", ".join(sorted(p for p in fpaths if p))
                    else:
                        k = "spin-wait" if atoms else "unknown"
                        detail = "condition does not depend on anything the body changes"
                else:
                    fields = [d for d in descs if d["k"] == "MemberExpr" and d["m"].get("is_field")]
                    fpaths = {path(f, d) for d in fields}
                    if any(p in assigned for p in fpaths if p):
                        k = "traversal"
                    else:
                        k = "unknown"
            kinds.append((k, detail))
        order = ["spin-wait", "unknown", "infinite", "cas-retry", "traversal", "bounded"]
        kinds.sort(key=lambda x: order.index(x[0]) if x[0] in order else 0)
        res.append((h, kinds[0][0], kinds[0][1]))
    return res
