"""A8: pointer / iterator typestate.

 * NonNull      must-dataflow of 'path is known non-null / condition known true' facts from branches
 * use_after_invalidate   erase(it) / delete / deallocate / destroy followed by a dereference
 * nullable fields        pointer-like members a constructor or a defaulted move can leave null
"""
import re

from .engine import CALLS, CTORS, WRAPPERS, callee_fq, path, unwrap, strip_cvref, is_atomic_type
from .flow import cond_atoms

SMART = re.compile(r"^(const )?std::(unique_ptr|shared_ptr)<")
ITER = re.compile(r"(_Rb_tree_(const_)?iterator|__normal_iterator|_List_(const_)?iterator|_Node_iterator)")


def root_var(p):
    if p is None:
        return None
    p = p.lstrip("&*")
    m = re.match(r"^((?:[lpg]:)?[A-Za-z_][A-Za-z_0-9$]*)", p)
    return m.group(1) if m else None


def assigned_paths(f, st):
    """paths (re)assigned by statement st"""
    k = st["k"]
    out = []
    if k == "BinaryOperator" and st.get("inl_init"):
        lhs = f.children(st)[0] if f.children(st) else None
        if lhs is not None and lhs["k"] == "MemberExpr" and lhs["m"].get("ftype", "").rstrip().endswith("&"):
            return []       # binding a reference member in an inlined constructor assigns nothing
    if k in ("BinaryOperator", "CompoundAssignOperator") and (st["op"] == "=" or k == "CompoundAssignOperator"):
        out.append(path(f, f.children(st)[0]))
    elif k == "CXXOperatorCallExpr" and st.get("op") in ("=", "++", "--", "+=", "-="):
        out.append(path(f, f.s(st["args"][0])))
    elif k == "UnaryOperator" and st["op"] in ("++", "--"):
        out.append(path(f, f.children(st)[0]))
    elif k == "DeclStmt":
        for d in st["decls"]:
            out.append("l:" + d["name"])
    elif k == "CXXMemberCallExpr" and st["callee"]["name"] in ("reset", "release", "swap"):
        out.append(path(f, f.s(st["obj"])))
    return [p for p in out if p]


class NonNull:
    """facts: ('nn', path) path is non-null/true; ('null', path) path is null/false"""

    def __init__(self, f):
        self.f = f
        self.block_in = {}
        self.before = {}
        self._run()

    def _edge_facts(self, blk):
        f = self.f
        if not blk.term or len(blk.succs) != 2 or not blk.term.get("cond"):
            return [set() for _ in blk.succs]
        cond = f.s(blk.term["cond"])
        res = []
        for val in (True, False):
            facts = set()
            for a in cond_atoms(f, cond, val):
                if a[0] == "truth" and a[1]:
                    facts.add(("nn" if a[3] else "null", a[1]))
                elif a[0] == "eq":
                    l, r, eq = a[1], a[2], a[3]
                    for x, y in ((l, r), (r, l)):
                        if y == "nullptr" and isinstance(x, str):
                            facts.add(("null" if eq else "nn", x))
                        if y in ("true", "false") and isinstance(x, str):
                            t = (y == "true") == eq
                            facts.add(("nn" if t else "null", x))
            res.append(facts)
        return res

    def _kill(self, facts, st):
        ap = assigned_paths(self.f, st)
        if not ap:
            return facts
        out = set()
        for fk, p in facts:
            dead = False
            for a in ap:
                if p == a or p.startswith(a + ".") or p.startswith(a + "->") or root_var(p) == a:
                    dead = True
            if not dead:
                out.add((fk, p))
        return out

    def _run(self):
        f = self.f
        if f.entry is None:
            return
        self.block_in = {f.entry: set()}
        work = [f.entry]
        it = 0
        while work and it < 4000:
            it += 1
            b = work.pop(0)
            blk = f.blocks[b]
            facts = set(self.block_in[b])
            for i, e in enumerate(blk.elems):
                self.before[(b, i)] = set(facts)
                if e["k"] == "S":
                    facts = self._kill(facts, f.stmts[e["s"]])
            ef = self._edge_facts(blk)
            for idx, s in enumerate(blk.succs):
                if s is None:
                    continue
                new = facts | (ef[idx] if idx < len(ef) else set())
                old = self.block_in.get(s)
                j = new if old is None else (old & new)
                if old is None or j != old:
                    self.block_in[s] = j
                    if s not in work:
                        work.append(s)

    def known(self, pos, fact):
        return fact in self.before.get(tuple(pos), set())


# ------------------------------------------------------ use after invalidate
def derefs(f, st):
    """paths that statement st dereferences: list of (path, how)"""
    k = st["k"]
    out = []
    if k == "MemberExpr" and st["arrow"]:
        b = f.s(st["base"])
        bu = unwrap(f, b)
        if bu is not None and bu["k"] != "CXXThisExpr":
            out.append((path(f, b), "->" + st["m"]["name"]))
    elif k == "UnaryOperator" and st["op"] == "*":
        out.append((path(f, f.children(st)[0]), "*"))
    elif k == "CXXOperatorCallExpr" and st.get("op") in ("->", "*") and len(st["args"]) == 1:
        out.append((path(f, f.s(st["args"][0])), "operator" + st["op"]))
    elif k == "CXXOperatorCallExpr" and st.get("op") in ("++", "--") and st["args"]:
        a0 = f.s(st["args"][0])
        if a0 is not None and ITER.search(a0.get("t", "")):
            out.append((path(f, a0), "operator" + st["op"]))
    return [(p, h) for p, h in out if p]


def invalidations(f, st):
    """paths invalidated by st: list of (path, kind)"""
    k = st["k"]
    out = []
    if k == "CXXMemberCallExpr" and st["callee"]["name"] == "erase" and len(st["args"]) == 1:
        a = f.s(st["args"][0])
        if a is not None and ITER.search(a.get("t", "")):
            # through the implicit iterator -> const_iterator conversion
            p = path(f, a)
            if p is None:
                au = unwrap(f, a)
                while au is not None and au["k"] in CTORS and len(au["args"]) == 1:
                    au = unwrap(f, f.s(au["args"][0]))
                p = path(f, au) if au is not None else None
            out.append((p, "erased"))
    elif k == "CXXDeleteExpr":
        out.append((path(f, f.s(st["arg"])), "deleted"))
    elif k == "CallExpr":
        fq = callee_fq(st)
        if re.match(r"^std::allocator_traits<.*>::deallocate$", fq) or fq.endswith("::deallocate"):
            if len(st["args"]) >= 2:
                out.append((path(f, f.s(st["args"][1])), "deallocated"))
    elif k == "CXXMemberCallExpr" and st["callee"]["name"] == "deallocate" and st["args"]:
        out.append((path(f, f.s(st["args"][0])), "deallocated"))
    return [(p, h) for p, h in out if p]


def moved_from(f, st):
    """smart-pointer locals moved from by st (argument of a move constructor / assignment)"""
    out = []
    if st["k"] in CTORS or (st["k"] == "CXXOperatorCallExpr" and st.get("op") == "="):
        args = st["args"] if st["k"] in CTORS else st["args"][1:]
        for a in args:
            au = unwrap(f, f.s(a))
            if au is not None and au["k"] in CALLS and callee_fq(au) == "std::move":
                inner = f.s(au["args"][0])
                if inner is not None and SMART.match(inner.get("t", "")):
                    p = path(f, inner)
                    if p and p.startswith("l:"):
                        out.append((p, "moved-from"))
    return out


def released(f, st):
    """unique_ptr locals whose ownership is given up by st (x.release())"""
    if st["k"] == "CXXMemberCallExpr" and st["callee"]["name"] == "release":
        o = f.s(st["obj"])
        if o is not None and re.match(r"^(const )?std::unique_ptr<", o.get("t", "")):
            ou = unwrap(f, o)
            if ou is not None and ou["k"] == "DeclRefExpr":
                return [("l:" + ou["d"]["name"], "released")]
    return []


def use_after_invalidate(f):
    """forward may-analysis; returns list of (use stmt, path, how used, invalidating stmt, kind)"""
    if f.entry is None:
        return []
    # state: dict path -> (kind, stmt id of the invalidation); alias: dict var -> var
    block_in = {f.entry: ({}, {})}
    findings = {}
    work = [f.entry]
    it = 0
    while work and it < 4000:
        it += 1
        b = work.pop(0)
        inv, alias = block_in[b]
        inv, alias = dict(inv), dict(alias)
        blk = f.blocks[b]
        for i, e in enumerate(blk.elems):
            if e["k"] != "S":
                continue
            st = f.stmts[e["s"]]
            # uses first (operands are evaluated before the effect)
            for p, how in derefs(f, st):
                for ip, (kind, sid) in inv.items():
                    if p == ip or p.startswith(ip + "->") or p.startswith(ip + "."):
                        findings[(st["id"], ip)] = (st, p, how, f.stmts.get(sid), kind)
            # copies: T* a = b;
            if st["k"] == "DeclStmt":
                for d in st["decls"]:
                    v = "l:" + d["name"]
                    inv.pop(v, None)
                    alias = {a: t for a, t in alias.items() if a != v and t != v}
                    src = path(f, f.s(d.get("init"))) if d.get("init") else None
                    if src and (d["type"].endswith("*") or ITER.search(d["type"])):
                        alias[v] = src
            else:
                for ap in assigned_paths(f, st):
                    for ip in [x for x in inv if x == ap or x.startswith(ap + "->") or x.startswith(ap + ".")]:
                        inv.pop(ip, None)
                    alias = {a: t for a, t in alias.items() if a != ap and t != ap}
                    if st["k"] == "BinaryOperator" and st["op"] == "=":
                        src = path(f, f.children(st)[1])
                        if src:
                            alias[ap] = src
            # x.get() on a released unique_ptr is a (null) use as well
            if st["k"] == "CXXMemberCallExpr" and st["callee"]["name"] == "get":
                o = unwrap(f, f.s(st["obj"]))
                if o is not None and o["k"] == "DeclRefExpr":
                    v = "l:" + o["d"]["name"]
                    if v in inv and inv[v][0] == "released":
                        findings[(st["id"], v)] = (st, v, ".get() (yields nullptr)", f.stmts.get(inv[v][1]), "released")
            for p, kind in invalidations(f, st) + moved_from(f, st) + released(f, st):
                inv[p] = (kind, st["id"])
                for a, t in alias.items():
                    if t == p:
                        inv[a] = (kind, st["id"])
                    if a == p:
                        inv[t] = (kind, st["id"])
        for s in blk.succs:
            if s is None:
                continue
            old = block_in.get(s)
            if old is None:
                block_in[s] = (dict(inv), dict(alias))
                work.append(s)
            else:
                ninv = dict(old[0])
                changed = False
                for k_, v_ in inv.items():
                    if k_ not in ninv:
                        ninv[k_] = v_
                        changed = True
                nal = {a: t for a, t in old[1].items() if alias.get(a) == t}
                if nal != old[1]:
                    changed = True
                if changed:
                    block_in[s] = (ninv, nal)
                    if s not in work:
                        work.append(s)
    return list(findings.values())


# ------------------------------------------------------------ nullable fields
def pointer_like(t):
    t = strip_cvref(t)
    return t.endswith("*") or bool(SMART.match(t))


def nullable_fields(fb, tmpl):
    """{field name: [reasons]} for pointer-like fields of class template `tmpl`
    that some constructor (reason 'ctor:<where>') or a defaulted/implicit move
    operation (reason 'move') can leave null"""
    res = {}
    for r in fb.records(tmpl=tmpl):
        ptr_fields = [fl for fl in r.fields if pointer_like(fl["type"]) and not is_atomic_type(fl["type"])]
        if not ptr_fields:
            continue
        ctors = [f for f in fb.functions(rec=tmpl) if f.kind == "ctor" and f.recq == r.qname and not f.defaulted]
        for fl in ptr_fields:
            name = fl["name"]
            smart = bool(SMART.match(strip_cvref(fl["type"])))
            for c in ctors:
                ini = None
                for i in c.inits:
                    if i.get("field") == name:
                        ini = i
                if ini is None or not ini.get("written"):
                    # default member initialiser / default construction
                    dflt = fl.get("init", "")
                    if (not fl.get("has_init")) and not smart:
                        res.setdefault(name, set()).add("ctor:%s leaves it uninitialised" % c.where)
                    elif smart or re.search(r"nullptr|\{\}|^0$|NULL", dflt or "nullptr"):
                        res.setdefault(name, set()).add("ctor:%s leaves it null" % c.where)
                else:
                    e = unwrap(c, c.s(ini["init"]))
                    if e is not None and e["k"] in ("CXXNullPtrLiteralExpr", "GNUNullExpr"):
                        res.setdefault(name, set()).add("ctor:%s sets it to nullptr" % c.where)
            if smart:
                mv = [m for m in r.methods if (m.get("move_ctor") or m.get("move_assign")) and not m.get("deleted")]
                if any(m.get("defaulted") or m.get("implicit") for m in mv) or \
                        (not mv and r.special.get("needs_implicit_move_ctor")):
                    res.setdefault(name, set()).add("move")
    return {k: sorted(v) for k, v in res.items()}


def field_uses(f, tmpl, field):
    """statements in f that dereference (or free) a value read from field
    `tmpl::field`: list of (stmt, path of the pointer, how)"""
    out = []
    # locals that hold a copy of the field
    tainted = {}
    for st in f.stmts.values():
        if st["k"] == "DeclStmt":
            for d in st["decls"]:
                src = unwrap(f, f.s(d.get("init"))) if d.get("init") else None
                if src is not None and src["k"] == "MemberExpr" and src["m"].get("rec") == tmpl and \
                        src["m"]["name"] == field and src["m"].get("is_field"):
                    tainted["l:" + d["name"]] = path(f, src)

    def is_field_path(e):
        e = unwrap(f, e)
        return e is not None and e["k"] == "MemberExpr" and e["m"].get("is_field") and \
            e["m"].get("rec") == tmpl and e["m"]["name"] == field

    for st in f.stmts.values():
        k = st["k"]
        if k == "MemberExpr" and st["arrow"]:
            b = f.s(st["base"])
            if is_field_path(b) or path(f, b) in tainted:
                out.append((st, path(f, b), "->" + st["m"]["name"]))
        elif k == "CXXOperatorCallExpr" and st.get("op") in ("->", "*") and len(st["args"]) == 1:
            a = f.s(st["args"][0])
            if is_field_path(a) or path(f, a) in tainted:
                out.append((st, path(f, a), "operator" + st["op"]))
        elif k == "UnaryOperator" and st["op"] == "*":
            a = f.children(st)[0]
            if is_field_path(a) or path(f, a) in tainted:
                out.append((st, path(f, a), "*"))
        elif k == "CallExpr":
            fq = callee_fq(st)
            if re.search(r"::(destroy|deallocate)$", fq) and len(st["args"]) >= 2:
                a = f.s(st["args"][1])
                if is_field_path(a) or path(f, a) in tainted:
                    out.append((st, path(f, a), fq.split("::")[-1]))
        elif k == "CXXDeleteExpr":
            pass   # delete of a null pointer is fine
    return out


# ------------------------------------------------------- iterator from find()
FIND_MEMBERS = ("find", "lower_bound", "upper_bound")
FIND_ALGOS = ("std::find", "std::find_if", "std::find_if_not", "std::lower_bound", "std::upper_bound")


def unchecked_find_deref(f):
    """locals holding the result of a lookup (map.find / std::find_if ...) that are dereferenced at a point not
    dominated by the 'not end()' outcome of a comparison with end(): list of (deref stmt, local name, lookup stmt).
    A lookup result equals end() when nothing matched; dereferencing it then is undefined."""
    out = []
    finds = {}
    for st in f.stmts.values():
        if st["k"] != "DeclStmt":
            continue
        for d in st["decls"]:
            if not d.get("init") or d.get("ref"):
                continue
            e = unwrap(f, f.s(d["init"]))
            while e is not None and e["k"] in CTORS and len(e["args"]) == 1:
                e = unwrap(f, f.s(e["args"][0]))
            if e is None:
                continue
            if (e["k"] == "CXXMemberCallExpr" and (e.get("callee") or {}).get("name") in FIND_MEMBERS) or \
                    (e["k"] == "CallExpr" and callee_fq(e) in FIND_ALGOS):
                finds[d["id"]] = (d["name"], e)
    if not finds:
        return out
    # edges on which a given local is known to differ from end()
    good = {}      # decl id -> set of blocks entered only through such an edge
    for b, blk in f.blocks.items():
        if not (blk.term and blk.term.get("cond") and len(blk.succs) == 2):
            continue
        c = unwrap(f, f.s(blk.term["cond"]))
        neg = False
        while c is not None and c["k"] == "UnaryOperator" and c["op"] == "!":
            neg = not neg
            c = unwrap(f, f.children(c)[0])
        if c is None:
            continue
        if c["k"] == "CXXOperatorCallExpr" and c.get("op") in ("==", "!="):
            a = [unwrap(f, f.s(x)) for x in c["args"][:2]]
        elif c["k"] == "BinaryOperator" and c["op"] in ("==", "!="):
            a = [unwrap(f, x) for x in f.children(c)]
        else:
            continue
        op = c.get("op")
        for x, y in ((a[0], a[1]), (a[1], a[0])):
            while x is not None and x["k"] in CTORS and len(x["args"]) == 1:
                x = unwrap(f, f.s(x["args"][0]))
            while y is not None and y["k"] in CTORS and len(y["args"]) == 1:
                y = unwrap(f, f.s(y["args"][0]))
            if x is None or y is None or x["k"] != "DeclRefExpr" or x["d"].get("id") not in finds:
                continue
            if y["k"] in CALLS and (y.get("callee") or {}).get("name") in ("end", "cend"):
                # the end() of the container that was searched: an iterator of one container never equals the end() of
                # another one, so such a test lets the 'not found' result through
                fe = finds[x["d"]["id"]][1]
                if fe["k"] == "CXXMemberCallExpr":
                    searched = path(f, f.s(fe.get("obj")))
                else:
                    b0 = unwrap(f, f.s(fe["args"][0])) if fe.get("args") else None
                    searched = path(f, f.s(b0.get("obj"))) if b0 is not None and b0["k"] == "CXXMemberCallExpr" else None
                ended = path(f, f.s(y.get("obj"))) if y["k"] == "CXXMemberCallExpr" else None
                if searched and ended and searched != ended:
                    continue
                differs_on_true = (op == "!=") != neg
                s = blk.succs[0] if differs_on_true else blk.succs[1]
                if s is not None and [p for p in f.blocks[s].preds] == [b]:
                    good.setdefault(x["d"]["id"], set()).add(s)
    for st in f.stmts.values():
        tgt = None
        if st["k"] == "CXXOperatorCallExpr" and st.get("op") in ("->", "*") and st["args"]:
            tgt = unwrap(f, f.s(st["args"][0]))
        elif st["k"] == "UnaryOperator" and st["op"] == "*":
            tgt = unwrap(f, f.children(st)[0])
        elif st["k"] == "MemberExpr" and st.get("arrow"):
            tgt = unwrap(f, f.s(st["base"]))
        if tgt is None or tgt["k"] != "DeclRefExpr" or tgt["d"].get("id") not in finds:
            continue
        pos = f.pos_of(st)
        if pos is None:
            continue
        ok = any(f.dominates_block(g, pos[0]) for g in good.get(tgt["d"]["id"], ()))
        if not ok:
            out.append((st, finds[tgt["d"]["id"]][0], finds[tgt["d"]["id"]][1]))
    return out


# ----------------------------------------------------- value consumed in a loop
def moves_repeated(f):
    """std::move / std::forward (as an rvalue) of an object that outlives the loop, at a point the loop can reach
    again without the object being reassigned: the second iteration passes on a moved-from value.
    list of (move stmt, path of the object)"""
    out = []
    loops = f.loops()
    if not loops:
        return out
    assigns = {}
    for b, blk in f.blocks.items():
        for i, e in enumerate(blk.elems):
            if e["k"] == "S":
                for ap in assigned_paths(f, f.stmts[e["s"]]):
                    assigns.setdefault(ap, []).append((b, i))
    decl_blocks = {}
    for st in f.stmts.values():
        if st["k"] == "DeclStmt":
            pos = f.pos_of(st)
            for d in st["decls"]:
                decl_blocks["l:" + d["name"]] = pos[0] if pos else None
        if st["k"] == "CXXForRangeStmt" and st.get("loopvar"):
            decl_blocks["l:" + st["loopvar"]["name"]] = "loopvar"
    for st in f.stmts.values():
        if st["k"] != "CallExpr" or callee_fq(st) not in ("std::move", "std::forward") or st.get("vk") != "x" or not st["args"]:
            continue
        p = path(f, f.s(st["args"][0]))
        pos = f.pos_of(st)
        if not p or pos is None:
            continue
        root = root_var(p)
        inside = [body for _h, body in loops if pos[0] in body]
        if not inside:
            continue
        body = min(inside, key=len)
        if root.startswith("l:"):
            db = decl_blocks.get(root)
            if db == "loopvar" or db in body:
                continue        # a fresh object every iteration
        avoid = [q for ap, qs in assigns.items() if ap == p or ap == root or p.startswith(ap + ".") or p.startswith(ap + "->") for q in qs]
        if f.reach_avoiding(tuple(pos), tuple(pos), avoid):
            out.append((st, p))
    return out


def unchecked_front_back(f):
    """front() / back() / pop_back() / pop_front() on a standard sequence whose emptiness was not excluded on the way
    there (a dominating `!x.empty()` / `x.size() > 0` / `x.size() != 0` outcome, or being inside a loop over x's
    elements): undefined on an empty container.  list of (call stmt, container path)"""
    out = []
    for st in f.stmts.values():
        if st["k"] != "CXXMemberCallExpr" or (st.get("callee") or {}).get("name") not in ("front", "back", "pop_back", "pop_front"):
            continue
        ot = (f.s(st.get("obj")) or {}).get("t", "")
        if not re.match(r"^(const )?std::(vector|deque|list|basic_string)<", ot):
            continue
        cp = path(f, f.s(st["obj"]))
        pos = f.pos_of(st)
        if not cp or pos is None:
            continue
        safe = False
        for b, blk in f.blocks.items():
            if not (blk.term and blk.term.get("cond") and len(blk.succs) == 2) or b == pos[0] or not f.dominates_block(b, pos[0]):
                continue
            c = unwrap(f, f.s(blk.term["cond"]))
            neg = False
            while c is not None and c["k"] == "UnaryOperator" and c.get("op") == "!":
                neg = not neg
                c = unwrap(f, f.children(c)[0])
            nonempty_edge = None
            if c is not None and c["k"] == "CXXMemberCallExpr" and (c.get("callee") or {}).get("name") == "empty" and \
                    path(f, f.s(c["obj"])) == cp:
                nonempty_edge = 1 if not neg else 0         # empty() false -> non-empty
            elif c is not None and c["k"] == "BinaryOperator" and c.get("op") in (">", "!=", "<", "=="):
                l, r = [unwrap(f, x) for x in f.children(c)]
                def is_size(x):
                    return x is not None and x["k"] == "CXXMemberCallExpr" and (x.get("callee") or {}).get("name") in ("size", "length") \
                        and path(f, f.s(x["obj"])) == cp
                def is_zero(x):
                    return x is not None and x["k"] == "IntegerLiteral" and x.get("v") == 0
                if is_size(l) and is_zero(r) and c["op"] in (">", "!="):
                    nonempty_edge = 0 if not neg else 1
                elif is_size(l) and is_zero(r) and c["op"] == "==":
                    nonempty_edge = 1 if not neg else 0
                elif is_zero(l) and is_size(r) and c["op"] == "<":
                    nonempty_edge = 0 if not neg else 1
            if nonempty_edge is None:
                continue
            other = blk.succs[1 - nonempty_edge]
            if other is not None and other != pos[0] and not f.reach_avoiding((other, -1), tuple(pos), []):
                safe = True
        if not safe:
            out.append((st, cp))
    return out


def refs_into_dead_temporaries(f):
    """`const T& r = *obj.lock_shared();` - a local reference bound to the payload reached through a TEMPORARY handle (a
    prvalue of one of the library's handle types, or a unique_ptr with a library deleter): the temporary - and with it
    the lock / reader registration - is gone at the end of the declaration, every later use of the reference runs
    unprotected.  list of (decl stmt, reference name, first later use)"""
    out = []
    for st in f.stmts.values():
        if st["k"] != "DeclStmt":
            continue
        for d in st["decls"]:
            if not d.get("ref") or not d.get("init") or d.get("inl"):
                continue
            e = f.s(d["init"])
            while e is not None and e["k"] in WRAPPERS:
                ch = f.children(e)
                e = ch[0] if ch else None
            operand = None
            if e is not None and e["k"] == "CXXOperatorCallExpr" and e.get("op") in ("*", "->") and e["args"]:
                operand = f.s(e["args"][0])
            elif e is not None and e["k"] == "UnaryOperator" and e.get("op") == "*":
                operand = f.children(e)[0]
            while operand is not None and operand["k"] in ("ImplicitCastExpr", "ParenExpr"):
                ch = f.children(operand)
                operand = ch[0] if ch else None
            if operand is None or operand["k"] not in ("MaterializeTemporaryExpr", "CXXBindTemporaryExpr"):
                continue
            t = operand.get("t", "")
            protective = "gmlc::libguarded::" in t and ("handle" in t or "unique_ptr<" in t or "_deleter" in t or "deleter>" in t)
            if not protective:
                continue
            uses = [u for u in f.stmts.values() if u["k"] == "DeclRefExpr" and u["d"].get("id") == d["id"]]
            if uses:
                out.append((st, d["name"], uses[0]))
    return out


def uses_after_move(f):
    """a local / parameter is passed on with std::move or std::forward (as an rvalue) and used again at a point that
    can be reached from there without the variable being reassigned: the later use sees a moved-from object
    (`std::forward<F>(f)(a); std::forward<F>(f)(b);`).  list of (move stmt, path, later use stmt)"""
    out = []
    assigns = {}
    for b, blk in f.blocks.items():
        for i, e in enumerate(blk.elems):
            if e["k"] == "S":
                for ap in assigned_paths(f, f.stmts[e["s"]]):
                    assigns.setdefault(ap, []).append((b, i))
    refs = {}
    for u in f.stmts.values():
        if u["k"] == "DeclRefExpr" and u["d"].get("k") in ("local", "param") and u["d"].get("id"):
            refs.setdefault(u["d"]["id"], []).append(u)
    for st in f.stmts.values():
        if st["k"] != "CallExpr" or callee_fq(st) not in ("std::move", "std::forward") or st.get("vk") != "x" or not st["args"]:
            continue
        a = unwrap(f, f.s(st["args"][0]))
        if a is None or a["k"] != "DeclRefExpr" or a["d"].get("k") not in ("local", "param"):
            continue
        if a["d"].get("pack") or "..." in a["d"].get("type", ""):
            continue
        p = path(f, a)
        pos = f.pos_of(st)
        if not p or pos is None:
            continue
        avoid = set(q for ap, qs in assigns.items() if ap == p for q in qs)
        inner = {d["id"] for d in f.descendants(st)}
        for u in refs.get(a["d"]["id"], []):
            if u["id"] in inner:
                continue
            q = f.pos_of(u)
            if q is None or tuple(q) in avoid or tuple(q) == tuple(pos):
                continue
            if f.reach_avoiding(tuple(pos), tuple(q), avoid):
                out.append((st, p, u))
                break
    return out


# ------------------------------------------------------- uninitialised locals
SCALARS = ("bool", "char", "signed char", "unsigned char", "short", "unsigned short", "int", "unsigned int", "long",
           "unsigned long", "long long", "unsigned long long", "float", "double", "long double")


def uninitialised_uses(f):
    """locals of scalar / pointer type declared without an initialiser and used where no assignment dominates the
    use: list of (use stmt, name, decl stmt).  `T x;` default-initialises: for a scalar T the value is indeterminate
    (`T x{};` / `T()` value-initialise)."""
    out = []
    for st in f.stmts.values():
        if st["k"] != "DeclStmt":
            continue
        for d in st["decls"]:
            if d.get("k") != "local" or d.get("init") or d.get("ref"):
                continue
            t = d.get("type", "").replace("const ", "").strip()
            if not (t in SCALARS or t.endswith("*")):
                continue
            assigns, uses = [], []
            for u in f.stmts.values():
                if u["k"] == "DeclRefExpr" and u["d"].get("id") == d["id"]:
                    par = f.par(u)
                    while par is not None and par["k"] == "ParenExpr":
                        par = f.par(par)
                    if par is not None and par["k"] == "BinaryOperator" and par["op"] == "=" and \
                            unwrap(f, f.children(par)[0]) is not None and unwrap(f, f.children(par)[0])["id"] == u["id"]:
                        assigns.append(f.pos_of(par))
                    elif par is not None and par["k"] == "UnaryOperator" and par["op"] == "&":
                        assigns.append(f.pos_of(par))      # address passed on: an out-parameter, assume it is filled in
                    else:
                        uses.append(u)
            for u in uses:
                up = f.pos_of(u)
                if up is None:
                    continue
                dp = f.pos_of(st)
                if dp is not None and f.reach_avoiding(tuple(dp), tuple(up), [tuple(a) for a in assigns if a is not None]):
                    out.append((u, d["name"], st))
    return out


# ---------------------------------------------------- moving from the caller's object
def _bound_to_own_object(f, ref_expr):
    """the reference parameter of an inlined helper is bound to an object the enclosing function owns: one of its
    non-reference locals, or a parameter it received by value / by rvalue reference"""
    tgt = path(f, ref_expr)
    if not tgt or "->" in tgt or "*" in tgt or tgt.startswith("this"):
        return False
    root = tgt.split(".")[0]
    for s2 in f.stmts.values():
        if s2["k"] == "DeclStmt":
            for dd in s2["decls"]:
                if "l:" + dd["name"] == root:
                    return not dd.get("ref") or dd.get("type", "").rstrip().endswith("&&")
    if root.startswith("p:"):
        for pd in f.params:
            if "p:" + pd["name"] == root:
                t = pd.get("type", "").strip()
                return not t.endswith("&") or t.endswith("&&")
    return False


def moves_from_lvalue_ref(f):
    """std::move applied to a parameter (or an inlined helper's parameter) whose type is a NON-const lvalue reference:
    the callee empties an object its caller still owns.  In an instantiated forwarding function this is what
    `std::move(arg)` on a forwarding reference `Arg&& arg` becomes when the caller passed an lvalue
    (std::forward would have copied).  list of (move stmt, parameter name)"""
    out = []
    for st in f.stmts.values():
        if st["k"] != "CallExpr" or callee_fq(st) != "std::move" or not st["args"]:
            continue
        a = f.s(st["args"][0])
        while a is not None and a["k"] in WRAPPERS:
            ch = f.children(a)
            a = ch[0] if ch else None
        if a is None or a["k"] != "DeclRefExpr":
            continue
        d = a["d"]
        if d.get("k") == "param" or d.get("inl"):
            t = d.get("type", "").strip()
            if t.endswith("&") and not t.endswith("&&") and not t.startswith("const "):
                if d.get("inl") and _bound_to_own_object(f, a):
                    continue        # a private helper that consumes its caller's LOCAL (lock, handle) through a reference
                out.append((st, d.get("name")))
        elif d.get("k") == "local" and d.get("ref") and not d.get("inl_ret") and \
                d.get("id") not in {s_["loopvar"].get("id") for s_ in f.stmts.values() if s_["k"] == "CXXForRangeStmt" and s_.get("loopvar")}:
            # (the variable of a range-for over a whole container is exempt: moving elements while the container is being
            # rebuilt is a restructuring idiom, not a theft from somebody else's entry)
            # `auto& slot = map.find(k)->second; use(std::move(slot));` empties storage that belongs to somebody else
            t = d.get("type", "").strip()
            if t.endswith("&") and not t.endswith("&&") and not t.startswith("const "):
                tgt = None
                for s2 in f.stmts.values():
                    if s2["k"] == "DeclStmt":
                        for dd in s2["decls"]:
                            if dd["id"] == d["id"] and dd.get("init"):
                                tgt = path(f, f.s(dd["init"]))
                                ie = unwrap(f, f.s(dd["init"]))
                                if tgt is None and ie is not None:
                                    # element access on a container: m_vec[i], m_vec.at(i), m_vec.front()
                                    if ie["k"] == "CXXOperatorCallExpr" and ie.get("op") == "[]" and ie["args"]:
                                        tgt = path(f, f.s(ie["args"][0]))
                                    elif ie["k"] == "CXXMemberCallExpr" and (ie.get("callee") or {}).get("name") in ("at", "front", "back"):
                                        tgt = path(f, f.s(ie.get("obj")))
                own_local = False
                if tgt and (tgt.startswith("this.") or tgt.startswith("this->")):
                    own_local = True        # the class's own member storage: rearranging it is the member function's business
                if tgt and tgt.startswith("l:") and "->" not in tgt and "*" not in tgt:
                    root = tgt.split(".")[0]
                    for s2 in f.stmts.values():
                        if s2["k"] == "DeclStmt":
                            for dd in s2["decls"]:
                                if "l:" + dd["name"] == root and not dd.get("ref"):
                                    own_local = True
                if not own_local:
                    out.append((st, d.get("name")))
    return out
