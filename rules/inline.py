"""Virtual inlining of non-public helpers.

A maintainer who factors a block into a private member function, a static helper, a `detail::` function template or
splits a long function into sequential private steps does not change behaviour; rules that read the *shape* of one
function (path events, typestate, condition-variable discipline, guarded-field accesses) must see the same statements
in the same lock state as before.  inline(f) returns a synthetic Function in which every call to an inlinable helper
is replaced by the helper's body:

  * the helper's statements are copied (ids prefixed), its CFG blocks spliced in at the call element;
  * each parameter becomes a local that is bound to the argument expression (a reference local when the parameter is a
    reference - the engine's alias resolution then spells accesses through it in the caller's terms);
  * `this` of a helper invoked on another object becomes a local pointer bound to that object;
  * `return e;` becomes an assignment to a synthetic result local, and the call expression becomes a transparent
    wrapper around a reference to it;
  * the helper's locals are renamed `<helper>$<name>` (access paths and lock keys are name based).

What is inlinable: a function defined in the repository, in the same translation unit, with a body, that is a
private/protected member, or a free function / function template in a `detail` namespace.  Public members and the
public free helpers (`try_lock_handle*`) are API: rules know them by name and they are never inlined.  Recursion and
helpers larger than MAX_STMTS statements are left as calls; nesting is followed to depth MAX_DEPTH.
"""
import copy

from .facts import Function

MAX_DEPTH = 3
MAX_STMTS = 600
CALL_KINDS = ("CallExpr", "CXXMemberCallExpr", "CXXOperatorCallExpr")


_ANCHORS = None


def _anchors():
    global _ANCHORS
    if _ANCHORS is None:
        import json
        import os
        p = os.path.join(os.path.dirname(os.path.dirname(os.path.abspath(__file__))), "tables", "anchors.json")
        t = json.load(open(p))
        _ANCHORS = (set(t["no_inline"]), set(t["known_functions"]), set(t.get("known_records", [])))
    return _ANCHORS


def plain_name(g):
    return (g.rec + "::" + g.name) if g.rec else g.fq.split("<")[0]


def inlinable(g):
    """may calls to function g be replaced by its body?  Every library function that is not part of the tree the rules
    were written against (tables/anchors.json: known_functions) - i.e. a helper that a later change introduced."""
    if g is None or g.invalid or not g.d.get("inrepo", True) or g.entry is None:
        return False
    if g.kind in ("ctor", "dtor"):
        return False
    if g.kind == "conv" and (not g.rec or g.rec in _anchors()[2]):
        return False         # conversion operators are inlined only for classes introduced after the reference tree
    if g.kind == "op" and not g.is_lambda:
        return False         # overloaded operators of value-like classes (*h, h->, a == b) keep their operator spelling
    if len(g.stmts) > MAX_STMTS:
        return False
    if g.is_lambda:
        return True          # only reached for a direct call of a closure defined in the calling function, see _call_sites
    if not g.file.startswith(GMLC_PREFIX()):
        return False
    no_inline, known, _recs = _anchors()
    return plain_name(g) not in known and plain_name(g) not in no_inline


def inlinable_special(g):
    """constructor / destructor of a class that is not part of the reference tree (an RAII helper introduced later)"""
    if g is None or g.invalid or not g.d.get("inrepo", True) or g.entry is None or g.kind not in ("ctor", "dtor"):
        return False
    if g.defaulted or len(g.stmts) > MAX_STMTS or not g.file.startswith(GMLC_PREFIX()):
        return False
    return bool(g.rec) and g.rec not in _anchors()[2]


def standalone(g):
    """is g also analysed as a function of its own?  Non-public helpers and free helper functions that are inlined at
    their call sites are judged in the context of each caller only; public members stay entry points."""
    if g is not None and g.is_lambda:
        return not closure_runs_only_in_inlined_helper(g)
    if not inlinable(g):
        return True
    return bool(g.rec) and g.access == "public"


def closure_runs_only_in_inlined_helper(g):
    """g is the call operator of a closure that the creating function hands directly to a helper which is inlined
    there, and that helper does nothing with the parameter but call it (`return with_lock([&] { ... });`).  The body then
    runs exactly where the inlined helper invokes it and is judged there - not a second time as a function of its own
    with the state of the place where the closure is written down."""
    key = "_only_in_helper"
    if key in g.__dict__:
        return g.__dict__[key]
    g.__dict__[key] = False
    par = g.unit.fn_by_id.get(g.lambda_parent) if g.lambda_parent else None
    if par is None or par.invalid:
        return False
    lam = None
    for st in par.stmts.values():
        if st["k"] == "LambdaExpr" and g.id in st.get("call_ops", []):
            lam = st
    if lam is None:
        return False
    cur = lam
    call = None
    for _ in range(12):
        p = par.par(cur)
        if p is None:
            return False
        if p["k"] in ("ExprWithCleanups", "CXXBindTemporaryExpr", "MaterializeTemporaryExpr", "ImplicitCastExpr", "ParenExpr", "CXXFunctionalCastExpr"):
            cur = p
            continue
        if p["k"] in ("CallExpr", "CXXMemberCallExpr"):
            call = p
        break
    if call is None or cur["id"] not in call.get("args", []):
        return False
    h = par.unit.fn_by_id.get((call.get("callee") or {}).get("id"))
    if h is None or h.is_lambda or not inlinable(h):
        return False
    i = call["args"].index(cur["id"])
    if i >= len(h.params):
        return False
    pid = h.params[i].get("id")
    uses = [st for st in h.stmts.values() if st["k"] == "DeclRefExpr" and st["d"].get("id") == pid]
    if not uses:
        return False
    for u in uses:
        c = u
        ok = False
        for _ in range(8):
            p = h.par(c)
            if p is None:
                break
            if p["k"] in ("ImplicitCastExpr", "ParenExpr", "MaterializeTemporaryExpr") or \
                    (p["k"] == "CallExpr" and (p.get("callee") or {}).get("fq") in ("std::forward", "std::move")):
                c = p
                continue
            if p["k"] == "CXXOperatorCallExpr" and p.get("op") == "()" and p["args"] and p["args"][0] == c["id"]:
                ok = True
            break
        if not ok:
            return False
    g.__dict__[key] = True
    return True


def GMLC_PREFIX():
    from .facts import GMLC
    return GMLC + "/"


def _call_sites(f):
    """(block id, element index, call stmt, callee Function) of every inlinable call evaluated as a CFG element"""
    out = []
    base = getattr(f, "orig", f)
    for bid, blk in f.blocks.items():
        for i, e in enumerate(blk.elems):
            if e["k"] == "AD" and not e.get("inlined_dtor"):
                g = f.unit.fn_by_id.get((e.get("dtor") or {}).get("id"))
                if inlinable_special(g) and e.get("var"):
                    out.append((bid, i, e, g, "dtor", e["var"]))
                continue
            if e["k"] != "S":
                continue
            st = f.stmts.get(e["s"])
            if st is not None and st["k"] in ("CXXConstructExpr", "CXXTemporaryObjectExpr") and not st.get("inlined_ctor"):
                g = f.unit.fn_by_id.get((st.get("callee") or {}).get("id"))
                if inlinable_special(g):
                    var = _declared_var(f, st)
                    if var is not None:
                        out.append((bid, i, st, g, "ctor", var))
                continue
            if st is None or st["k"] not in CALL_KINDS:
                continue
            c = st.get("callee")
            if not c:
                continue
            g = f.unit.fn_by_id.get(c["id"])
            if g is None or g.id == f.id or not inlinable(g):
                continue
            if g.is_lambda:
                # a closure invoked where it was created: its call operator runs in this function's context
                if g.lambda_parent != base.id and g.lambda_parent not in getattr(f, "inlined_ids", ()):
                    continue
            out.append((bid, i, st, g, "call", None))
    return out


def _declared_var(f, st):
    """declaration info of the local variable a construct expression initialises, or None"""
    cur = st
    for _ in range(8):
        par = f.par(cur)
        if par is None:
            return None
        if par["k"] == "DeclStmt":
            for d in par["decls"]:
                if d.get("init") == cur["id"] and d.get("k") == "local" and not d.get("ref"):
                    return {k: v for k, v in d.items() if k != "init"}
            return None
        if par["k"] in ("ExprWithCleanups", "CXXBindTemporaryExpr", "MaterializeTemporaryExpr", "ImplicitCastExpr", "CXXFunctionalCastExpr"):
            cur = par
            continue
        return None
    return None


def has_inlinable_calls(f):
    return bool(_call_sites(f))


def _rewrite(v, idmap):
    """copy of JSON value v with every statement id replaced through idmap"""
    if isinstance(v, str):
        return idmap.get(v, v)
    if isinstance(v, list):
        return [_rewrite(x, idmap) for x in v]
    if isinstance(v, dict):
        return {k: (_rewrite(x, idmap) if k not in ("d", "callee", "m", "loopvar", "var", "dtor") else copy.deepcopy(x))
                for k, x in v.items()}
    return v


def inline(f, depth=0, stack=()):
    """synthetic Function with inlinable helper calls expanded (f itself when there are none)"""
    cached = getattr(f, "_inlined", None)
    if cached is not None and depth == 0:
        return cached
    cur = f
    for rnd in range(4):
        nxt = _inline_once(cur, f, depth, stack, rnd)
        if nxt is cur:
            break
        cur = nxt
    if depth == 0:
        f._inlined = cur
    return cur


def _inline_once(cur, f, depth, stack, rnd):
    sites = _call_sites(cur) if depth < MAX_DEPTH else []
    sites = [s_ for s_ in sites if s_[3].id not in stack and s_[3].id != f.id]
    if not sites:
        return cur
    d = copy.deepcopy(cur.d)
    stmts = d["stmts"]
    blocks = {b["id"]: b for b in d["cfg"]["blocks"]}
    next_block = [max(blocks) + 1]
    counter = [0]
    by_block = {}
    for bid, i, st, g, mode, var in sites:
        by_block.setdefault(bid, []).append((i, st, g, mode, var))
    for bid in sorted(by_block):
        # from the last element to the first so that indexes stay valid; the tail of a split block gets a new id, the head
        # keeps the old one, so earlier elements are still found in block `bid`
        for i, st, g, mode, var in sorted(by_block[bid], key=lambda x: -x[0]):
            gi = g if g.is_lambda else inline(g, depth + 1, stack + (f.id,))
            _splice(d, stmts, blocks, next_block, counter, bid, i, st.get("id"), gi, "r%d" % rnd, mode, var)
    _prune_constant_branches(stmts, blocks, d["cfg"]["entry"])
    _renumber(d, blocks)
    d["inlined_from"] = sorted(set(d.get("inlined_from", [])) | {x[3].qname for x in sites})
    d["inlined_ids"] = sorted(set(d.get("inlined_ids", [])) | {x[3].id for x in sites} |
                              {y for x in sites for y in getattr(x[3], "inlined_ids", ())})
    d["uid"] = f.id + "#i"
    nf = Function(d, f.unit)
    nf.orig = f
    nf.inlined_ids = set(d["inlined_ids"])
    nf.invalid = f.invalid
    return nf


_WRAP = ("ImplicitCastExpr", "ParenExpr", "ExprWithCleanups", "MaterializeTemporaryExpr", "CXXBindTemporaryExpr", "ConstantExpr",
         "CXXFunctionalCastExpr", "CXXStaticCastExpr")


def _prune_constant_branches(stmts, blocks, entry):
    """a helper parameterised by a flag (`arrive(bool drop)`, `acquire(bool blocking)`) is inlined with the flag bound
    to a literal at each call site: a branch on that parameter is decided there.  The dead edge is removed, so that
    dominance, path enumeration and the dataflows see the specialised code of this call site."""
    def strip(sid):
        neg = False
        st = stmts.get(sid)
        n = 0
        while st is not None and n < 30:
            n += 1
            if st["k"] in _WRAP:
                ch = [c for c in st.get("ch", []) if c]
                st = stmts.get(ch[0]) if ch else None
                continue
            if st["k"] == "UnaryOperator" and st.get("op") == "!":
                neg = not neg
                ch = [c for c in st.get("ch", []) if c]
                st = stmts.get(ch[0]) if ch else None
                continue
            break
        return st, neg

    bound = {}       # declaration id of an inlined parameter -> literal truth value
    assigned = set()
    for st in stmts.values():
        if st.get("k") == "DeclStmt":
            for dd in st.get("decls", []):
                if dd.get("inl") and dd.get("init") and not dd.get("ref"):
                    e, neg = strip(dd["init"])
                    if e is not None and e["k"] == "CXXBoolLiteralExpr":
                        bound[dd["id"]] = bool(e.get("v")) != neg
                    elif e is not None and e["k"] == "IntegerLiteral" and isinstance(e.get("v"), int):
                        bound[dd["id"]] = (e["v"] != 0) != neg
        elif st.get("k") in ("BinaryOperator", "CompoundAssignOperator") and (st.get("op") == "=" or st["k"] == "CompoundAssignOperator"):
            ch = [c for c in st.get("ch", []) if c]
            l, _ = strip(ch[0]) if ch else (None, False)
            if l is not None and l["k"] == "DeclRefExpr":
                assigned.add(l["d"].get("id"))
        elif st.get("k") == "UnaryOperator" and st.get("op") in ("++", "--", "&"):
            ch = [c for c in st.get("ch", []) if c]
            l, _ = strip(ch[0]) if ch else (None, False)
            if l is not None and l["k"] == "DeclRefExpr":
                assigned.add(l["d"].get("id"))
    if not bound:
        return

    def reach(entry):
        seen, work = set(), [entry]
        while work:
            b = work.pop()
            if b in seen or b is None or b not in blocks:
                continue
            seen.add(b)
            work += [x for x in blocks[b]["succs"] if x is not None]
        return seen
    before = reach(entry)
    for blk in blocks.values():
        t = blk.get("term")
        if not t or not t.get("cond") or len(blk["succs"]) != 2 or t.get("k") not in ("IfStmt", "ConditionalOperator", "WhileStmt"):
            continue
        c, neg = strip(t["cond"])
        if c is None or c["k"] != "DeclRefExpr":
            continue
        did = c["d"].get("id")
        if did in bound and did not in assigned:
            val = bound[did] != neg
            dead = 1 if val else 0
            blk["succs"] = list(blk["succs"])
            blk["succs"][dead] = None
            blk["pruned"] = dead
    # what the decided branches cut off is not part of this call site's code: drop those statements, so that rules
    # which scan the statement table do not judge code that cannot run here
    after = reach(entry)
    gone = before - after
    if gone:
        live_ids, dead_ids = set(), set()
        for b_, blk_ in blocks.items():
            for e in blk_["elems"]:
                if e.get("s"):
                    (dead_ids if b_ in gone else live_ids).add(e["s"])
            t = blk_.get("term") or {}
            for key in ("cond",):
                if t.get(key):
                    (dead_ids if b_ in gone else live_ids).add(t[key])
        for sid in dead_ids - live_ids:
            stmts.pop(sid, None)
        for b_ in gone:
            blocks[b_]["elems"] = []
            blocks[b_]["dead"] = True


def _renumber(d, blocks):
    """block ids as clang assigns them: the entry has the highest id, the exit 0, and ids fall along the control flow
    (reverse post-order), so that 'the block with the higher id comes first' stays a usable tie-breaker"""
    entry, exit_ = d["cfg"]["entry"], d["cfg"]["exit"]
    order, seen = [], set()

    def dfs(root):
        stack = [(root, iter([x for x in blocks[root]["succs"] if x is not None]))]
        seen.add(root)
        while stack:
            node, it = stack[-1]
            adv = False
            for nx in it:
                if nx not in seen:
                    seen.add(nx)
                    stack.append((nx, iter([x for x in blocks[nx]["succs"] if x is not None])))
                    adv = True
                    break
            if not adv:
                order.append(node)
                stack.pop()
    dfs(entry)
    for b in sorted(blocks, reverse=True):      # handler chains and other blocks without an edge from the entry
        if b not in seen:
            dfs(b)
    # `order` is a post-order: the exit comes out early, the entry last
    order = [b for b in order if b != exit_]
    newid = {exit_: 0}
    for i, b in enumerate(order):
        newid[b] = i + 1
    out = []
    for old, blk in blocks.items():
        blk["id"] = newid[old]
        blk["succs"] = [newid[x] if x is not None else None for x in blk["succs"]]
        out.append(blk)
    d["cfg"]["entry"], d["cfg"]["exit"] = newid[entry], 0
    d["cfg"]["blocks"] = sorted(out, key=lambda b_: -b_["id"])


def _splice(d, stmts, blocks, next_block, counter, bid, idx, call_id, g, rnd, mode="call", var=None):
    counter[0] += 1
    n = counter[0]
    pre = "%si%d_" % (rnd, n)
    base_tag = g.name.replace("~", "dtor_") if not g.is_lambda else "lambda"
    if mode == "ctor":
        base_tag = "ctor_" + g.name
    cnt = d.setdefault("_tagcount", {})
    cnt[base_tag] = cnt.get(base_tag, 0) + 1
    # the second and later copies of one helper inside one function get numbered names: access paths are name based
    tag = "%s%s$" % (base_tag, "" if cnt[base_tag] == 1 else str(cnt[base_tag]))
    if mode == "dtor":
        ad_elem = blocks[bid]["elems"][idx]
        call = {"k": "AD", "f": g.file, "l": ad_elem.get("l"), "ch": []}
    else:
        call = stmts[call_id]
    gd = g.d
    idmap = {sid: pre + sid for sid in gd["stmts"]}
    loc = {"f": call.get("f"), "l": call.get("l"), "c": call.get("c")}

    # ---- arguments
    args = list(call.get("args", []))
    obj = call.get("obj") if mode == "call" else None
    if call["k"] == "CXXOperatorCallExpr" and g.rec and not gd.get("static"):
        obj = args[0] if args else None
        args = args[1:]
    params = gd.get("param_decls", [])
    own = set(p_["id"] for p_ in params)      # declaration ids of the helper's own locals and parameters
    for sid, st in gd["stmts"].items():
        if st["k"] == "DeclStmt":
            for dd in st.get("decls", []):
                own.add(dd.get("id"))
        if st["k"] == "CXXForRangeStmt" and st.get("loopvar"):
            own.add(st["loopvar"].get("id"))
    # a closure body names captured variables by the declaration ids of the function the closure was created in; when
    # that creation site is itself an inlined copy, its captures were renamed: follow the renaming
    capmap = {}
    if g.is_lambda:
        for st in stmts.values():
            if st.get("k") == "LambdaExpr" and g.id in st.get("call_ops", []):
                for c in st.get("caps", []):
                    v = c.get("var")
                    if v and isinstance(v.get("id"), str) and "_" in v["id"] and v["id"].split("_")[-1] != v["id"]:
                        capmap[v["id"].rsplit("_", 1)[-1]] = v

    def rename_decl(dd):
        """declaration info of a helper local / parameter as a caller local"""
        dd = copy.deepcopy(dd)
        if dd.get("id") in own:
            dd["id"] = pre + str(dd.get("id"))
            dd["name"] = tag + dd.get("name", "")
            if dd.get("k") == "param":
                dd["k"] = "local"
                dd["inl"] = True
        elif dd.get("id") in capmap:
            return copy.deepcopy(capmap[dd["id"]])
        return dd

    # ---- copy the helper's statements
    new_stmts = {}
    for sid, st in gd["stmts"].items():
        ns = _rewrite(st, idmap)
        k = ns["k"]
        if isinstance(ns.get("inl_return"), str):
            ns["inl_return"] = pre + ns["inl_return"]       # a helper that was itself inlined into this helper
        if k == "DeclRefExpr" and ns.get("d", {}).get("k") in ("local", "param"):
            ns["d"] = rename_decl(ns["d"])
        elif k == "DeclStmt":
            ns["decls"] = [dict(rename_decl(dd), init=idmap.get(dd.get("init"), dd.get("init"))) for dd in st.get("decls", [])]
        elif k == "CXXForRangeStmt" and ns.get("loopvar"):
            ns["loopvar"] = rename_decl(st["loopvar"])
        elif k == "LambdaExpr":
            caps = []
            for c in st.get("caps", []):
                c2 = dict(c)
                if c.get("var"):
                    c2["var"] = rename_decl(c["var"])
                if c.get("init"):
                    c2["init"] = idmap.get(c["init"], c["init"])
                caps.append(c2)
            ns["caps"] = caps
        new_stmts[pre + sid] = ns

    binds = []          # synthetic DeclStmt ids, evaluated right before the inlined body
    nsyn = [0]

    def synth(kind, **kw):
        nsyn[0] += 1
        sid = "%ss%d" % (pre, nsyn[0])
        st = dict(loc, k=kind, ch=[], **kw)
        new_stmts[sid] = st
        return sid

    # `this` of the helper (a closure body keeps the enclosing function's `this`)
    this_decl = None
    if mode in ("ctor", "dtor"):
        # the object is the local variable being declared / going out of scope
        vref = synth("DeclRefExpr", d=dict(var), t=var.get("type", ""), vk="l")
        obj = vref
        stmts_lookup = new_stmts
    else:
        stmts_lookup = stmts
    if g.rec and not g.is_lambda and not gd.get("static") and obj is not None:
        ost = stmts_lookup.get(obj)
        if not (ost is not None and mode == "call" and _is_this(stmts, ost)):
            ot = (ost or {}).get("t", "")
            if ot.rstrip().endswith("*"):
                init = obj
                ptype = ot
            else:
                init = synth("UnaryOperator", op="&", t=ot + " *", vk="pr")
                new_stmts[init]["ch"] = [obj]
                ptype = ot + " *"
            this_decl = {"id": pre + "this", "name": tag + "this", "k": "local", "ref": False, "type": ptype, "init": init, "inl": True,
                         "inl_this": True}
            b = synth("DeclStmt", decls=[this_decl])
            new_stmts[b]["ch"] = [init]
            binds.append(b)
            for sid, ns in new_stmts.items():
                if ns["k"] == "CXXThisExpr":
                    ns["k"] = "DeclRefExpr"
                    ns["d"] = {k: v for k, v in this_decl.items() if k != "init"}
                    ns["vk"] = "l"
    # parameters
    for p_, a in zip(params, args):
        dd = rename_decl(p_)
        dd["init"] = a
        b = synth("DeclStmt", decls=[dd])
        new_stmts[b]["ch"] = [a]
        binds.append(b)
    # result
    ret_decl = None
    rets = [sid for sid, ns in new_stmts.items() if ns["k"] == "ReturnStmt"]
    if gd.get("ret", "void") != "void":
        rt = gd.get("ret", "")
        ret_decl = {"id": pre + "ret", "name": tag + "ret", "k": "local", "ref": rt.rstrip().endswith("&"), "type": rt, "inl": True,
                    "inl_ret": True}
        b = synth("DeclStmt", decls=[dict(ret_decl)])
        binds.append(b)
    for sid in rets:
        ns = new_stmts[sid]
        ch = [c for c in ns.get("ch", []) if c]
        if ret_decl is not None and ch:
            ref = synth("DeclRefExpr", d=dict(ret_decl), t=ret_decl["type"], vk="l")
            ns["k"] = "BinaryOperator"
            ns["op"] = "="
            ns["ch"] = [ref, ch[0]]
            ns["t"] = ret_decl["type"]
            ns["inl_return"] = ret_decl["id"]
        else:
            ns["k"] = "NullStmt"
            ns["inl_return"] = True
    # the call expression becomes a transparent wrapper around the result; the helper's body hangs below it in the
    # statement tree, so that "inside this try block / loop / branch" holds for the inlined statements as well
    kids = list(binds)
    if gd.get("body") and pre + gd["body"] in new_stmts:
        kids.append(pre + gd["body"])
    if mode == "ctor":
        call["inlined_ctor"] = g.qname
        call["ch"] = [c for c in call.get("ch", []) if c] + kids
        ret_decl = None
        rets = []
    elif mode == "dtor":
        ad_elem["inlined_dtor"] = g.qname
        # lexically the destructor runs where the variable's scope ends: hang its body below the declaration, so that
        # the enclosing try block / loop of the declaration is the enclosing one of the destructor's statements
        for st_ in stmts.values():
            if st_.get("k") == "DeclStmt" and any(dd.get("id") == var.get("id") for dd in st_.get("decls", [])):
                st_["ch"] = [c for c in st_.get("ch", []) if c] + kids
                break
    if mode == "call":
        call["inlined"] = g.qname
        call["k_orig"] = call["k"]
    # the argument expressions are evaluated by the parameter bindings now (their parents), no longer by the call
    bound = {new_stmts[b]["decls"][0].get("init") for b in binds if new_stmts[b].get("decls")}
    bound |= {c2 for b in binds for c2 in new_stmts[b].get("ch", [])}
    rest = [c for c in call.get("ch", []) if c and c not in bound]
    if mode == "call":
        if ret_decl is not None:
            ref = synth("DeclRefExpr", d=dict(ret_decl), t=ret_decl["type"], vk="l")
            call["k"] = "ParenExpr"
            call["ch"] = [ref] + kids + rest
        else:
            call["k"] = "NullStmt"
            call["ch"] = kids + rest
        call["inl_args"] = {"args": call.get("args"), "obj": call.get("obj")}
        for key in ("args", "obj", "calleeExpr", "callee"):
            call.pop(key, None)
    # member initialisers of an inlined constructor become assignments through `this`
    init_stmt = {}
    if mode == "ctor" and this_decl is not None:
        for blk in gd["cfg"]["blocks"]:
            for e in blk["elems"]:
                if e["k"] == "I" and e.get("field") and e.get("init"):
                    tref = synth("DeclRefExpr", d={k_: v_ for k_, v_ in this_decl.items() if k_ != "init"}, t=this_decl["type"], vk="l")
                    ftype = e.get("type", "")
                    if not ftype:
                        for r_ in g.unit.records:
                            if r_.qname == g.recq and r_.field(e["field"]):
                                ftype = r_.field(e["field"])["type"]
                    lhs = synth("MemberExpr", arrow=True, base=tref, t=ftype, vk="l",
                                m={"name": e["field"], "is_field": True, "rec": g.rec, "recq": g.recq, "id": e.get("field_id"), "ftype": ftype})
                    new_stmts[lhs]["ch"] = [tref]
                    rhs = idmap.get(e["init"], e["init"])
                    asg = synth("BinaryOperator", op="=", t=ftype, inl_init=True)
                    new_stmts[asg]["ch"] = [lhs, rhs]
                    init_stmt[id(e)] = asg
                    if ftype.rstrip().endswith("&"):
                        d.setdefault("inl_member_refs", {})["l:%s.%s" % (var["name"], e["field"])] = rhs
    stmts.update(new_stmts)

    # ---- splice the CFG
    gb = {b["id"]: copy.deepcopy(b) for b in gd["cfg"]["blocks"]}
    g_entry, g_exit = gd["cfg"]["entry"], gd["cfg"]["exit"]
    bmap = {}
    for old in gb:
        if old == g_exit:
            continue
        bmap[old] = next_block[0]
        next_block[0] += 1
    cont = next_block[0]
    next_block[0] += 1
    bmap[g_exit] = cont
    B = blocks[bid]
    cut = idx + 1 if mode == "ctor" else idx        # a constructor body runs right after the construct expression
    tail = {"id": cont, "elems": B["elems"][cut:], "succs": B["succs"], "reach": B.get("reach", [True] * len(B["succs"])),
            "noreturn": B.get("noreturn", False)}
    if B.get("term"):
        tail["term"] = B["term"]
    B["elems"] = B["elems"][:cut] + [{"k": "S", "s": b} for b in binds]
    B["succs"] = [bmap[g_entry]]
    B["reach"] = [True]
    B.pop("term", None)
    B["noreturn"] = False
    blocks[cont] = tail
    for old, blk in gb.items():
        if old == g_exit:
            continue
        nb = dict(blk)
        nb["id"] = bmap[old]
        nb["succs"] = [bmap.get(s_) if s_ is not None else None for s_ in blk["succs"]]
        elems = []
        src_blk = next(b_ for b_ in gd["cfg"]["blocks"] if b_["id"] == old)
        for e0, e in zip(src_blk["elems"], blk["elems"]):
            if e["k"] == "I" and id(e0) in init_stmt:
                elems.append({"k": "S", "s": init_stmt[id(e0)]})
                continue
            e2 = dict(e)
            if e2["k"] == "MD" and this_decl is not None:
                e2["obj_name"] = var["name"] if var else None
            if "s" in e2:
                e2["s"] = idmap.get(e2["s"], e2["s"])
            if "init" in e2:
                e2["init"] = idmap.get(e2["init"], e2["init"])
            if e2.get("var"):
                e2["var"] = rename_decl(e2["var"])
            elems.append(e2)
        nb["elems"] = elems
        if nb.get("term"):
            t = dict(nb["term"])
            for key in ("cond", "s"):
                if t.get(key):
                    t[key] = idmap.get(t[key], t[key])
            nb["term"] = t
        if nb.get("label_s"):
            nb["label_s"] = idmap.get(nb["label_s"], nb["label_s"])
        blocks[nb["id"]] = nb


def _is_this(stmts, st, depth=0):
    while st is not None and depth < 20:
        if st["k"] == "CXXThisExpr":
            return True
        if st["k"] in ("ImplicitCastExpr", "ParenExpr") or (st["k"] == "UnaryOperator" and st.get("op") == "*"):
            ch = [c for c in st.get("ch", []) if c]
            st = stmts.get(ch[0]) if ch else None
            depth += 1
            continue
        return False
    return False
