#!/usr/bin/env python3
"""Regenerate /verif/MANIFEST.json from the table below (kept here so that the
manifest stays valid and consistent while checks are added)."""
import json
import os
import sys

VERIF = os.path.dirname(os.path.dirname(os.path.abspath(__file__)))

NOTE = ("trusted: clang 14 front end and clang::CFG; the semantic tables for libstdc++ RAII locks, atomics, "
        "condition variables and containers in rules/engine.py; the hand-confirmed tables in /verif/tables. "
        "Decides structural necessary conditions on every CFG path of every instantiated function; does NOT "
        "decide behaviour over schedules/histories (clauses listed under N in DESIGN.md section 5/7).")

# property -> (built?, technique, level text, design ref, not-applicable reason if not built)
P = {
 "C01": ("lockset + RAII typestate dataflow over clang CFGs; lock-order graph; compile-fail witnesses",
         "Static: on every CFG path of every instantiated member (4 mutex types) each access to the payload is "
         "inside a critical section of the object's own mutex or escapes only into a handle locked on it; handles "
         "are move-only RAII; no raw lock/unlock; lock-order graph acyclic. Consistent lockset implies mutual "
         "exclusion for every schedule, which a test cannot show. Fairness/deadlock with user code not decided.",
         "5/C01"),
}

ALL = ["C%02d" % i for i in range(1, 21)]


def main():
    props = [json.loads(l) for l in open(os.path.join(VERIF, "properties.jsonl"))]
    mod_dir = os.path.join(VERIF, "rules", "props")
    checks = []
    na = []
    table = json.load(open(os.path.join(VERIF, "tools", "manifest_table.json")))
    for p in props:
        pid = p["id"]
        ent = table.get(pid)
        built = ent and ent.get("built") and os.path.exists(os.path.join(mod_dir, pid.lower() + ".py"))
        if built:
            checks.append({
                "property_id": pid,
                "quick_cmd": "./check %s --tier quick" % pid,
                "thorough_cmd": "./check %s --tier thorough" % pid,
                "evidence_file": "/verif/evidence/%s.json" % pid,
                "replay_cmd_template": "./check replay --replay {path}",
                "engine": "gmlc-static",
                "level_claimed": {"category": "other", "text": ent["level"], "design_ref": ent["design_ref"]},
                "level_note": NOTE + " " + ent.get("undecided", ""),
                "technique": ent["technique"],
            })
        else:
            na.append({"property_id": pid,
                       "reason": (ent or {}).get("na_reason", "check not built yet (work in progress, see DESIGN.md Appendix F)")})
    m = {
        "version": 1,
        "setup_cmd": "python3 -m rules.setup",
        "hooks": {"guard": "GMLC_TDC_CONCURRENCY_VERIF",
                  "enable": "none: no source hooks are needed; every table lives in /verif and the checks read /repo's working tree directly",
                  "baseline_off_cmd": "cmake --build /repo/_build -j8 && ctest --test-dir /repo/_build -j8 --timeout 900",
                  "source_commits": [], "add_only": True},
        "engines": [{"name": "gmlc-static", "path": "/verif/rules",
                     "serves_properties": [c["property_id"] for c in checks],
                     "kind_free_text": "LibTooling extractor (extractor/gmlc_extract.cc) writing AST+CFG facts of every "
                                       "instantiated library function; repository-specific dataflow/typestate/ordering rules "
                                       "in Python (rules/); compile-fail witnesses (drivers/witness_*.cpp)"}],
        "checks": checks,
        "notes": "Static analysis only. exit 0 = all obligations discharged; exit 1 = VIOLATION lines; exit 2 = analysis broken "
                 "(anchor vanished / floor not reached / extractor failure), never a pass. Fixed defects are listed in "
                 "known_findings.txt (fixed: entries suppress nothing). Every run re-extracts the facts from /repo's current "
                 "headers; members that the hand-written driver does not instantiate (added later) are reached through a "
                 "driver generated at run time in the cache directory (rules/autodrive.py). Calibration: 325 independently "
                 "written breaking changes (seeded/), 35 mutants and about 270 behaviour-preserving patches (selftest/), see "
                 "DESIGN.md section 9.",
        "not_applicable": na,
    }
    json.dump(m, open(os.path.join(VERIF, "MANIFEST.json"), "w"), indent=1)
    print("checks:", [c["property_id"] for c in checks])
    print("not_applicable:", [n["property_id"] for n in na])


if __name__ == "__main__":
    main()
