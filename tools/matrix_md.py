#!/usr/bin/env python3
"""Render seeded/MATRIX.json (written by tools/seed_matrix.py) as seeded/MATRIX.md."""
import json
import os

VERIF = os.path.dirname(os.path.dirname(os.path.abspath(__file__)))
mat = json.load(open(os.path.join(VERIF, "seeded", "MATRIX.json")))
rows = ["# Seeded changes vs. checks (quick tier)", "",
        "Generated from seeded/MATRIX.json (tools/seed_matrix.py, tools/matrix_md.py). Rounds: see `round` in each seed's meta.json "
        "(1: `_a/_b`, C20_c; 2: `_c/_d`, C20_d-f; 3: `_e/_f`, C20_g-i; 4: `_g/_h`, C20_j-l; later rounds continue the alphabet).", "",
        "| seed | round | change (author's summary, shortened) | own property's check | rules that fire | other checks that also report it | checks that answer 'analysis broken' (exit 2) |",
        "|---|---|---|---|---|---|---|"]
n = own1 = 0
for sid in sorted(mat):
    res = mat[sid]
    mp = os.path.join(VERIF, "seeded", sid, "meta.json")
    meta = json.load(open(mp)) if os.path.exists(mp) else {}
    own = sid.split("_")[0]
    o = res.get(own, {})
    others = sorted(p for p, v in res.items() if p != own and isinstance(v, dict) and v.get("exit") == 1)
    broken = sorted(p for p, v in res.items() if isinstance(v, dict) and v.get("exit") == 2)
    summ = (meta.get("summary") or "").replace("|", "/").replace("\n", " ")
    summ = summ[:157] + "..." if len(summ) > 160 else summ
    rows.append("| %s | %s | %s | exit %s | %s | %s | %s |" % (sid, meta.get("round", "?"), summ, o.get("exit"), ", ".join(o.get("rules", [])) or "–",
                                                        ", ".join(others) or "–", ", ".join(broken) or "–"))
    n += 1
    own1 += 1 if o.get("exit") == 1 else 0
rows += ["", "%d seeded changes; %d reported (exit 1) by the check of the property they were written against." % (n, own1)]
open(os.path.join(VERIF, "seeded", "MATRIX.md"), "w").write("\n".join(rows) + "\n")
print(rows[-1])
