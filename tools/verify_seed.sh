#!/bin/bash
# usage: verify_seed.sh <seed dir>   -- independently confirms a seeded change:
#  applies patch.diff in a scratch worktree, builds, runs the existing test-suite, runs the demonstration
#  against the changed tree (must fail) and against /repo (must pass). Writes <seed dir>/verify.json.
sd="$1"; id=$(basename "$sd"); wt=/tmp/wt_v_$id
rm -rf "$wt"; git -C /repo worktree prune
/tmp/tools/mkwt.sh "$wt" >/dev/null 2>&1 || { echo "{\"id\":\"$id\",\"error\":\"worktree\"}" > "$sd/verify.json"; exit 1; }
applies=0; git -C "$wt" apply "$sd/patch.diff" 2>/dev/null && applies=1
build=1; cmake --build "$wt/_build" -j4 >"$sd/verify_build.log" 2>&1 || build=0
tests=0
if [ $build = 1 ]; then
  t1=1; ctest --test-dir "$wt/_build" -j4 --timeout 900 >"$sd/verify_ctest.log" 2>&1 || t1=0
  tests=$t1
fi
timeout 600 bash "$sd/run.sh" "$wt" >"$sd/verify_demo_changed.log" 2>&1; rc_changed=$?
timeout 600 bash "$sd/run.sh" /repo >"$sd/verify_demo_repo.log" 2>&1; rc_repo=$?
git -C /repo worktree remove --force "$wt" >/dev/null 2>&1; rm -rf "$wt"
echo "{\"id\":\"$id\",\"patch_applies\":$applies,\"builds\":$build,\"existing_tests_pass\":$tests,\"demo_rc_with_change\":$rc_changed,\"demo_rc_unchanged\":$rc_repo}" > "$sd/verify.json"
cat "$sd/verify.json"
