#!/usr/bin/env python3
"""Run checks against a scratch copy of /repo with one patch applied.

usage: tools/mutest.py <patch.diff> <Cnn> [<Cnn>...] [--tier quick|thorough] [--expect 0|1]
The scratch copy lives under a mkdtemp directory outside /repo and /verif and is
removed afterwards.  Evidence of these runs goes to the scratch directory, never to
/verif/evidence."""
import os
import shutil
import subprocess
import sys
import tempfile

VERIF = os.path.dirname(os.path.dirname(os.path.abspath(__file__)))


def main():
    args = sys.argv[1:]
    tier = "quick"
    if "--tier" in args:
        i = args.index("--tier")
        tier = args[i + 1]
        del args[i:i + 2]
    patch = os.path.abspath(args[0])
    props = args[1:]
    d = tempfile.mkdtemp(prefix="vmut_", dir="/tmp")
    try:
        root = os.path.join(d, "repo")
        os.makedirs(root)
        shutil.copytree("/repo/gmlc", os.path.join(root, "gmlc"))
        shutil.copytree("/repo/tests", os.path.join(root, "tests"))
        os.symlink("/repo/ThirdParty", os.path.join(root, "ThirdParty"))
        r = subprocess.run(["patch", "-p1", "-s", "-i", patch], cwd=root, stdout=subprocess.PIPE,
                           stderr=subprocess.STDOUT, text=True)
        if r.returncode != 0:
            print("PATCH FAILED:", r.stdout)
            return 3
        env = dict(os.environ, VERIF_REPO=root, VERIF_EVIDENCE=os.path.join(d, "evidence"), VERIF_CACHE=os.path.join(d, "cache"))
        worst = 0
        for p in props:
            r = subprocess.run([os.path.join(VERIF, "check"), p, "--tier", tier], env=env,
                               stdout=subprocess.PIPE, stderr=subprocess.STDOUT, text=True)
            out = r.stdout.replace(root + "/", "")
            lines = [l for l in out.splitlines() if not l.startswith("VIOLATION")]
            print("--- %s exit=%d" % (p, r.returncode))
            print("\n".join(lines[-12:]))
            worst = max(worst, r.returncode)
        return worst
    finally:
        shutil.rmtree(d, ignore_errors=True)


if __name__ == "__main__":
    sys.exit(main())
