#!/usr/bin/env python3
"""Run every quick check against every seeded change (scratch copies, in parallel) and write
seeded/MATRIX.json: {seed: {check: exit code}}.   usage: tools/seed_matrix.py [-j N] [seed ...]"""
import json
import os
import shutil
import subprocess
import sys
import tempfile
from concurrent.futures import ThreadPoolExecutor

VERIF = os.path.dirname(os.path.dirname(os.path.abspath(__file__)))
PROPS = ["C%02d" % i for i in range(1, 21)]


def run_seed(sid):
    d = tempfile.mkdtemp(prefix="vmat_", dir="/tmp")
    res = {}
    try:
        root = os.path.join(d, "repo")
        os.makedirs(root)
        shutil.copytree("/repo/gmlc", os.path.join(root, "gmlc"))
        shutil.copytree("/repo/tests", os.path.join(root, "tests"))
        os.symlink("/repo/ThirdParty", os.path.join(root, "ThirdParty"))
        r = subprocess.run(["patch", "-p1", "-s", "-i", os.path.join(VERIF, "seeded", sid, "patch.diff")], cwd=root,
                           stdout=subprocess.PIPE, stderr=subprocess.STDOUT, text=True)
        if r.returncode != 0:
            return sid, {"patch": "failed"}
        env = dict(os.environ, VERIF_REPO=root, VERIF_EVIDENCE=os.path.join(d, "evidence"), VERIF_CACHE=os.path.join(d, "cache"))
        for p in PROPS:
            r = subprocess.run([os.path.join(VERIF, "check"), p, "--tier", "quick"], env=env, stdout=subprocess.PIPE,
                               stderr=subprocess.STDOUT, text=True)
            rules = sorted({l.split("[")[1].split("]")[0] for l in r.stdout.splitlines() if "] " in l and "[C" in l and not l.startswith("VIOLATION")})
            res[p] = {"exit": r.returncode, "rules": rules}
    finally:
        shutil.rmtree(d, ignore_errors=True)
    return sid, res


def main():
    args = sys.argv[1:]
    j = 6
    if "-j" in args:
        i = args.index("-j")
        j = int(args[i + 1])
        del args[i:i + 2]
    seeds = args or sorted(x for x in os.listdir(os.path.join(VERIF, "seeded")) if os.path.isdir(os.path.join(VERIF, "seeded", x)))
    out_path = os.path.join(VERIF, "seeded", "MATRIX.json")
    mat = json.load(open(out_path)) if os.path.exists(out_path) and args else {}
    with ThreadPoolExecutor(max_workers=j) as ex:
        for sid, res in ex.map(run_seed, seeds):
            mat[sid] = res
            own = sid.split("_")[0]
            o = res.get(own, {})
            others = [p for p, v in res.items() if p != own and isinstance(v, dict) and v.get("exit") == 1]
            print("%s own-check exit=%s rules=%s | also caught by: %s | broken(exit 2): %s" % (
                sid, o.get("exit"), o.get("rules"), others,
                [p for p, v in res.items() if isinstance(v, dict) and v.get("exit") == 2]), flush=True)
    json.dump(mat, open(out_path, "w"), indent=1, sort_keys=True)


if __name__ == "__main__":
    main()
